"""C02 - only explicitly exposed, non-private members are remotely reachable.

Class shapes are generated as plain-data specs and materialised with type(); every member body appends to a log.
Requests (every member name, private/dunder variants, reserved dunder names, dotted paths, look-alikes, non-string
names) are sent through all five request kinds with Proxy._pyroInvoke / _pyroInvokeBatch, which bypasses the client
side metadata filter, against a live daemon.  The oracle is an independent exposure predicate computed from the spec.
"""
import copy
import threading

from hypothesis import strategies as st

from vlib.driver import Violation
from vlib import values as V

PROPERTY = "C02"
LEVEL = "exploration"
RULE = ("a case = (class spec, request list). Spec: up to 5 members per class in a base class and a registered subclass, kinds "
        "instance/static/class method, property (read-only, read-write, write-only), plain class attribute, instance attribute, "
        "helper object attribute (instance of an exposed/unexposed helper class with/without __call__); exposure per member, per "
        "class (base and/or sub) or none; @oneway; names from public names, _x, __x, custom dunders and reserved dunders. "
        "Requests: for every member name its private/dunder variants, reserved names, dotted paths, unicode look-alikes and "
        "non-string values x the kinds call, batch, oneway, getattr, setattr. Non-trivial: the request list contains a request "
        "for an EXISTING member that must be refused, or a served member through a non-call kind, and the class has an inherited "
        "member and a property; distinct = distinct case JSON")
ASSUMPTIONS = ["an instance attribute shadowing a class-level METHOD of the same name (plain value, unexposed function, unexposed helper object) is generated in a quarter of the "
               "specs; for such a name only the safety half is demanded (refused, nothing runs, no effect) and it is left out of the advertised == served comparison, "
               "because metadata describes the class while a request resolves on the instance; shadowing of properties / by generated member kinds is not generated",
               "only exposure styles with documented meaning are generated (outermost @expose on a property, @expose below @staticmethod/@classmethod, class-level expose)",
               "classes defining __getattr__/__getattribute__ and aliases (attribute holding a bound exposed method) are outside the domain",
               "privacy rule and 'exposed = decorated itself or defined in a class that was exposed' are re-implemented in this module"]

RESERVED = ["__init__", "__init_subclass__", "__class__", "__module__", "__weakref__", "__call__", "__new__", "__del__", "__repr__",
            "__str__", "__format__", "__nonzero__", "__bool__", "__coerce__", "__cmp__", "__eq__", "__ne__", "__hash__", "__ge__", "__gt__",
            "__le__", "__lt__", "__dir__", "__enter__", "__exit__", "__copy__", "__deepcopy__", "__sizeof__", "__getattr__", "__setattr__",
            "__hasattr__", "__getattribute__", "__delattr__", "__instancecheck__", "__subclasscheck__", "__getinitargs__", "__getnewargs__",
            "__getstate__", "__setstate__", "__reduce__", "__reduce_ex__", "__subclasshook__"]
PUBLIC = ["alpha", "beta", "gamma", "delta", "eps", "Zeta", "x1", "alpha__", "x_"]
CUSTOM_DUNDER = ["__len__", "__iter__", "__getitem__", "__contains__", "__alpha__", "__index__"]
PRIVATE = ["_alpha", "__beta", "_", "__", "___", "_x_", "__x_", "_alpha__", "_flush__", "__gamma_", "_x__", "____", "_____"]
REAL_RESERVED = ["__call__", "__enter__", "__exit__", "__copy__", "__format__", "__sizeof__", "__init_subclass__", "__subclasshook__",
                 "__getinitargs__", "__getnewargs__", "__instancecheck__", "__subclasscheck__", "__nonzero__", "__coerce__", "__cmp__",
                 "__hasattr__", "__deepcopy__"]   # safe to define as real logging members
KINDS = ["method", "static", "class", "prop_ro", "prop_rw", "prop_wo", "attr", "iattr", "helper"]

LOG = []
LOCK = threading.Lock()
# every generated class gets one exposed method: a real Proxy refuses to connect to an object that exposes nothing
SENTINEL = {"name": "zz_sync", "kind": "method", "exposed": True, "oneway": False}


def log(*entry):
    with LOCK:
        LOG.append(entry)


def my_is_private(name):
    """own copy of the documented privacy rule: leading underscore is private, except custom dunder names (len > 4);
    the reserved dunder names are always private"""
    if name in RESERVED:
        return True
    if not name.startswith("_"):
        return False
    if len(name) > 4 and name.startswith("__") and name.endswith("__"):
        return False
    return True


# ------------------------------------------------------------------------------------------------
# spec -> class
# ------------------------------------------------------------------------------------------------

def build(spec):
    """-> (registered instance, info) ; info maps member name -> resolved definition (dict) following the MRO"""
    import Pyro5.api as api

    def make_members(members, exposed_decorate=True):
        ns = {}
        iattrs = {}
        def try_expose(x):
            # the application TRIES to expose a private name member by member: the library may refuse (then the member simply is
            # not exposed) - whatever it does, a private name must never become reachable
            try:
                return api.expose(x)
            except AttributeError:
                return x
        for m in members:
            name, kind = m["name"], m["kind"]
            deco = m.get("exposed") and not my_is_private(name)
            tried = m.get("exposed") and my_is_private(name) and not (name.startswith("__") and name.endswith("__"))

            def mk_method(name=name):
                def f(self, *a, **k):
                    log(name, "call", a, k)
                    return ["ran", name]
                f.__name__ = name
                return f
            if kind == "method":
                f = mk_method()
                if m.get("oneway"):
                    f = api.oneway(f)
                if deco:
                    f = api.expose(f)
                elif tried:
                    f = try_expose(f)
                ns[name] = f
            elif kind == "static":
                def f(*a, _n=name, **k):
                    log(_n, "call", a, k)
                    return ["ran", _n]
                f.__name__ = name
                if m.get("oneway"):
                    f = api.oneway(f)
                if deco:
                    f = api.expose(f)
                ns[name] = staticmethod(f)
            elif kind == "class":
                def f(cls, *a, _n=name, **k):
                    log(_n, "call", a, k)
                    return ["ran", _n]
                f.__name__ = name
                if m.get("oneway"):
                    f = api.oneway(f)
                if deco:
                    f = api.expose(f)
                ns[name] = classmethod(f)
            elif kind in ("prop_ro", "prop_rw", "prop_wo"):
                def g(self, _n=name):
                    log(_n, "get")
                    return ["value", _n]

                def s(self, value, _n=name):
                    log(_n, "set", value)
                g.__name__ = s.__name__ = name
                p = property(g if kind != "prop_wo" else None, s if kind != "prop_ro" else None)
                if deco:
                    p = api.expose(p)
                elif tried:
                    p = try_expose(p)
                ns[name] = p
            elif kind == "attr":
                ns[name] = ["class-attr", name]
            elif kind == "iattr":
                iattrs[name] = ["instance-attr", name]
            elif kind == "helper":
                iattrs[name] = ("helper", m.get("helper_exposed", False), m.get("helper_callable", False))
        return ns, iattrs

    base_ns, base_i = make_members(spec["base"] + [SENTINEL])
    Base = type("Base", (object,), base_ns)
    if spec.get("base_exposed"):
        Base = api.expose(Base)
    sub_ns, sub_i = make_members(spec["sub"])
    Sub = type("Sub", (Base,), sub_ns)
    if spec.get("sub_exposed"):
        Sub = api.expose(Sub)

    def helper_class(exposed, callable_):
        ns = {}

        def run(self, *a, **k):
            log("helper.run", "call", a, k)
            return "helper-ran"
        ns["run"] = run
        if callable_:
            def __call__(self, *a, **k):
                log("helper.__call__", "call", a, k)
                return "helper-called"
            ns["__call__"] = __call__
        H = type("Helper", (object,), ns)
        if exposed:
            H = api.expose(H)
        return H

    obj = Sub()
    for name, val in list(base_i.items()) + list(sub_i.items()):
        if isinstance(val, tuple) and val[0] == "helper":
            val = helper_class(val[1], val[2])()
        try:
            object.__setattr__(obj, name, val)
        except (AttributeError, TypeError):
            pass    # e.g. a property of the same name without setter shadows it: then the attribute simply does not exist

    # instance attributes that SHADOW a class-level method of the same name: what a request resolves to is the instance attribute
    for sh in spec.get("shadows", []):
        if sh["kind"] == "icall":
            def val(*a, _n=sh["name"], **k):
                log(_n, "unexposed-instance-callable", a, k)
                return ["shadow-ran", _n]
        elif sh["kind"] == "helper":
            val = helper_class(sh.get("helper_exposed", False), sh.get("helper_callable", False))()
        else:
            val = ["instance-attr", sh["name"]]
        obj.__dict__[sh["name"]] = val

    # resolved view following the MRO (sub overrides base); instance attributes are shadowed by data descriptors
    resolved = {}
    for where, members, cls_exposed in (("base", spec["base"] + [SENTINEL], spec.get("base_exposed")), ("sub", spec["sub"], spec.get("sub_exposed"))):
        for m in members:
            if m["kind"] in ("iattr", "helper"):
                continue
            resolved[m["name"]] = dict(m, where=where, class_exposed=bool(cls_exposed))
    for where, members in (("base", spec["base"]), ("sub", spec["sub"])):
        for m in members:
            if m["kind"] in ("iattr", "helper"):
                cur = resolved.get(m["name"])
                if cur is not None and cur["kind"].startswith("prop"):
                    continue      # data descriptor on the class wins over the instance dict
                resolved[m["name"]] = dict(m, where=where, class_exposed=False)
    for sh in spec.get("shadows", []):
        cur = resolved.get(sh["name"])
        if cur is not None and not cur["kind"].startswith("prop"):
            resolved[sh["name"]] = dict(sh, where="instance", class_exposed=False, shadows=cur["kind"])
    return obj, resolved


def is_exposed(m):
    """explicitly exposed: decorated itself, or defined in a class that was exposed as a whole; never for private names"""
    if my_is_private(m["name"]):
        return False
    if m["kind"] in ("attr", "iattr", "helper", "icall"):
        return False
    return bool(m.get("exposed") or m["class_exposed"])


def served(resolved, kind, name):
    """-> None (must be refused, nothing may run) | ('call'|'get'|'set') expected log action | 'getter-may-run'"""
    if type(name) is not str or my_is_private(name):
        return None
    m = resolved.get(name)
    if m is None or not is_exposed(m):
        return None
    k = m["kind"]
    if kind in ("call", "batch", "oneway"):
        if k in ("method", "static", "class"):
            return "call"
        if k in ("prop_ro", "prop_rw"):
            return "getter-may-run"       # the name denotes an exposed property: its getter may run, the call itself fails
        return None
    if kind == "getattr":
        return "get" if k in ("prop_ro", "prop_rw") else None
    if kind == "setattr":
        return "set" if k in ("prop_rw", "prop_wo") else None
    return None


# ------------------------------------------------------------------------------------------------
# strategies
# ------------------------------------------------------------------------------------------------
member_names = st.one_of(st.sampled_from(PUBLIC), st.sampled_from(PUBLIC), st.sampled_from(CUSTOM_DUNDER), st.sampled_from(PRIVATE),
                         st.sampled_from(REAL_RESERVED))


@st.composite
def member(draw):
    name = draw(member_names)
    kind = draw(st.sampled_from(KINDS + ["method", "prop_rw", "prop_ro"]))
    if name in REAL_RESERVED + CUSTOM_DUNDER and kind in ("static", "class", "prop_ro", "prop_rw", "prop_wo", "attr", "iattr", "helper"):
        kind = "method"
    if name in ("__", "___", "_", "____", "_____") and kind in ("iattr", "helper"):
        kind = "method"
    m = {"name": name, "kind": kind, "exposed": draw(st.booleans()), "oneway": draw(st.integers(0, 3)) == 0}
    if kind == "helper":
        m["helper_exposed"] = draw(st.booleans())
        m["helper_callable"] = draw(st.booleans())
    return m


@st.composite
def spec_strategy(draw):
    base = draw(st.lists(member(), min_size=1, max_size=4, unique_by=lambda m: m["name"]))
    sub = draw(st.lists(member(), min_size=0, max_size=4, unique_by=lambda m: m["name"]))
    # an instance attribute that shadows a class-level member of the same name is outside the domain (metadata is per class)
    classlevel = {m["name"] for m in base + sub if m["kind"] not in ("iattr", "helper")} | {"zz_sync", "zz_base"}
    base = [m for m in base if m["kind"] not in ("iattr", "helper") or m["name"] not in classlevel]
    sub = [m for m in sub if m["kind"] not in ("iattr", "helper") or m["name"] not in classlevel]
    if not base:
        base = [{"name": "zz_base", "kind": "method", "exposed": True, "oneway": False}]
    spec = {"base": base, "sub": sub, "base_exposed": draw(st.booleans()), "sub_exposed": draw(st.booleans())}
    if draw(st.integers(0, 3)) == 0:
        # an instance attribute named like a method of the class (the advertised metadata describes the class, a request
        # resolves on the instance): only the safety half is demanded for such names - nothing unexposed may run
        victims = [m["name"] for m in base + sub if m["kind"] in ("method", "static", "class")]
        if victims:
            shadows = []
            for n in draw(st.lists(st.sampled_from(victims), min_size=1, max_size=2, unique=True)):
                k = draw(st.sampled_from(["icall", "icall", "iattr", "helper"]))
                sh = {"name": n, "kind": k}
                if k == "helper":
                    sh["helper_exposed"] = False
                    sh["helper_callable"] = draw(st.booleans())
                shadows.append(sh)
            spec["shadows"] = shadows
    return spec


NONSTRING = [5, None, True, 1.5, ["alpha"], {"a": 1}, b"alpha", ("alpha",), (), ("alpha", "beta"), [], ["alpha", "beta"], {}]


def lookalikes(n):
    """other spellings that a unicode normalisation (NFKC: what Python applies to identifiers in source code) maps onto the name:
    fullwidth forms, mathematical bold letters, ligatures, a compatibility underscore"""
    out = []
    if n and all(0x21 <= ord(c) <= 0x7e for c in n):
        out.append("".join(chr(ord(c) + 0xfee0) for c in n))                              # ｆｕｌｌｗｉｄｔｈ, also of the underscores
        out.append("".join(chr(ord(c) + 0xfee0) if c.isalpha() else c for c in n))        # only the letters
        out.append("".join(chr(0x1d41a + ord(c) - ord("a")) if "a" <= c <= "z" else c for c in n))   # mathematical bold small letters
        out.append(n.replace("_", "\ufe4d") if "_" in n else n[:1] + "\u200d" + n[1:])   # dashed low line / zero width joiner inside
    if "fi" in n:
        out.append(n.replace("fi", "\ufb01"))
    if "fl" in n:
        out.append(n.replace("fl", "\ufb02"))
    return [x for x in out if x != n]


@st.composite
def case_strategy(draw):
    spec = draw(spec_strategy())
    names = []
    for m in spec["base"] + spec["sub"]:
        n = m["name"]
        names.append(n)
        bare = n.strip("_") or "x"
        names += draw(st.lists(st.sampled_from(["_" + bare, "__" + bare, "__" + bare + "__", bare, "_" + bare + "__", "__" + bare + "_", bare + "__", n + ".__class__", n + ".run", n + ".__call__",
                                                n + ".__func__", n.upper(), n + " ", "а" + n[1:] if n.startswith("a") else n + "​"]),
                               max_size=2))
    names += draw(st.lists(st.sampled_from(RESERVED), min_size=2, max_size=5))
    # look-alike spellings of real members (exposed or not) and of the names that must never be served
    pool = sorted({m["name"] for m in spec["base"] + spec["sub"]} | {"__class__", "__init__", "__dict__", "__call__", "zz_sync"})
    for n in draw(st.lists(st.sampled_from(pool), min_size=1, max_size=3)):
        la = lookalikes(n)
        if la:
            names.append(draw(st.sampled_from(la)))
    names += draw(st.lists(st.sampled_from(["__class__.__name__", "__dict__", "__init__.__globals__", "nonexistent", "", ".", "alpha.beta", "_pyroId",
                                            "_pyroDaemon", "__doc__", "__module__", "__slots__", "__wrapped__"]), max_size=3))
    reqs = []
    for n in names:
        kinds = draw(st.lists(st.sampled_from(["call", "batch", "oneway", "getattr", "setattr", "getattr+F", "setattr+F", "getattr+0", "setattr+N", "getattr+kw", "setattr+kw"]),
                              min_size=1, max_size=3, unique=True))
        for k in kinds:
            reqs.append([k, n])
    for v in draw(st.lists(st.sampled_from(range(len(NONSTRING))), max_size=2)):
        reqs.append([draw(st.sampled_from(["call", "batch", "oneway", "getattr", "setattr"])), {"$nonstring": v}])
    return {"spec": spec, "reqs": reqs, "ser": draw(st.sampled_from(["serpent", "marshal", "json", "msgpack"])), "swap": draw(st.integers(0, 2)) == 0}


# ------------------------------------------------------------------------------------------------
# execution
# ------------------------------------------------------------------------------------------------
_live = {}


def _setup(servertype):
    from vlib import live
    threading.excepthook = lambda args: None      # oneway threads calling a non-callable print tracebacks otherwise
    if _live.get("servertype") != servertype:
        _teardown()
    if "served" not in _live:
        live.quiet_logs()
        _live["served"] = live.Served(servertype)
        _live["servertype"] = servertype
        _live["n"] = 0
    return _live["served"]


def _teardown():
    if "served" in _live:
        _live["served"].stop()
    _live.clear()


def _join_oneway_threads():
    from vlib import live
    live.join_oneway_threads(30)


def _state(obj):
    out = {}
    for k, v in vars(obj).items():
        out[k] = repr(v) if not isinstance(v, (list, str, int)) else copy.deepcopy(v)
    return out


def run_case(case, servertype=None, keep=False):
    if case.get("part") == "sched":
        return run_sched_case(case)
    from vlib import live
    from Pyro5 import errors, protocol
    servertype = servertype or case.get("servertype", "thread")
    S = _setup(servertype)
    V_ = []
    spec = case["spec"]
    try:
        obj, resolved = build(spec)
    except Exception as x:
        # a spec the decorators themselves reject is outside the domain (e.g. cannot happen: private names are never decorated)
        return [Violation("C02:harness:build", "spec could not be materialised: %r %r" % (x, spec))]
    _live["n"] += 1
    oid = "obj%d" % _live["n"]
    S.daemon.register(obj, oid)
    p = live.proxy(S.uri(oid), serializer=case.get("ser", "serpent"))

    def viol(sig, what):
        V_.append(Violation("C02:" + sig, ("%s  [spec=%s]" % (what, V.dumps(spec)))[:900]))

    def featureof(name):
        m = resolved.get(name) if type(name) is str else None
        if m is None:
            return "nomember"
        return m["kind"] + ("" if not is_exposed(m) else "-exposed")

    try:
        p._pyroBind()
        for phase in range(2 if case.get("swap") else 1):
            if phase == 1:
                # the application replaces the object under this id by another one whose members have the same names and the OPPOSITE
                # exposure, while the connection stays open: what is served now is decided by the new object alone
                spec = flip_exposure(spec)
                obj, resolved = build(spec)
                S.daemon.unregister(oid)
                S.daemon.register(obj, oid)
            # (3) advertised metadata == what the predicate says will be served
            meta = p._pyroInvoke("get_metadata", [oid], {}, objectId="Pyro.Daemon")
            adv_methods, adv_attrs, adv_oneway = set(meta["methods"]), set(meta["attrs"]), set(meta["oneway"])
            exp_methods, exp_attrs, exp_oneway = expected_meta(resolved)
            shadowed = {sh["name"] for sh in spec.get("shadows", [])}      # advertised per class, resolved per instance: not compared
            adv_methods, adv_oneway, exp_methods, exp_oneway = adv_methods - shadowed, adv_oneway - shadowed, exp_methods - shadowed, exp_oneway - shadowed
            if adv_methods != exp_methods:
                viol("metadata:methods", "advertised methods %s, served methods %s" % (sorted(adv_methods), sorted(exp_methods)))
            if adv_attrs != exp_attrs:
                viol("metadata:attrs", "advertised attrs %s, served attrs %s" % (sorted(adv_attrs), sorted(exp_attrs)))
            if adv_oneway != exp_oneway:
                viol("metadata:oneway", "advertised oneway %s, expected %s" % (sorted(adv_oneway), sorted(exp_oneway)))
            for kind, name in case["reqs"]:
                if isinstance(name, dict):
                    name = NONSTRING[name["$nonstring"]]
                    if case.get("ser") == "json" and isinstance(name, (bytes, tuple)):
                        continue
                    if case.get("ser") == "msgpack" and isinstance(name, tuple):
                        name = list(name)
                surplus = None
                if "+" in kind:
                    kind, surplus = kind.split("+")       # attribute request carrying surplus arguments (ignored by a correct server)
                want = served(resolved, kind, name)
                if kind == "call" and type(name) is str and name in p._pyroOneway:
                    kind = "oneway"       # the proxy knows from the metadata that this method is oneway and sends it as such
                token = "tok%d" % len(LOG)
                del LOG[:]
                before = _state(obj)
                outcome = None
                try:
                    if kind == "call":
                        outcome = ("ok", p._pyroInvoke(name, (token,), {}))
                    elif kind == "oneway":
                        outcome = ("ok", p._pyroInvoke(name, (token,), {}, flags=protocol.FLAGS_ONEWAY))
                    elif kind == "batch":
                        r = p._pyroInvokeBatch([(name, (token,), {})])
                        outcome = ("ok", r)
                        if r and type(r[0]).__name__ == "_ExceptionWrapper":
                            outcome = ("err", r[0].exception)
                    elif kind == "getattr":
                        extra = {"F": (False,), "0": (0,), "N": (None,), "kw": ()}.get(surplus, ())
                        outcome = ("ok", p._pyroInvoke("__getattr__", (name,) + extra, {"only_exposed": False} if surplus == "kw" else None))
                    elif kind == "setattr":
                        extra = {"F": (False,), "0": (0,), "N": (None,), "kw": ()}.get(surplus, ())
                        outcome = ("ok", p._pyroInvoke("__setattr__", (name, token) + extra, {"only_exposed": False} if surplus == "kw" else None))
                except errors.CommunicationError as x:
                    outcome = ("comm", x)
                except Exception as x:
                    outcome = ("err", x)
                if kind == "oneway":
                    # barrier: a normal call on the same connection, then join the oneway threads started before it
                    try:
                        p._pyroInvoke("zz_sync", (), {})
                    except Exception as x:
                        viol("oneway-reply", "%s request for %r: the following call failed with %r (stray reply / broken connection)" % (kind, name, x))
                        p._pyroRelease()
                    _join_oneway_threads()
                with LOCK:
                    entries = list(LOG)
                ran = [e for e in entries if e[0] != "zz_sync"]
                after = _state(obj)
                label = "%s %r (%s)" % (kind, name, featureof(name))
                if outcome[0] == "comm":
                    viol("dropped:" + kind, "%s: no reply, connection failed with %r" % (label, outcome[1]))
                    try:
                        p._pyroReconnect(2)
                    except Exception:
                        pass
                    continue
                if want is None:
                    if ran:
                        feat = featureof(name)
                        sig = "ran-unexposed:%s:%s" % ("callkinds" if kind in ("call", "batch", "oneway") else kind,
                                                       "property" if feat.startswith("prop") else feat)
                        if feat.startswith("helper") and any(e[0] == "helper.__call__" for e in ran):
                            m = resolved[name]
                            sig = "ran-unexposed:callable-attr-of-%s-class" % ("exposed" if m.get("helper_exposed") else "unexposed")
                        viol(sig, "%s must be refused but code ran: %r" % (label, ran))
                    helper_called = any(e[0] == "helper.__call__" for e in ran)
                    if kind != "oneway" and outcome[0] != "err" and not helper_called:
                        viol("no-error:" + kind, "%s must be refused with an error reply but returned %r" % (label, outcome[1]))
                    if after != before:
                        viol("state-changed", "%s was refused but the object changed: %r -> %r" % (label, before, after))
                elif want == "getter-may-run":
                    bad = [e for e in ran if not (e[0] == name and e[1] == "get")]
                    if bad:
                        viol("ran-other", "%s: other code ran: %r" % (label, bad))
                    if kind != "oneway" and outcome[0] != "err":
                        viol("no-error:" + kind, "%s: calling a property must fail but returned %r" % (label, outcome[1]))
                else:
                    expect = {"call": (name, "call", (token,), {}), "get": (name, "get"), "set": (name, "set", token)}[want]
                    norm = [tuple(e[:2]) + tuple(tuple(x) if isinstance(x, list) else x for x in e[2:]) for e in ran]
                    if norm != [expect]:
                        viol("served-wrong:" + kind, "%s must run exactly %r but the log is %r (outcome %r)" % (label, expect, ran, outcome))
                    if kind in ("call", "getattr") and outcome[0] == "ok":
                        exp_res = ["ran", name] if want == "call" else ["value", name]
                        if list(outcome[1]) != exp_res:
                            viol("served-wrong:" + kind, "%s returned %r" % (label, outcome[1]))
                    if kind != "oneway" and outcome[0] == "err":
                        viol("served-refused:" + kind, "%s is exposed but was refused with %r" % (label, outcome[1]))
                    if kind == "oneway" and outcome[1] is not None:
                        viol("oneway-reply", "%s returned %r" % (label, outcome[1]))
    finally:
        try:
            p._pyroRelease()
        except Exception:
            pass
        try:
            S.daemon.unregister(oid)
        except Exception:
            pass
        if not keep:
            _teardown()
    return V_


def flip_exposure(spec):
    """the same members with every per-member exposure flag inverted and no class-level exposure"""
    def flip(ms):
        return [dict(m, exposed=not m.get("exposed")) for m in ms]
    out = dict(spec, base=flip(spec["base"]), sub=flip(spec["sub"]), base_exposed=False, sub_exposed=False)
    out.pop("shadows", None)
    return out


def expected_meta(resolved):
    exp_methods = {n for n, m in resolved.items() if is_exposed(m) and m["kind"] in ("method", "static", "class")}
    exp_attrs = {n for n, m in resolved.items() if is_exposed(m) and m["kind"].startswith("prop")}
    exp_oneway = {n for n in exp_methods if resolved[n].get("oneway")}
    return exp_methods, exp_attrs, exp_oneway


# ------------------------------------------------------------------------------------------------
# concurrent first metadata requests (harness-owned schedule): every answer must already be the complete metadata
# ------------------------------------------------------------------------------------------------
def run_sched_trial(spec, nthreads, preempt):
    from vlib import sched as S
    from Pyro5 import server
    obj, resolved = build(spec)         # a fresh class every time: nothing about it is cached yet
    sch = S.Sched(("Pyro5/server.py",), preempt=preempt or None)
    answers = []

    def body():
        meta = server._get_exposed_members(obj)
        answers.append({k: set(v) for k, v in meta.items()})        # what a reply sent right now would contain
    for i in range(nthreads):
        sch.spawn(body, "t%d" % i)
    sch.run()
    out = []
    exp = dict(zip(("methods", "attrs", "oneway"), expected_meta(resolved)))
    if sch.deadlock or sch.overrun or sch.errors():
        out.append(Violation("C02:harness:sched", "scheduler trouble: deadlock=%s overrun=%s errors=%r" % (sch.deadlock, sch.overrun, sch.errors())))
    for a in answers:
        for k in ("methods", "attrs", "oneway"):
            if a.get(k) != exp[k]:
                out.append(Violation("C02:metadata-under-concurrency:" + k, ("one of %d concurrent first metadata requests was answered with %s %s, the served set is %s "
                                     "[schedule=%r spec=%s]" % (nthreads, k, sorted(a.get(k, ())), sorted(exp[k]), preempt, V.dumps(spec)))[:900]))
                break
    return sch, out


def run_sched_case(case, ctx=None):
    from vlib import sched as S
    spec, nthreads = case["spec"], case.get("threads", 2)
    if "preempt" in case:
        return run_sched_trial(spec, nthreads, {int(k): v for k, v in case["preempt"].items()})[1]
    found = []

    def run_with(preempt):
        sch, viols = run_sched_trial(spec, nthreads, preempt)
        sch._viols = viols
        return sch
    n = 0
    for preempt, sch in S.enumerate_schedules(run_with, 1, limit=case.get("limit", 150)):
        n += 1
        if sch._viols:
            found = sch._viols
            case["preempt"] = {str(k): v for k, v in preempt.items()}       # the failing schedule becomes part of the replay
            break
    if ctx is not None:
        ctx.notes["schedules_run"] = ctx.notes.get("schedules_run", 0) + n
    return found


def _nontrivial(case):
    try:
        _obj_unused = None
        resolved = _resolve_only(case["spec"])
    except Exception:
        return False
    has_inherited = any(m["where"] == "base" for m in resolved.values())
    has_prop = any(m["kind"].startswith("prop") for m in resolved.values())
    refused_existing = any(type(n) is str and n in resolved and served(resolved, k.split("+")[0], n) is None for k, n in case["reqs"])
    served_noncall = any(type(n) is str and k != "call" and served(resolved, k.split("+")[0], n) in ("call", "get", "set") for k, n in case["reqs"])
    return has_inherited and has_prop and (refused_existing or served_noncall)


def _resolve_only(spec):
    resolved = {}
    for where, members, ce in (("base", spec["base"] + [SENTINEL], spec.get("base_exposed")), ("sub", spec["sub"], spec.get("sub_exposed"))):
        for m in members:
            if m["kind"] not in ("iattr", "helper"):
                resolved[m["name"]] = dict(m, where=where, class_exposed=bool(ce))
    for where, members in (("base", spec["base"]), ("sub", spec["sub"])):
        for m in members:
            if m["kind"] in ("iattr", "helper"):
                cur = resolved.get(m["name"])
                if cur is not None and cur["kind"].startswith("prop"):
                    continue
                resolved[m["name"]] = dict(m, where=where, class_exposed=False)
    for sh in spec.get("shadows", []):
        cur = resolved.get(sh["name"])
        if cur is not None and not cur["kind"].startswith("prop"):
            resolved[sh["name"]] = dict(sh, where="instance", class_exposed=False, shadows=cur["kind"])
    return resolved


def _labels(case):
    resolved = _resolve_only(case["spec"])
    l = ["ser:" + case.get("ser", "serpent")]
    if case["spec"].get("shadows"):
        l.append("instance-attribute-shadows-class-method")
    for k, n in case["reqs"]:
        if type(n) is not str:
            l.append("req:nonstring")
            continue
        if "+" in k:
            l.append("req:surplus-args")
        k = k.split("+")[0]
        w = served(resolved, k, n)
        l.append("req:%s:%s" % (k, "served" if w in ("call", "get", "set") else "refused-existing" if n in resolved else "refused-unknown"))
    return l


def SHARDS(tier):
    return [{"servertype": t} for t in ("thread", "multiplex")] * (4 if tier == "quick" else 8) + [{"part": "sched"}] * (2 if tier == "quick" else 6)


@st.composite
def sched_case(draw):
    spec = draw(spec_strategy())
    spec.pop("shadows", None)       # (metadata describes the class: instance attributes are not part of this part)
    return {"part": "sched", "spec": spec, "threads": draw(st.sampled_from([2, 2, 3]))}


def run(ctx):
    if ctx.shard.get("part") == "sched":
        ctx.search(sched_case(), lambda c: run_sched_case(c, ctx), ctx.n(25, 200), nontrivial=lambda c: True,
                   labels=lambda c: ["sched", "threads:%d" % c["threads"]], name="metasched", max_rounds=3)
        return
    st_ = ctx.shard.get("servertype", "thread")
    try:
        if ctx.shard.get("index", 0) < 2:
            # deterministic part: every reserved dunder name that can be defined harmlessly, as a real (logging) method of a class
            # exposed as a whole and once more exposed on its own: requested through every kind, it must be refused
            for name in REAL_RESERVED:
                for own in (False, True):
                    case = {"spec": {"base": [{"name": name, "kind": "method", "exposed": own, "oneway": False}], "sub": [],
                                     "base_exposed": True, "sub_exposed": own},
                            "reqs": [[k, name] for k in ("call", "batch", "oneway", "getattr", "setattr")], "ser": "serpent"}
                    ctx.observe(case, run_case(case, st_, keep=True), True, ["reserved-name-sweep"])
        ctx.search(case_strategy(), lambda c: run_case(c, st_, keep=True), ctx.n(150, 1500), nontrivial=_nontrivial, labels=_labels,
                   name="exposure" + st_, max_rounds=8)
    finally:
        _teardown()
