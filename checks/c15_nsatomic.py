"""C15 - name server operations are atomic under concurrent clients.

Small sets of concurrent operations (2-3 threads x 1-2 ops on <= 2 shared names) run against NameServer(MemoryStorage)
under the harness-owned scheduler (vlib.sched), which preempts at every source line of Pyro5/nameserver.py; the locks the
name server module creates are scheduler-aware locks of the same kind (re-entrant or not).  Schedules: exhaustive up to
a bounded number of preemptions for a fixed catalogue of op-sets, then Hypothesis-generated op-sets and schedules.
Oracle: linearizability against a map model (brute force over all orders consistent with call/return steps), the
safe-register and remove-count corollaries, no internal error escapes, no deadlock.
"""
import itertools
import threading
import types

from hypothesis import strategies as st

from vlib.driver import Violation
from vlib import sched as S

PROPERTY = "C15"
LEVEL = "exploration"
RULE = ("a case = (op-set: 2-3 threads x 1-2 operations from {safe/unsafe register, remove by name/prefix, set_metadata, lookup, list} "
        "on names {x, xy, y} + schedule: explicit choices at numbered scheduling decisions, one decision per executed source line of "
        "nameserver.py). Enumerated part: for each op-set of a fixed catalogue ALL schedules with <= 1 (quick) / <= 2 (thorough) "
        "deviations from run-to-block; generated part: Hypothesis op-sets with random choice lists. Non-trivial: the schedule "
        "preempts a thread inside nameserver.py at least once; distinct = distinct (op-set, schedule)")
ASSUMPTIONS = ["in-memory back-end only (sqlite blocks inside C code under a paused thread: artefact of serialising threads)",
               "preemption granularity is one source line of nameserver.py; dict operations of the storage are atomic (CPython GIL)",
               "threading.Lock/RLock as seen by nameserver.py are replaced by scheduler-aware locks of the same re-entrancy (the server creates its own lock, whenever it does)"]

URI1, URI2 = "PYRO:a@h:1", "PYRO:b@h:2"
FILES = ("Pyro5/nameserver.py",)


def model_apply(state, op):
    """state: dict name -> (uri, frozenset meta); returns ('ok', value) | ('err', classname)"""
    k = op[0]
    if k == "register":
        _, name, uri, safe = op
        if safe and name in state:
            return ("err", "NamingError")
        state[name] = (uri, frozenset())
        return ("ok", None)
    if k == "register_meta":
        _, name, uri, safe, tag = op
        if safe and name in state:
            return ("err", "NamingError")
        state[name] = (uri, frozenset([tag]))
        return ("ok", None)
    if k == "remove":
        _, name = op
        if name in state:
            del state[name]
            return ("ok", 1)
        return ("ok", 0)
    if k == "remove_prefix":
        _, prefix = op
        victims = [n for n in state if n.startswith(prefix)]
        for n in victims:
            del state[n]
        return ("ok", len(victims))
    if k == "set_metadata":
        _, name, tag = op
        if name not in state:
            return ("err", "NamingError")
        state[name] = (state[name][0], frozenset([tag]))
        return ("ok", None)
    if k == "lookup":
        _, name = op
        if name not in state:
            return ("err", "NamingError")
        return ("ok", (state[name][0], state[name][1]))
    if k == "list":
        _, prefix = op
        return ("ok", {n: u for n, (u, m) in state.items() if n.startswith(prefix)})
    raise ValueError(op)


def real_apply(ns, op):
    from Pyro5 import errors
    k = op[0]
    try:
        if k == "register":
            return ("ok", ns.register(op[1], op[2], safe=op[3]))
        if k == "register_meta":
            return ("ok", ns.register(op[1], op[2], safe=op[3], metadata=[op[4]]))
        if k == "remove":
            return ("ok", ns.remove(name=op[1]))
        if k == "remove_prefix":
            return ("ok", ns.remove(prefix=op[1]))
        if k == "set_metadata":
            return ("ok", ns.set_metadata(op[1], [op[2]]))
        if k == "lookup":
            uri, meta = ns.lookup(op[1], return_metadata=True)
            return ("ok", (str(uri), frozenset(meta)))
        if k == "list":
            return ("ok", dict(ns.list(prefix=op[1])) if op[1] else dict(ns.list()))
    except errors.NamingError:
        return ("err", "NamingError")
    except BaseException as x:
        if isinstance(x, S._Abort):
            raise
        return ("err", type(x).__name__ + ":" + str(x)[:60])


def run_trial(opset, initial, preempt=None, choices=None, storage=None, servertype=None):
    """-> (sched, records, final_state) ; records: list of (thread, op, call_step, return_step, result)"""
    from Pyro5 import nameserver, config
    sch = S.Sched(FILES, preempt=preempt, choices=choices)
    # the name server object is used by several threads whatever kind of daemon serves it (auto-clean thread, broadcast server,
    # an application that embeds it): the configured server type must not matter
    old_servertype = config.SERVERTYPE
    if servertype:
        config.SERVERTYPE = servertype
    # every lock the name server module creates - whenever it creates it - is a scheduler-aware lock of the same kind
    real_threading = nameserver.threading
    shim = types.ModuleType("threading_shim")
    shim.__dict__.update(real_threading.__dict__)
    shim.RLock = lambda: S.SRLock(sch)
    shim.Lock = lambda: S.SLock(sch)
    nameserver.threading = shim
    try:
        return _run_trial(nameserver, sch, opset, initial, storage)
    finally:
        nameserver.threading = real_threading
        config.SERVERTYPE = old_servertype


def _run_trial(nameserver, sch, opset, initial, storage_kind=None):
    tmpdir = None
    if storage_kind == "sql":
        # the sqlite back-end: every storage call opens its own connection; writers are serialised by the name server's lock,
        # lookups take no lock (so a lookup may run between two statements of a writer, and a writer between two of a lookup)
        import os
        import tempfile
        tmpdir = tempfile.mkdtemp(prefix="c15_", dir="/dev/shm" if os.path.isdir("/dev/shm") else "/var/tmp")
        storage = nameserver.SqlStorage(os.path.join(tmpdir, "ns.sqlite"))
    else:
        storage = nameserver.MemoryStorage()
    try:
        return _run_trial2(nameserver, sch, opset, initial, storage)
    finally:
        if tmpdir:
            import shutil
            try:
                storage.close()
            except Exception:
                pass
            shutil.rmtree(tmpdir, ignore_errors=True)


def _run_trial2(nameserver, sch, opset, initial, storage):
    for name in initial:
        storage[name] = (URI1, None)            # pre-populated through the storage: the server object itself is untouched before the threads start
    ns = nameserver.NameServer(storage)
    records = []

    def worker(tname, ops):
        def body():
            for op in ops:
                call = sch.step
                res = real_apply(ns, tuple(op))
                records.append((tname, tuple(op), call, sch.step, res))
        return body
    for i, ops in enumerate(opset):
        sch.spawn(worker("t%d" % i, ops), "t%d" % i)
    ok = sch.run()
    final = None
    if ok:
        final = {n: (u, frozenset(m or ())) for n, (u, m) in ns.storage.everything(return_metadata=True).items()}
    return sch, records, final


def linearizable(records, initial, final):
    n = len(records)
    idx = list(range(n))
    for order in itertools.permutations(idx):
        pos = {r: i for i, r in enumerate(order)}
        ok = True
        # real-time order: a returned before b was called  =>  a before b ; program order within a thread is implied by it
        for a in idx:
            for b in idx:
                if a != b and records[a][3] < records[b][2] and pos[a] > pos[b]:
                    ok = False
                    break
            if not ok:
                break
        if not ok:
            continue
        state = {name: (URI1, frozenset()) for name in initial}
        for r in order:
            if model_apply(state, records[r][1]) != records[r][4]:
                ok = False
                break
        if ok and state == final:
            return True
    return False


def check_trial(opset, initial, sch, records, final):
    V = []
    desc = "ops=%r initial=%r schedule=%r" % (opset, initial, sch.preempt or sch.choices)

    def viol(sig, what):
        V.append(Violation("C15:" + sig, (what + "  " + desc)[:900]))
    if sch.deadlock:
        viol("deadlock", "no thread can run and not all have finished (blocked: %s)" % [n for n, s in sch.threads.items() if not s["done"]])
        return V
    if sch.overrun:
        viol("livelock", "more than %d scheduling steps" % sch.max_steps)
        return V
    errs = sch.errors()
    if errs:
        viol("harness:thread-exception", "exception escaped the harness wrapper: %r" % (errs,))
        return V
    for t, op, c, r, res in records:
        if res[0] == "err" and res[1] != "NamingError":
            viol("internal-error:" + op[0], "%s%r failed with an internal error %s" % (op[0], op[1:], res[1]))
    # corollaries
    by_name = {}
    for t, op, c, r, res in records:
        if op[0] == "register" and op[3]:
            by_name.setdefault(op[1], []).append(res)
    for name, results in by_name.items():
        others = [rec for rec in records if rec[1][0] != "register" or not rec[1][3] or rec[1][1] != name]
        touches = [rec for rec in others if rec[1][0] in ("remove", "remove_prefix", "register", "register_meta") and (rec[1][1] == name or (rec[1][0] == "remove_prefix" and name.startswith(rec[1][1])))]
        if not touches and name not in initial:
            wins = sum(1 for r in results if r == ("ok", None))
            if wins != 1:
                viol("safe-register-count", "%d concurrent safe registrations of %r: %d succeeded" % (len(results), name, wins))
    rm = {}
    for t, op, c, r, res in records:
        if op[0] == "remove" and res[0] == "ok":
            rm.setdefault(op[1], []).append(res[1])
    for name, counts in rm.items():
        only_removes = all(rec[1][0] in ("remove", "lookup", "list") or rec[1][1] != name for rec in records if rec[1][0] != "remove_prefix") and \
            not any(rec[1][0] == "remove_prefix" for rec in records)
        if only_removes and name in initial and sum(counts) != 1:
            viol("remove-count", "concurrent removals of %r report %r removed entries in total" % (name, counts))
    if not V and not linearizable(records, initial, final):
        kinds = sorted(set(op[0] for _t, op, _c, _r, _res in records))
        viol("not-linearizable:" + "+".join(kinds), "no sequential order of the operations explains results %r and final state %r" % (
            [(t, op, res) for t, op, c, r, res in records], final))
    return V


def run_case(case):
    opset = [[tuple(o) for o in ops] for ops in case["ops"]]
    sch, records, final = run_trial(opset, case["initial"], preempt={int(k): v for k, v in case.get("preempt", {}).items()} or None,
                                    choices=case.get("choices"), storage=case.get("storage"), servertype=case.get("servertype"))
    return check_trial(opset, case["initial"], sch, records, final)


CATALOGUE = [
    (["x"], [[("remove", "x")], [("remove", "x")]]),
    (["x"], [[("remove", "x")], [("remove", "x")], [("remove", "x")]]),
    ([], [[("register", "x", URI1, True)], [("register", "x", URI2, True)]]),
    ([], [[("register", "x", URI1, True)], [("register", "x", URI2, True)], [("register", "x", URI1, True)]]),
    (["x"], [[("remove", "x")], [("register", "x", URI2, True)]]),
    (["x"], [[("remove", "x")], [("register", "x", URI2, False)]]),
    (["x"], [[("remove", "x")], [("set_metadata", "x", "m")]]),
    (["x"], [[("remove", "x")], [("lookup", "x")]]),
    (["x", "xy"], [[("remove_prefix", "x")], [("remove", "x")]]),
    (["x", "xy"], [[("remove_prefix", "x")], [("remove_prefix", "x")]]),
    (["x"], [[("remove_prefix", "x")], [("register", "xy", URI2, False)]]),
    (["x", "xy"], [[("remove_prefix", "x")], [("list", "x")]]),
    (["x"], [[("set_metadata", "x", "m")], [("set_metadata", "x", "n")]]),
    (["x"], [[("set_metadata", "x", "m")], [("register", "x", URI2, False)]]),
    (["x"], [[("set_metadata", "x", "m")], [("lookup", "x")]]),
    ([], [[("register", "x", URI1, False)], [("register", "x", URI2, False)], [("lookup", "x")]]),
    ([], [[("register", "x", URI1, True), ("remove", "x")], [("register", "x", URI2, True)]]),
    (["x"], [[("remove", "x"), ("register", "x", URI2, True)], [("remove", "x")]]),
    (["x", "y"], [[("remove", "x"), ("remove", "y")], [("list", "")]]),
    (["x"], [[("register", "y", URI2, True)], [("list", "")], [("remove", "x")]]),
    (["x"], [[("set_metadata", "x", "m"), ("remove", "x")], [("register", "x", URI2, True)]]),
    (["x", "xy"], [[("remove_prefix", "x")], [("register", "x", URI2, True)], [("lookup", "xy")]]),
    (["x"], [[("register_meta", "x", URI2, False, "m")], [("lookup", "x")]]),
    (["x"], [[("remove", "x"), ("register_meta", "x", URI2, True, "m")], [("lookup", "x")]]),
    ([], [[("register_meta", "x", URI1, True, "m")], [("register_meta", "x", URI2, True, "n")], [("lookup", "x")]]),
    (["x", "xy"], [[("remove_prefix", "x")], [("list", "x")], [("remove_prefix", "x")]]),
    # (the reader first: one preemption inside the reader then lets the writer run to completion in its middle)
    (["x"], [[("lookup", "x")], [("register_meta", "x", URI2, False, "m")]]),
    (["x"], [[("lookup", "x")], [("set_metadata", "x", "m")]]),
    (["x"], [[("lookup", "x")], [("remove", "x")]]),
    (["x"], [[("lookup", "x")], [("remove", "x"), ("register_meta", "x", URI2, True, "n")]]),
    (["x", "xy"], [[("list", "x")], [("remove_prefix", "x")]]),
    (["x"], [[("list", "")], [("register_meta", "x", URI2, False, "m")]]),
]

names = st.sampled_from(["x", "xy", "y"])
op_st = st.one_of(
    st.tuples(st.just("register"), names, st.sampled_from([URI1, URI2]), st.booleans()),
    st.tuples(st.just("register_meta"), names, st.sampled_from([URI1, URI2]), st.booleans(), st.sampled_from(["m", "n"])),
    st.tuples(st.just("remove"), names),
    st.tuples(st.just("remove_prefix"), st.sampled_from(["x", "y"])),
    st.tuples(st.just("set_metadata"), names, st.sampled_from(["m", "n"])),
    st.tuples(st.just("lookup"), names),
    st.tuples(st.just("list"), st.sampled_from(["", "x"])),
).map(list)


@st.composite
def random_case(draw):
    nthreads = draw(st.integers(2, 3))
    ops = [draw(st.lists(op_st, min_size=1, max_size=2)) for _ in range(nthreads)]
    initial = draw(st.lists(names, max_size=3, unique=True))
    choices = draw(st.lists(st.integers(0, 2), max_size=60))
    return {"ops": ops, "initial": initial, "choices": choices}


BULK = ["n%03d" % i for i in range(505)]        # a store with several hundred names (an implementation may treat long listings specially)
BULK_CATALOGUE = [
    (BULK, [[("list", "n")], [("remove", "n499")]]),
    (BULK, [[("list", "n")], [("remove", "n503")]]),
    (BULK, [[("list", "n5")], [("register", "n5zz", URI2, False)]]),
    (BULK, [[("list", "n")], [("remove", "n001"), ("remove", "n504")]]),
]


def SHARDS(tier):
    k = 1 if tier == "quick" else 2
    sh = [{"part": "enum", "cat": i, "preemptions": k} for i in range(len(CATALOGUE))]
    sh += [{"part": "enum", "cat": i, "preemptions": 2 if sum(len(ops) for ops in opset) <= 2 else 1, "storage": "sql"} for i, (_init, opset) in enumerate(CATALOGUE)
           if any(o[0] == "lookup" for ops in opset for o in ops)]
    sh += [{"part": "enum", "cat": i, "preemptions": 1, "servertype": "multiplex"} for i in range(len(CATALOGUE))]
    # (~2500 scheduling steps per trial, every single deviation from run-to-block; quick tier: two of the four op-sets)
    sh += [{"part": "enum", "bulk": i, "cat": 0, "preemptions": 1} for i in range(len(BULK_CATALOGUE)) if tier != "quick" or i in (1, 2)]
    sh += [{"part": "random"} for _ in range(4 if tier == "quick" else 8)]
    sh += [{"part": "random", "servertype": "multiplex"} for _ in range(1 if tier == "quick" else 3)]
    sh += [{"part": "random", "storage": "sql"} for _ in range(1 if tier == "quick" else 3)]
    return sh


def run(ctx):
    sh = ctx.shard
    if sh.get("part") == "enum":
        initial, opset = CATALOGUE[sh["cat"]] if "bulk" not in sh else BULK_CATALOGUE[sh["bulk"]]
        opset_l = [[list(o) for o in ops] for ops in opset]

        def run_with(preempt):
            sch, records, final = run_trial(opset, initial, preempt=preempt or None, storage=sh.get("storage"), servertype=sh.get("servertype"))
            sch._records, sch._final = records, final
            return sch
        n = 0
        for preempt, sch in S.enumerate_schedules(run_with, sh["preemptions"]):
            case = {"ops": opset_l, "initial": list(initial), "preempt": {str(k): v for k, v in preempt.items()}}
            if sh.get("storage"):
                case["storage"] = sh["storage"]
            if sh.get("servertype"):
                case["servertype"] = sh["servertype"]
            viols = check_trial(opset, initial, sch, sch._records, sch._final)
            ctx.observe(case, viols, nontrivial=sch.preempted_in_files > 0, labels=["enum", "preemptions:%d" % len(preempt)] + (["storage:sqlite"] if sh.get("storage") else []) + (["config:SERVERTYPE=multiplex"] if sh.get("servertype") else []))
            n += 1
            if ctx.violations and n > 50:
                break
        ctx.exhaustive = not ctx.violations
        ctx.notes["schedules_enumerated"] = n
    else:
        strat = random_case()
        if sh.get("storage"):
            strat = strat.map(lambda c: dict(c, storage=sh["storage"]))
        if sh.get("servertype"):
            strat = strat.map(lambda c: dict(c, servertype=sh["servertype"]))
        ctx.search(strat, run_case, ctx.n(800, 6000) if not sh.get("storage") else ctx.n(250, 2000), nontrivial=lambda c: len(c["choices"]) > 0,
                   labels=lambda c: ["random", "threads:%d" % len(c["ops"])] + (["storage:sqlite"] if c.get("storage") else []), name="nsatomic", max_rounds=4)
