"""C12 - the per-call context never leaks between calls or clients.

Histories of calls from 2-3 clients against a live daemon (multiplex: one thread serves everybody; thread server with a pool of
1..2 workers: a worker is reused by the next connection once the previous one is closed).  Most clients are raw socket peers
speaking through the independent reference codec (vlib.wire), so the harness knows exactly which request annotations,
correlation id, sequence number, flags and serializer id every request carried, and reads EVERY answer (RESULT, error reply,
PING answer, CONNECTOK/CONNECTFAIL) with its annotations.  One client may be a real Pyro5 Proxy (client-side clause).

Every exposed method of the target takes a unique call token, records a snapshot of `current_context` as it sees it, and then
(depending on its mode) assigns a new `response_annotations` dict or mutates the existing one with a 4-character tag derived
from the token, so every tag on the wire identifies the call that set it.

Oracle
  LEAK     every answer read by any client carries only tags set during THAT call (a subset: an error reply may omit them);
           ping answers, handshake answers and replies to calls that set nothing carry no tag at all.
  CONTEXT  the snapshot taken inside each method (connection object, peer address, request annotations, correlation id, seq,
           flags, serializer id) equals what the harness sent for that token - also in oneway threads (whose start the harness
           may hold back until later requests were served: a legal schedule) and in batch members, and in methods that are
           provably inside their bodies at the same time (rendezvous in the concurrent cases).
  NESTED   a method may itself call a second daemon through a Proxy of its own: the reply to the outer call still carries
           only what the outer call set (on the unchanged tree it forwards the inner reply's annotations: open known finding),
           and the outer method's context is unchanged after the outgoing call.
  CLIENT   after each call of the real Proxy `current_context.response_annotations` on the calling thread equals the
           annotations of that call's reply, and is empty when the reply had none / there was no reply (oneway).
"""
import itertools
import threading
import time
import uuid

from hypothesis import strategies as st

from vlib.driver import Violation, HarnessError
from vlib import wire

PROPERTY = "C12"
LEVEL = "exploration"
RULE = ("sequential case = history of <= 15 steps by 2-3 clients (raw peers, optionally one real Proxy): returning / raising / oneway "
        "call, batch of 1-3 members (optionally oneway), call whose method itself calls a second daemon through a Proxy (inner call returning/raising, annotating or not), ping, malformed call (unknown object / method / undecodable payload), "
        "disconnect, reconnect; per call: annotation mode {none, assign new dict, mutate in place}, 0-2 request annotations, "
        "correlation id present/absent, serializer, oneway thread {awaited, free running, start held back for 1 step / until the end / until the next method body is running (which then starts and awaits it)}; "
        "server = multiplex or thread pool (size,min) in {(1,1),(2,1),(2,2)} so that workers are reused by later connections; every "
        "case ends with probe connections (handshake, ping, plain call) on every worker.  Concurrent case = <= 6 rounds in which 2-3 "
        "clients (own harness threads) call at the same time against the thread server, the method bodies meeting at a barrier before "
        "they read the context and again after they set their annotations.  Non-trivial: a call that sets annotations and raises, or "
        "a oneway call/batch that sets them, is followed by a generated step that produces an answer to a different call or client "
        "(sequential), or >= 2 annotating calls overlap in a gated round (concurrent); distinct = distinct case JSON")
ASSUMPTIONS = ["the daemon's own annotations() hook returns {} or (half of the cases) one and the same dict object with one entry of its own, which is "
               "ignored on every answer (so every other annotation on an answer must come from a method)",
               "TCP loopback: a connection is identified by the peer's local (host, port) and by a unique handshake string seen by validateHandshake",
               "a request without correlation id gets a server generated one: only demanded that it is not the id of any other request of the case",
               "holding back the start of a oneway thread is done by patching Thread.start on Pyro5.server._OnewayCallThread inside the test process (arbitrary start latency is a legal schedule)",
               "hang guards (60 s socket timeout, 20 s rendezvous) are never verdicts: expiry ends the case as inconclusive harness error or lets the method continue",
               "a served method making an outgoing Pyro call is part of the domain ('calls from several clients': the daemon's own proxy is one of them); the context the inner call sees is not judged (its request is not sent by the harness)",
               "every well-formed call the harness sends must execute (otherwise its snapshot cannot be judged): a call that never ran is reported"]

HANG = 25.0
B62 = "0123456789abcdefghijklmnopqrstuvwxyzABCDEFGHIJKLMNOPQRSTUVWXYZ"

LOCK = threading.Lock()
LOG = {}            # token -> [snapshot, ...]
EVENTS = {}         # token -> Event set when the body ran
REQMUT = set()      # tokens of calls whose method writes into the annotations dict of its own request
GATES = {}          # gate name -> Barrier
DEFER = set()       # tokens of oneway calls whose thread start is held back
HELD = {}           # token -> thread object waiting to be started
HELD_EVT = {}       # token -> Event set once the thread object is parked
OW_THREADS = []     # every oneway thread created during the case
RELEASE_IN = {}     # token -> [tokens of held oneway calls whose threads this call's body starts (and awaits) before it looks around]
GONE_IN = {}        # token -> Event set by the server while it is still decoding the request of a "gone" step
GONE_GO = {}        # token -> Event the decoder waits for (set by the harness once the peer has reset the connection)
GONE_CLASS = "verif.c12.PeerGoesAwayNow"
DAEMON_TAG, DAEMON_VAL = "DMN~", b"from the daemon's own annotations() hook"
BACKEND = {}        # uri of the second daemon (target of nested calls)
_tokens = itertools.count(1)
_serial = itertools.count(1)

SERS = ["marshal", "json", "serpent", "msgpack"]
KINDS = ["ret", "rai", "ow"]
MODES = ["none", "assign", "mutate"]


def b62(n, width):
    s = ""
    for _ in range(width):
        s = B62[n % 62] + s
        n //= 62
    return s


def tag_of(token):
    return b62(token % 62 ** 4, 4)


def tagval(token):
    return b"resp:%d" % token


def reqann_for(token, k):
    return [("#" + b62((token * 3 + j) % 62 ** 3, 3), b"req:%d:%d" % (token, j)) for j in range(k)]


def corr_for(token):
    return b"C12corr" + int(token).to_bytes(9, "big")


def seq_for(token):
    return (token * 7919 + 17) & 0xffff


def junk_flags(token):
    return (token % 16) << 8        # unassigned flag bits, carried verbatim: makes the flags of neighbouring calls differ


# ------------------------------------------------------------------------------------------------
# code running inside the daemon
# ------------------------------------------------------------------------------------------------

def _gate(name):
    b = GATES.get(name)
    if b is not None:
        try:
            b.wait()
        except threading.BrokenBarrierError:
            pass        # hang guard expired or a partner never came: go on, no verdict depends on it


def _snapshot():
    from Pyro5.callcontext import current_context as c
    try:
        ann = {k: bytes(v) for k, v in c.annotations.items()}
    except Exception as x:      # noqa
        ann = "unreadable: %r" % (x,)
    corr = c.correlation_id
    return {"client": c.client, "addr": c.client_sock_addr, "ann": ann,
            "corr": corr.bytes if isinstance(corr, uuid.UUID) else corr,
            "seq": c.seq, "flags": c.msg_flags, "ser": c.serializer_id, "thread": threading.current_thread().name}


def _body(token, mode, gate):
    from Pyro5.callcontext import current_context as c
    with LOCK:
        rel = RELEASE_IN.pop(token, None)
    for ow in rel or ():
        _start_held(ow, wait_body=True)
    if gate:
        _gate(gate)
    snap = _snapshot()
    if token in REQMUT:
        # the method treats the annotations of ITS request as its own scratch data (adds to the dict it was given)
        try:
            c.annotations["X" + tag_of(token)[1:]] = b"scribbled by %d" % token
        except Exception:       # noqa
            pass
    if mode == "assign":
        c.response_annotations = {tag_of(token): tagval(token)}
    elif mode == "mutate":
        c.response_annotations[tag_of(token)] = tagval(token)
    if gate:
        _gate(gate)
    with LOCK:
        LOG.setdefault(token, []).append(snap)
        ev = EVENTS.get(token)
    if ev is not None:
        ev.set()


def _start_held(tok, wait_body=False):
    ev = HELD_EVT.get(tok)
    if ev is not None:
        # until the thread of this call is parked - or the call has been carried out some other way (then there is nothing to start)
        body = EVENTS.get(tok)
        t_end = time.time() + HANG
        while not ev.wait(0.005) and not (body is not None and body.is_set()) and time.time() < t_end:
            pass
    with LOCK:
        t = HELD.pop(tok, None)
        DEFER.discard(tok)
    if t is not None:
        threading.Thread.start(t)
    if wait_body:
        _await_body(tok)


def _await_body(tok, ceiling=None):
    """wait until the body of a oneway call has run.  When it does not within 2 s the daemon may have handed the call to a thread it
    has already - possibly one the harness is holding back: every parked thread is started then (a legal schedule)"""
    e2 = EVENTS.get(tok)
    if e2 is None or e2.wait(2.0):
        return True
    with LOCK:
        parked = list(HELD)
    for t in parked:
        _start_held(t)
    return e2.wait(HANG if ceiling is None else ceiling)


def _gone_converter(classname, d):
    """custom class deserialiser (public API: register_dict_to_class): runs while the server decodes the request, tells the
    harness so and waits until the harness has reset the connection"""
    tok = d.get("token")
    with LOCK:
        ev_in, ev_go = GONE_IN.get(tok), GONE_GO.get(tok)
    if ev_in is not None:
        ev_in.set()
        ev_go.wait(HANG)
    return None


def _classes():
    import Pyro5.api as api

    @api.expose
    class Target(object):
        def ret(self, token, mode="none", gate=None, extra=None):
            _body(token, mode, gate)
            return token

        def rai(self, token, mode="none", gate=None, extra=None):
            _body(token, mode, gate)
            raise ValueError("rai %d" % token)

        @api.oneway
        def ow(self, token, mode="none", gate=None, extra=None):
            _body(token, mode, gate)

        def gen(self, token, mode, item_tokens):
            """hands out a generator: the body of each item runs later, while the request that fetches the item is being served"""
            _body(token, mode, None)

            def item(t):
                _body(t, "none", None)
                return t
            return (item(t) for t in item_tokens)

        def nest(self, token, mode, inner_kind, inner_token, inner_mode):
            """sets its own annotations, then is itself a client of another daemon (a server calling a server)"""
            _body(token, mode, None)
            with api.Proxy(BACKEND["uri"]) as p:
                try:
                    getattr(p, inner_kind)(inner_token, inner_mode)
                except ValueError:
                    pass
            snap = _snapshot()      # the context of the request being served must have survived the outgoing call
            with LOCK:
                LOG.setdefault(token, []).append(snap)
            return token
    return Target


def _token_of(thread):
    """which deferred oneway call does this freshly created thread carry?  The call's arguments are somewhere among the thread's
    attributes (the token is their first element); looked up by value so that the layout of the thread class does not matter"""
    import collections

    def walk(v, depth):
        if type(v) is int and not isinstance(v, bool):
            return v if v in DEFER else None
        if depth and isinstance(v, (tuple, list, collections.deque)):
            for x in list(v)[:4]:
                r = walk(x, depth - 1)
                if r is not None:
                    return r
        return None
    for name, v in sorted(vars(thread).items()):
        if name.startswith("_") and not name.startswith("_OnewayCallThread"):
            continue        # threading.Thread's own fields
        r = walk(v, 3)
        if r is not None:
            return r
    return None


def _held_start(self):
    """replacement for Thread.start on the daemon's oneway thread class: park the thread when the harness asked for it"""
    with LOCK:
        try:
            tok = _token_of(self)
        except Exception:       # noqa
            tok = None
        OW_THREADS.append(self)
        hold = tok is not None and tok in DEFER
        if hold:
            HELD[tok] = self
            ev = HELD_EVT.get(tok)
    if hold:
        if ev is not None:
            ev.set()
    else:
        threading.Thread.start(self)


# ------------------------------------------------------------------------------------------------
# daemon life cycle (one daemon per shard / configuration, reused across cases)
# ------------------------------------------------------------------------------------------------
_live = {}


def _cfg(case):
    if case.get("servertype") == "multiplex":
        return ("multiplex", 0, 0)
    return ("thread", int(case.get("pool", 2)), int(case.get("min", 1)))


def _setup(cfg):
    from vlib import live
    if _live.get("cfg") != cfg:
        _teardown()
    if "served" in _live:
        return _live
    import Pyro5.server
    live.quiet_logs()
    threading.excepthook = lambda a: None
    scopes = []
    if cfg[0] == "thread":
        sc = live.ConfigScope(THREADPOOL_SIZE=cfg[1], THREADPOOL_SIZE_MIN=cfg[2])
        sc.__enter__()
        scopes.append(sc)
    S = live.Served(cfg[0])
    Target = _classes()
    S.daemon.register(Target(), "t")
    B = live.Served("multiplex")        # (multiplex: not subject to the small THREADPOOL_SIZE of the front daemon)
    B.daemon.register(Target(), "t")
    BACKEND["uri"] = B.uri("t")
    Pyro5.server._OnewayCallThread.start = _held_start
    from Pyro5.serializers import SerializerBase
    SerializerBase.register_dict_to_class(GONE_CLASS, _gone_converter)
    _live.update(cfg=cfg, served=S, scopes=scopes, backend=B)
    return _live


def _teardown():
    if "served" in _live:
        import Pyro5.server
        try:
            del Pyro5.server._OnewayCallThread.start
        except AttributeError:
            pass
        S = _live["served"]
        S.stop()
        _live["backend"].stop()
        BACKEND.clear()
        for s in _live.get("scopes", []):
            s.__exit__()
        _reset_case_state(S)        # drop the references to server side connection objects
    _live.clear()


# ------------------------------------------------------------------------------------------------
# one case
# ------------------------------------------------------------------------------------------------

class _Conn(object):
    def __init__(self, kind, idx):
        self.kind = kind            # "raw" | "proxy"
        self.idx = idx              # client number (-1: epilogue probe)
        self.peer = None
        self.proxy = None
        self.local = None
        self.hs = None
        self.open = False
        self.last_used = 0


class _Run(object):
    def __init__(self, L, case):
        self.L = L
        self.S = L["served"]
        self.cfg = L["cfg"]
        self.case = case
        self.V = []
        self.sigs = set()
        self.exp = {}           # token -> expectation
        self.obs = []           # wire observations
        self.req_ids = {}       # request id -> set of correlation ids tied to it (sent / generated as echoed by the answer)
        self.req_sent = {}      # request id -> correlation id sent (or None)
        self.tag_owner = {}     # tag -> description of the call that set it
        self.inner_of = {}      # tag set by a nested (inner) call -> token of the outer call that made it
        self.clock = 0
        self.nreq = 0
        self.conns = []
        self.all_conns = []
        self.pending_defer = []     # (release_at_step | None, token)
        self.pending_into = []      # held oneway calls to be started from inside the next method body
        self.lock = threading.Lock()        # concurrent cases: harness threads append to obs/exp

    # ---- bookkeeping
    def viol(self, sig, what):
        sig = "C12:" + sig
        if sig in self.sigs:
            return
        self.sigs.add(sig)
        self.V.append(Violation(sig, ("[%s] %s" % ("/".join(map(str, self.cfg)), what))[:1200]))

    def new_req(self, corr):
        with self.lock:
            self.nreq += 1
            r = self.nreq
            self.req_sent[r] = corr
            self.req_ids[r] = set([corr] if corr else [])
        return r

    def observe(self, carrier, conn, what, allowed_tokens, anns, req=None, msg=None):
        if getattr(self, "daemon_ann", False):
            anns = [(k, v) for k, v in anns if not (k == DAEMON_TAG and bytes(v) == DAEMON_VAL)]      # the daemon's own entry
        allowed = {tag_of(t): tagval(t) for t in allowed_tokens}
        with self.lock:
            self.obs.append({"carrier": carrier, "client": conn.idx, "what": what, "allowed": allowed, "tokens": list(allowed_tokens),
                             "got": [(k, bytes(v)) for k, v in anns]})
            if msg is not None and req is not None and msg["flags"] & wire.F_CORR_ID:
                self.req_ids[req].add(bytes(msg["corr"]))

    def expect(self, token, conn, ann, corr, seq, flags, ser, where, req, desc, must_run=True, inner=None):
        with self.lock:
            self.exp[token] = {"hs": conn.hs, "local": conn.local, "ann": dict(ann), "corr": corr, "seq": seq, "flags": flags, "ser": ser, "where": where,
                               "req": req, "desc": desc, "must_run": must_run, "check": True}
            self.tag_owner[tag_of(token)] = desc
            if inner is not None:
                # the call the method makes itself: it must run; its own context is that of the in-server proxy's request
                # (not sent by the harness: not judged); it is correlated with the outer request by design
                self.exp[inner] = {"where": "nested", "req": req, "desc": "the nested call (token %d) made by %s" % (inner, desc), "must_run": True, "check": False}
                self.tag_owner[tag_of(inner)] = self.exp[inner]["desc"]
                self.inner_of[tag_of(inner)] = token

    # ---- pool
    def pool_quiet(self, nconnected):
        """wait until the server has let go of every closed connection: it does so only after it has read (and dispatched) every
        request that was still buffered on it, e.g. oneway requests sent just before the close (the multiplex loop serves one
        message per ready connection per round, so answers on OTHER connections are no barrier for them).
        Thread server: additionally the workers of closed connections are back in the pool (or gone)."""
        from vlib import live
        if self.cfg[0] != "thread":
            if not live.wait_for(lambda: self.S.busy_workers() <= nconnected, HANG):
                raise HarnessError("C12: multiplex server did not drop closed connections (%d registered, %d open)" % (self.S.busy_workers(), nconnected))
            return
        pool = self.S.daemon.transportServer.pool
        mn = self.cfg[2]
        ok = live.wait_for(lambda: len(pool.busy) <= nconnected and len(pool.idle) >= max(0, mn - len(pool.busy)), HANG)
        if not ok:
            raise HarnessError("C12: pool did not become quiet (busy=%d idle=%d connected=%d)" % (len(pool.busy), len(pool.idle), nconnected))

    def nopen(self):
        return sum(1 for c in self.all_conns if c.open)

    # ---- connections
    def read(self, conn, what):
        m = conn.peer.read_message()
        if isinstance(m, tuple):
            raise HarnessError("C12: no well-formed answer to %s on client %d: %r" % (what, conn.idx, m[:1] + m[2:]))
        return m

    def connect(self, conn, nreq_ann=0, with_corr=False, ser="marshal"):
        from vlib import live
        import Pyro5.callcontext
        for attempt in range(400):
            hs = "hs%d" % next(_serial)
            tok = next(_tokens)         # only used to derive unique request annotations / correlation id / seq
            anns = reqann_for(tok, nreq_ann)
            corr = corr_for(tok) if with_corr else None
            req = self.new_req(corr)
            if conn.kind == "raw":
                conn.peer = live.RawPeer(self.S.address(), timeout=HANG)
                conn.local = conn.peer.local
                payload = live.raw_dumps(ser, {"handshake": hs, "object": "t"})
                conn.peer.send(wire.ref_encode(wire.CONNECT, wire.F_CORR_ID if corr else 0, seq_for(tok), live.SER_IDS[ser], payload,
                                               [(k.encode(), v) for k, v in anns], corr))
                m = self.read(conn, "CONNECT")
                carrier = "connectok" if m["type"] == wire.CONNECTOK else "connectfail"
                self.observe(carrier, conn, "handshake of client %d" % conn.idx, [], m["annotations"], req, m)
                if m["type"] == wire.CONNECTOK:
                    conn.hs = hs
                    conn.open = True
                    return
                conn.peer.close()
                reason = live.reply_value(m)
                if "no free workers" not in str(reason):
                    raise HarnessError("C12: handshake refused: %r" % (reason,))
                live.wait_for(lambda: False, 0.02 * (attempt + 1))      # denied because a worker is not back yet: try again
            else:
                cc = Pyro5.callcontext.current_context
                p = live.proxy(self.S.uri("t"), serializer=ser)
                p._pyroHandshake = hs
                p._pyroMaxRetries = 0
                before = {k: bytes(v) for k, v in cc.response_annotations.items()}
                cc.annotations = dict(anns)
                cc.correlation_id = uuid.UUID(bytes=corr) if corr else None
                try:
                    p._pyroBind()
                except Exception as x:      # noqa
                    if "no free workers" in str(x):
                        live.wait_for(lambda: False, 0.02 * (attempt + 1))
                        continue
                    raise HarnessError("C12: proxy could not connect: %r" % (x,))
                finally:
                    cc.annotations = {}
                    cc.correlation_id = None
                after = {k: bytes(v) for k, v in cc.response_annotations.items()}
                new = [(k, v) for k, v in sorted(after.items()) if before.get(k) != v]
                self.observe("connectok", conn, "handshake of proxy client %d (annotations that appeared in the client context)" % conn.idx, [], new)
                conn.proxy = p
                conn.local = p._pyroLocalSocket
                conn.hs = hs
                conn.open = True
                return
        raise HarnessError("C12: connection denied 400 times")

    def disconnect(self, conn, wait=True):
        if not conn.open:
            return
        conn.open = False
        if conn.kind == "raw":
            conn.peer.close()
        else:
            conn.proxy._pyroClaimOwnership()
            conn.proxy._pyroRelease()
        if wait:
            self.pool_quiet(self.nopen())

    def ensure(self, i, step=None):
        conn = self.conns[i]
        self.clock += 1
        conn.last_used = self.clock
        if conn.open:
            return conn
        if self.cfg[0] == "thread":
            while self.nopen() >= self.cfg[1]:
                victim = min((c for c in self.all_conns if c.open), key=lambda c: c.last_used)
                self.disconnect(victim)
        step = step or {}
        self.connect(conn, step.get("reqann", 0), bool(step.get("corr")), SERS[step.get("ser", 0) % 4])
        return conn

    # ---- requests through a raw peer
    def raw_request(self, conn, payload_ser, payload, flags, tok0, nreq_ann, with_corr, allowed, what, reply=True, msgtype=wire.INVOKE):
        from vlib import live
        anns = reqann_for(tok0, nreq_ann)
        corr = corr_for(tok0) if with_corr else None
        flags = flags | junk_flags(tok0) | (wire.F_CORR_ID if corr else 0)
        seq = seq_for(tok0)
        ser_id = live.SER_IDS[payload_ser] if isinstance(payload_ser, str) else payload_ser
        req = self.new_req(corr)
        sent = {"ann": dict(anns), "corr": corr, "seq": seq, "flags": flags, "ser": ser_id, "req": req}
        data = wire.ref_encode(msgtype, flags, seq, ser_id, payload, [(k.encode(), v) for k, v in anns], corr)
        return sent, data

    def finish_request(self, conn, sent, data, allowed, what, reply=True):
        conn.peer.send(data)
        if not reply:
            return None
        m = self.read(conn, what)
        if m["type"] == wire.PING:
            carrier = "ping"
        elif m["type"] == wire.RESULT:
            carrier = "error" if m["flags"] & wire.F_EXCEPTION else "result"
        else:
            raise HarnessError("C12: unexpected message type %d answering %s" % (m["type"], what))
        self.observe(carrier, conn, what, allowed, m["annotations"], sent["req"], m)
        return m

    def step_call(self, conn, st_, gate=None, idx=0):
        """single call ret / rai / ow"""
        from vlib import live
        kind, mode = st_["kind"], st_["ann"]
        tok = next(_tokens)
        what = "%s(token %d, %s) by client %d [step %s]" % (kind, tok, mode, conn.idx, idx)
        ser = SERS[st_.get("ser", 0) % 4]
        oneway = kind == "ow"
        if st_.get("reqmut"):
            REQMUT.add(tok)
        owmode = st_.get("owmode", "await") if oneway else None
        if oneway:
            with LOCK:
                EVENTS[tok] = threading.Event()
                if owmode in ("defer1", "deferend", "definto"):
                    DEFER.add(tok)
                    HELD_EVT[tok] = threading.Event()
        args = (tok, mode) if gate is None else (tok, mode, gate)
        self.hand_over(tok)
        if conn.kind == "raw":
            payload = live.call_payload(ser, "t", kind, args, {})
            sent, data = self.raw_request(conn, ser, payload, wire.F_ONEWAY if oneway else 0, tok, st_.get("reqann", 0), bool(st_.get("corr")), [tok], what)
            self.expect(tok, conn, sent["ann"], sent["corr"], sent["seq"], sent["flags"], sent["ser"], "oneway" if oneway else "call", sent["req"], what)
            self.finish_request(conn, sent, data, [tok], what, reply=not oneway)
        else:
            self.proxy_request(conn, kind, args, [tok], [tok], st_, what, oneway=oneway, batch=False)
        if oneway:
            if owmode == "await":
                _await_body(tok)
            elif owmode == "defer1":
                self.pending_defer.append((idx + 1, tok))
            elif owmode == "deferend":
                self.pending_defer.append((None, tok))
            elif owmode == "definto":
                self.pending_defer.append((None, tok))
                self.pending_into.append(tok)
        return tok

    def step_gone(self, conn, st_, idx=0):
        """a call whose client resets the connection while the server is still decoding the request: the method runs for a peer that
        is gone.  Its context must still be that of ITS request; the peer address may be unknown (None), never somebody else's."""
        from vlib import live
        if conn.kind != "raw":
            return self.step_call(conn, st_, idx=idx)
        kind, mode = st_["kind"], st_["ann"]
        tok = next(_tokens)
        what = "%s(token %d, %s) by client %d whose connection is reset while the request is decoded [step %s]" % (kind, tok, mode, conn.idx, idx)
        ser = SERS[st_.get("ser", 0) % 4]
        with LOCK:
            EVENTS[tok] = threading.Event()
            GONE_IN[tok] = threading.Event()
            GONE_GO[tok] = threading.Event()
        self.hand_over(tok)
        payload = live.call_payload(ser, "t", kind, (tok, mode, None, {"__class__": GONE_CLASS, "token": tok}), {})
        sent, data = self.raw_request(conn, ser, payload, wire.F_ONEWAY if kind == "ow" else 0, tok, st_.get("reqann", 0), bool(st_.get("corr")), [tok], what)
        self.expect(tok, conn, sent["ann"], sent["corr"], sent["seq"], sent["flags"], sent["ser"], "peer-gone", sent["req"], what)
        self.exp[tok]["addr_unknown_ok"] = True
        sconn = None
        with self.S.daemon.v_lock:
            for c_, data_ in self.S.daemon.v_validated:
                if data_ == conn.hs:
                    sconn = c_
        try:
            conn.peer.send(data)
            if not GONE_IN[tok].wait(HANG):
                raise HarnessError("C12: the server never started to decode %s" % what)
            conn.peer.abort()
            conn.open = False
            if sconn is not None:
                def peer_known():
                    try:
                        sconn.sock.getpeername()
                        return False
                    except OSError:
                        return True
                live.wait_for(peer_known, 2.0)      # the reset has reached the server's socket (stimulus only, no verdict)
        finally:
            GONE_GO[tok].set()
        if not _await_body(tok, 5.0):
            # the request was decoded completely; normal latency from here to the method body is far below a millisecond.
            # (reported at once instead of waiting HANG seconds in every such case; evaluate() would say the same)
            self.viol("call-not-run:peer-gone", "%s never ran (no snapshot for token %d within 5 s after the request had been decoded)" % (what, tok))
        self.pool_quiet(self.nopen())
        return tok

    def step_stream(self, conn, st_, idx=0):
        """a method that returns a generator; each item is fetched by a request of its own (to the daemon's own object), and between the
        fetches the server serves somebody else: inside the generator's body the context is that of the request that fetches the item"""
        from vlib import live
        if conn.kind != "raw":
            return self.step_call(conn, dict(st_, kind="ret"), idx=idx)
        mode = st_["ann"]
        tok, items = next(_tokens), [next(_tokens), next(_tokens)]
        ser = SERS[st_.get("ser", 0) % 4]
        what = "gen(token %d, %s) by client %d [step %s]" % (tok, mode, conn.idx, idx)
        self.hand_over(tok)
        payload = live.call_payload(ser, "t", "gen", (tok, mode, items), {})
        sent, data = self.raw_request(conn, ser, payload, 0, tok, st_.get("reqann", 0), bool(st_.get("corr")), [tok], what)
        self.expect(tok, conn, sent["ann"], sent["corr"], sent["seq"], sent["flags"], sent["ser"], "call", sent["req"], what)
        conn.peer.send(data)
        m = self.read(conn, what)
        strm = [bytes(v) for k, v in m["annotations"] if k == "STRM"]
        self.observe("result", conn, what, [tok], [(k, v) for k, v in m["annotations"] if k != "STRM"], sent["req"], m)
        if m["type"] != wire.RESULT or not strm:
            raise HarnessError("C12: %s did not open an item stream: type %d flags %x" % (what, m["type"], m["flags"]))
        sid = strm[0].decode()
        for k, it in enumerate(items):
            if len(self.conns) > 1:
                # somebody else is served in between (on the multiplex server: by the same thread)
                oc = self.conns[(conn.idx + 1) % len(self.conns)]
                if oc.open or self.cfg[0] != "thread" or self.nopen() < self.cfg[1]:      # (never at the price of this connection: a full pool stays as it is)
                    other = self.ensure((conn.idx + 1) % len(self.conns), st_)
                    self.step_call(other, {"kind": "ret", "ann": "none", "ser": st_.get("ser", 0), "reqann": 1, "corr": 1}, idx="%s, between the items" % idx)
            if not conn.open:
                break
            whatk = "item %d (token %d) of the stream of gen(token %d), fetched by client %d [step %s]" % (k, it, tok, conn.idx, idx)
            payloadk = live.call_payload(ser, "Pyro.Daemon", "get_next_stream_item", (sid,), {})
            sentk, datak = self.raw_request(conn, ser, payloadk, 0, it, st_.get("reqann", 0), bool(st_.get("corr")), [it], whatk)
            self.expect(it, conn, sentk["ann"], sentk["corr"], sentk["seq"], sentk["flags"], sentk["ser"], "call", sentk["req"], whatk)
            self.finish_request(conn, sentk, datak, [it], whatk)
        return tok

    def step_nested(self, conn, st_, idx=0):
        """a call whose method sets annotations and then calls another daemon through a Proxy of its own"""
        from vlib import live
        mode = st_["ann"]
        ikind, imode = st_["inner"]["kind"], st_["inner"]["ann"]
        tok, itok = next(_tokens), next(_tokens)
        what = "nest(token %d, %s -> inner %s(token %d, %s)) by client %d [step %s]" % (tok, mode, ikind, itok, imode, conn.idx, idx)
        ser = SERS[st_.get("ser", 0) % 4]
        args = (tok, mode, ikind, itok, imode)
        self.hand_over(tok)
        if conn.kind == "raw":
            payload = live.call_payload(ser, "t", "nest", args, {})
            sent, data = self.raw_request(conn, ser, payload, 0, tok, st_.get("reqann", 0), bool(st_.get("corr")), [tok], what)
            self.expect(tok, conn, sent["ann"], sent["corr"], sent["seq"], sent["flags"], sent["ser"], "call", sent["req"], what, inner=itok)
            self.finish_request(conn, sent, data, [tok], what)
        else:
            self.proxy_request(conn, "nest", args, [tok], [tok], st_, what, oneway=False, batch=False, inner=itok)

    def step_batch(self, conn, st_, gate=None, idx=0):
        from vlib import live
        members = st_["members"]
        oneway = bool(st_.get("oneway"))
        toks = [next(_tokens) for _ in members]
        ser = SERS[st_.get("ser", 0) % 4]
        what = "batch%s of %s by client %d [step %s] tokens %r" % (" (oneway)" if oneway else "", [(m["kind"], m["ann"]) for m in members], conn.idx, idx, toks)
        calls = []
        runs = True
        must = []
        for j, (m, t) in enumerate(zip(members, toks)):
            a = [t, m["ann"]] + ([gate] if (gate is not None and j == 0) else [])
            calls.append((m["kind"], a, {}))
            must.append(runs)
            if m["kind"] == "rai":
                runs = False        # the batch stops at the first failing member
        flags = wire.F_BATCH | (wire.F_ONEWAY if oneway else 0)
        self.hand_over(toks[0])
        if conn.kind == "raw":
            if ser == "json":
                payload = live.raw_dumps(ser, {"object": "t", "method": "<batch>", "params": [[n, a, k] for n, a, k in calls], "kwargs": {}})
            else:
                payload = live.raw_dumps(ser, ("t", "<batch>", [(n, tuple(a), k) for n, a, k in calls], {}))
            sent, data = self.raw_request(conn, ser, payload, flags, toks[0], st_.get("reqann", 0), bool(st_.get("corr")), toks, what)
            for t, mr in zip(toks, must):
                self.expect(t, conn, sent["ann"], sent["corr"], sent["seq"], sent["flags"], sent["ser"], "batch", sent["req"], what, must_run=mr)
            self.finish_request(conn, sent, data, toks, what, reply=not oneway)
        else:
            self.proxy_request(conn, "<batch>", [(n, tuple(a), k) for n, a, k in calls], toks, toks, st_, what, oneway=oneway, batch=True, must=must)
        return toks

    def step_ping(self, conn, st_, idx=0):
        tok = next(_tokens)
        what = "ping by client %d [step %s]" % (conn.idx, idx)
        if conn.kind != "raw":
            return self.step_call(conn, dict(st_, kind="ret", ann="none"), idx=idx)
        sent, data = self.raw_request(conn, 42, b"ping", 0, tok, st_.get("reqann", 0), bool(st_.get("corr")), [], what, msgtype=wire.PING)
        self.finish_request(conn, sent, data, [], what)

    def step_bad(self, conn, st_, idx=0):
        from vlib import live
        why = st_.get("why", "object")
        if conn.kind != "raw":
            return self.step_call(conn, dict(st_, kind="ret", ann="none"), idx=idx)
        tok = next(_tokens)
        what = "malformed call (%s) by client %d [step %s]" % (why, conn.idx, idx)
        ser = SERS[st_.get("ser", 0) % 4]
        if why == "object":
            payload = live.call_payload(ser, "nope", "ret", (tok, "assign"), {})
        elif why == "method":
            payload = live.call_payload(ser, "t", "nosuchmethod", (tok, "assign"), {})
        else:
            ser = "json"
            payload = b"{this is not json"
        sent, data = self.raw_request(conn, ser, payload, 0, tok, st_.get("reqann", 0), bool(st_.get("corr")), [], what)
        self.finish_request(conn, sent, data, [], what)

    # ---- requests through the real Proxy
    def proxy_request(self, conn, method, args, toks, allowed, st_, what, oneway, batch, must=None, inner=None):
        import Pyro5.callcontext
        from vlib import live
        cc = Pyro5.callcontext.current_context
        p = conn.proxy
        p._pyroClaimOwnership()
        ser = SERS[st_.get("ser", 0) % 4]
        p._pyroSerializer = ser
        raw = bool(st_.get("rawresp", 1))
        p._pyroRawWireResponse = raw
        anns = reqann_for(toks[0], st_.get("reqann", 0))
        corr = corr_for(toks[0]) if st_.get("corr") else None
        req = self.new_req(corr)
        flags = (wire.F_ONEWAY if oneway else 0) | (wire.F_BATCH if batch else 0) | (wire.F_CORR_ID if corr else 0)
        must = must or [True] * len(toks)
        cc.annotations = dict(anns)
        cc.correlation_id = uuid.UUID(bytes=corr) if corr else None
        res = None
        try:
            # the expectation needs the sequence number the proxy is going to use
            seq = (p._pyroSeq + 1) & 0xffff
            for t, mr in zip(toks, must):
                self.expect(t, conn, dict(anns), corr, seq, flags, live.SER_IDS[ser], "batch" if batch else ("oneway" if oneway else "call"), req, what, must_run=mr, inner=inner)
            try:
                if batch:
                    res = p._pyroInvokeBatch(list(args), oneway)
                else:
                    res = p._pyroInvoke(method, tuple(args), {})
            except ValueError:
                pass            # the remote ValueError of rai() in non-raw mode
            except Exception as x:      # noqa
                raise HarnessError("C12: proxy call failed (%s): %r" % (what, x))
        finally:
            cc.annotations = {}
            cc.correlation_id = None
        after = [(k, bytes(v)) for k, v in sorted(cc.response_annotations.items())]
        if raw and not oneway and res is not None and hasattr(res, "annotations"):
            onwire = [(k, bytes(v)) for k, v in sorted(res.annotations.items())]
            carrier = "error" if res.flags & wire.F_EXCEPTION else "result"
            self.observe(carrier, conn, what + " (reply as parsed by the proxy)", allowed, onwire)
            if after != onwire:
                self.viol("client-side-annotations", "after %s the client context holds %r but the reply carried %r" % (what, after, onwire))
        elif oneway:
            if after:
                self.viol("client-side-annotations", "after the oneway %s (no reply) the client context holds %r" % (what, after))
        else:
            # reply not visible: what the client context holds must at least be tags of this very call
            self.observe("client-ctx", conn, what + " (client context after the call)", allowed, after)

    # ---- deferred oneway threads
    def hand_over(self, tok):
        """the body of call `tok` starts the oneway threads that wait for 'the next method body'"""
        if self.pending_into:
            for ow in self.pending_into:
                # the oneway request must have been served (its thread parked) before a body that waits for it may start:
                # requests of different connections are not ordered, and the multiplex server has only one thread
                ev = HELD_EVT.get(ow)
                if ev is not None and not self._parked_or_served(ow, ev):
                    raise HarnessError("C12: oneway request was not served")
            with LOCK:
                RELEASE_IN[tok] = list(self.pending_into)
            self.pending_into = []

    def _parked_or_served(self, tok, ev):
        """the oneway request has been taken up: its thread is parked - or, when no thread of its own shows up within 2 s (a daemon may
        well run it on a thread it has already, e.g. one the harness is holding back), every parked thread is started (a legal
        schedule) and the call's body must then run"""
        if ev.wait(2.0):
            return True
        with LOCK:
            parked = list(HELD)
        for t in parked:
            _start_held(t)
        e2 = EVENTS.get(tok)
        return ev.wait(0.01) or (e2 is not None and e2.wait(HANG))

    def release(self, tok):
        ev = HELD_EVT.get(tok)
        if ev is not None and not self._parked_or_served(tok, ev):
            raise HarnessError("C12: oneway request was not served")      # (inconclusive, never a verdict)
        _start_held(tok)

    def release_due(self, idx):
        keep = []
        for at, tok in self.pending_defer:
            if at is not None and at <= idx:
                self.release(tok)
            else:
                keep.append((at, tok))
        self.pending_defer = keep

    def release_all(self):
        for _at, tok in self.pending_defer:
            self.release(tok)
        self.pending_defer = []

    # ---- epilogue: fresh connections on every worker must see nothing of the history
    def epilogue(self):
        for c in self.all_conns:
            self.disconnect(c, wait=False)
        self.pool_quiet(0)
        n = self.cfg[1] if self.cfg[0] == "thread" else 1
        probes = []
        for k in range(n):
            c = _Conn("raw", -1 - k)
            self.all_conns.append(c)
            self.connect(c)
            probes.append(c)
        for c in probes:
            self.step_ping(c, {}, idx="probe")
            self.step_call(c, {"kind": "ret", "ann": "none", "ser": 0}, idx="probe")
        for c in probes:
            self.disconnect(c, wait=False)
        self.pool_quiet(0)

    def finish(self):
        """after the last step: let every oneway thread finish, then nothing of the case is running any more"""
        self.release_all()
        with LOCK:
            ts = list(OW_THREADS)
        for t in ts:
            if t.ident is None and not t.is_alive():
                # created but never started (held and not released cannot happen here; a thread whose start failed)
                continue
            t.join(HANG * 2)
            if t.is_alive():
                raise HarnessError("C12: oneway thread did not finish")

    def cleanup(self):
        # never leave anything behind, whatever happened
        with LOCK:
            held = list(HELD.values())
            HELD.clear()
            DEFER.clear()
        for t in held:
            try:
                threading.Thread.start(t)
            except RuntimeError:
                pass
        for c in self.all_conns:
            try:
                self.disconnect(c, wait=False)
            except Exception:       # noqa
                pass
        with LOCK:
            ts = list(OW_THREADS)
        for t in ts:
            if t.is_alive():
                t.join(5)
        for g in list(GATES.values()):
            try:
                g.abort()
            except Exception:       # noqa
                pass

    # ---- oracle
    def evaluate(self):
        # LEAK
        for o in self.obs:
            for k, v in o["got"]:
                if k not in o["allowed"]:
                    owner = self.tag_owner.get(k, "a call of an earlier case or an unknown source")
                    if self.inner_of.get(k) in o["tokens"]:
                        # the reply of the call that made the nested call forwards what the nested call's reply carried
                        sig = "response-annotation-leak:nested-call-reply-forwarded"
                    elif o["carrier"] in ("connectok", "connectfail"):
                        sig = "response-annotation-leak:handshake-answer"
                    elif o["carrier"] == "client-ctx":
                        sig = "client-side-annotations"
                    else:
                        sig = "response-annotation-leak:reply"
                    self.viol(sig, "the %s answering %s carries annotation %s=%r which was set by %s" % (o["carrier"], o["what"], k, v[:40], owner))
                elif o["allowed"][k] != v:
                    self.viol("response-annotation-value", "the %s answering %s carries %s=%r, the call set %r" % (o["carrier"], o["what"], k, v[:40], o["allowed"][k]))
        # CONTEXT
        with self.S.daemon.v_lock:
            validated = list(self.S.daemon.v_validated)
        by_hs = {}
        for sconn, data in validated:
            if isinstance(data, str):
                by_hs[data] = sconn
        with LOCK:
            log = {t: list(s) for t, s in LOG.items()}
        snap_corr = {}      # req -> set of correlation ids seen by its methods
        for tok, e in self.exp.items():
            for s in log.get(tok, []):
                if s["corr"] is not None and e["check"]:
                    snap_corr.setdefault(e["req"], set()).add(s["corr"])
        for tok in sorted(self.exp):
            e = self.exp[tok]
            snaps = log.get(tok, [])
            where = e["where"]
            if not snaps:
                if e["must_run"]:
                    self.viol("call-not-run:" + where, "%s never ran (no snapshot for token %d)" % (e["desc"], tok))
                continue
            if not e["must_run"] or not e["check"]:
                continue        # (a batch member behind a failing one ran: C11's business)
            for s in snaps:
                bad = None
                want_conn = by_hs.get(e["hs"])
                if want_conn is None:
                    raise HarnessError("C12: server side connection for handshake %r not found" % (e["hs"],))
                if s["client"] is not want_conn:
                    bad = ("client", "connection %r" % (s["client"],), "the connection with handshake %s" % e["hs"])
                elif s["addr"] is None and e.get("addr_unknown_ok"):
                    pass        # the peer had reset the connection before the server asked for its address
                elif s["addr"] is None or tuple(s["addr"]) != tuple(e["local"]):
                    bad = ("client_sock_addr", s["addr"], e["local"])
                elif s["ann"] != e["ann"]:
                    bad = ("annotations", s["ann"], e["ann"])
                elif e["corr"] is not None and s["corr"] != e["corr"]:
                    bad = ("correlation_id", s["corr"], e["corr"])
                elif s["seq"] != e["seq"]:
                    bad = ("seq", s["seq"], e["seq"])
                elif (s["flags"] & ~wire.F_COMPRESSED) != (e["flags"] & ~wire.F_COMPRESSED):
                    bad = ("msg_flags", s["flags"], e["flags"])
                elif s["ser"] != e["ser"]:
                    bad = ("serializer_id", s["ser"], e["ser"])
                elif e["corr"] is None and s["corr"] is not None:
                    for r, ids in self.req_ids.items():
                        if r != e["req"] and s["corr"] in ids:
                            bad = ("correlation_id", s["corr"], "a fresh id (this one belongs to request #%d of the case)" % r)
                            break
                    else:
                        for r, ids in snap_corr.items():
                            if r != e["req"] and s["corr"] in ids:
                                bad = ("correlation_id", s["corr"], "a fresh id (the methods of request #%d saw the same one)" % r)
                                break
                if bad:
                    self.viol("context:%s:%s" % (bad[0], where),
                              "inside %s (thread %s) current_context.%s was %r, the request being served has %r" % (e["desc"], s["thread"], bad[0], bad[1], bad[2]))
                    break
        return self.V


def _reset_case_state(S):
    with LOCK:
        LOG.clear()
        EVENTS.clear()
        GATES.clear()
        DEFER.clear()
        HELD.clear()
        HELD_EVT.clear()
        RELEASE_IN.clear()
        GONE_IN.clear()
        GONE_GO.clear()
        del OW_THREADS[:]
    with S.daemon.v_lock:
        del S.daemon.v_validated[:]
        del S.daemon.v_disconnects[:]
    try:
        S.daemon.streaming_responses.clear()        # (item streams the case left unfinished)
    except Exception:       # noqa
        pass


def _run_seq(r, case):
    n = max(1, min(3, int(case.get("nclients", 2))))
    pidx = case.get("proxy", -1)
    r.conns = [_Conn("proxy" if i == pidx else "raw", i) for i in range(n)]
    r.all_conns = list(r.conns)
    for idx, st_ in enumerate(case["steps"][:15]):
        r.release_due(idx)
        op = st_["op"]
        i = int(st_.get("c", 0)) % n
        if op == "disconnect":
            r.disconnect(r.conns[i])
            continue
        if op == "reconnect":
            r.disconnect(r.conns[i])
            r.ensure(i, st_)
            continue
        conn = r.ensure(i, st_)
        if op == "call":
            r.step_call(conn, st_, idx=idx)
        elif op == "batch":
            r.step_batch(conn, st_, idx=idx)
        elif op == "nested":
            r.step_nested(conn, st_, idx=idx)
        elif op == "stream":
            r.step_stream(conn, st_, idx=idx)
        elif op == "ping":
            r.step_ping(conn, st_, idx=idx)
        elif op == "bad":
            r.step_bad(conn, st_, idx=idx)
        elif op == "gone":
            r.step_gone(conn, st_, idx=idx)
        else:
            raise HarnessError("C12: unknown op %r" % (op,))
    r.release_all()
    r.epilogue()
    r.finish()


def _run_conc(r, case):
    n = max(2, min(3, int(case.get("nclients", 2))))
    kinds = case.get("kinds") or ["raw"] * n
    r.conns = [_Conn(kinds[i % len(kinds)], i) for i in range(n)]
    r.all_conns = list(r.conns)
    if r.cfg[0] != "thread" or r.cfg[1] < n:
        raise HarnessError("C12: concurrent cases need the thread server with a pool >= number of clients")
    cid = next(_serial)
    for ridx, rnd in enumerate(case["rounds"][:6]):
        for i in rnd.get("reconnect", []):
            r.disconnect(r.conns[i % n])
        for i in range(n):
            if not r.conns[i].open:
                r.ensure(i)
        calls = [(i, c) for i, c in enumerate(rnd["calls"][:n]) if c]
        if not calls:
            continue
        gate = None
        if rnd.get("gate") and len(calls) > 1:
            gate = "g%d.%d" % (cid, ridx)
            GATES[gate] = threading.Barrier(len(calls), timeout=20)
        errs = []

        def work(i, c):
            try:
                conn = r.conns[i]
                if c["op"] == "batch":
                    r.step_batch(conn, c, gate=gate, idx="round %d" % ridx)
                else:
                    r.step_call(conn, dict(c, owmode="free"), gate=gate, idx="round %d" % ridx)
            except BaseException as x:      # noqa
                errs.append(x)
        ts = [threading.Thread(target=work, args=ic, name="c12-client-%d" % ic[0], daemon=True) for ic in calls]
        for t in ts:
            t.start()
        for t in ts:
            t.join(HANG * 3)
            if t.is_alive():
                raise HarnessError("C12: a harness client thread hangs")
        if errs:
            if isinstance(errs[0], HarnessError):
                raise errs[0]
            raise HarnessError("C12: client thread failed: %r" % (errs[0],))
    r.epilogue()
    r.finish()


def run_case(case, keep=False):
    L = _setup(_cfg(case))
    S = L["served"]
    _reset_case_state(S)
    r = _Run(L, case)
    # the daemon's own annotations() hook: nothing, or a dict the application keeps around (the SAME object every time) whose one
    # entry legitimately rides on every answer; what a method sets must still go out with its own reply only
    persistent = {DAEMON_TAG: DAEMON_VAL}
    S.daemon.v_annotations = (lambda: persistent) if case.get("daemon_ann") else None
    r.daemon_ann = bool(case.get("daemon_ann"))
    try:
        try:
            if case.get("kind") == "conc":
                _run_conc(r, case)
            else:
                _run_seq(r, case)
        finally:
            r.cleanup()
            S.daemon.v_annotations = None
        V = r.evaluate()
        if not S.loop_alive():
            V.append(Violation("C12:loop-died", "request loop terminated"))
    finally:
        if not keep:
            _teardown()
    return V


# ------------------------------------------------------------------------------------------------
# generation: one integer per step (mixed radix), decoded into a readable step dict
# ------------------------------------------------------------------------------------------------
OPS = ["call:ret", "call:rai", "call:ow", "batch", "ping", "reconnect", "call:rai", "call:ow", "bad", "disconnect", "ping", "call:ret", "nested", "batch", "gone:ret", "gone:ow", "stream", "stream"]
ANN = ["none", "assign", "mutate", "assign", "mutate"]
OWMODES = ["await", "free", "defer1", "deferend", "definto", "definto"]
WHY = ["object", "method", "payload"]
MEMBER = [("ret", "none"), ("ret", "assign"), ("ret", "mutate"), ("rai", "none"), ("rai", "assign"), ("rai", "mutate")]
RADIX = [len(OPS), 3, len(ANN), 3, 2, 4, len(OWMODES), 3, 6, 6, 6, 2, 2, 3, 3]
STEP_SPACE = 1
for _r in RADIX:
    STEP_SPACE *= _r


def decode_step(x):
    f = []
    for r_ in RADIX:
        f.append(x % r_)
        x //= r_
    op, c, ann, reqann, corr, ser, owm, nmem, m0, m1, m2, bow, rawresp, why, reqmut = f
    name = OPS[op]
    st_ = {"op": name.split(":")[0], "c": c, "reqann": reqann, "corr": corr, "ser": ser}
    if reqmut == 0 and name.startswith("call:"):
        st_["reqmut"] = 1       # the method writes into the annotations dict of its own request
    if name.startswith("gone:"):
        st_["kind"] = name.split(":")[1]
        st_["ann"] = ANN[ann]
    elif name.startswith("call:"):
        st_["kind"] = name.split(":")[1]
        st_["ann"] = ANN[ann]
        if st_["kind"] == "ow":
            st_["owmode"] = OWMODES[owm]
        st_["rawresp"] = rawresp
    elif name == "batch":
        st_["members"] = [{"kind": MEMBER[m][0], "ann": MEMBER[m][1]} for m in (m0, m1, m2)[:nmem + 1]]
        st_["oneway"] = bow
        st_["rawresp"] = rawresp
    elif name == "bad":
        st_["why"] = WHY[why]
    elif name == "stream":
        st_["ann"] = ANN[ann]
    elif name == "nested":
        st_["ann"] = ANN[ann]
        st_["inner"] = {"kind": MEMBER[m0][0], "ann": MEMBER[m0][1]}
        st_["rawresp"] = rawresp
    return st_


def seq_cases(cfg):
    servertype, pool, mn = cfg

    def build(t):
        head, steps = t
        return {"kind": "seq", "servertype": servertype, "pool": pool, "min": mn, "nclients": 2 + head % 2, "proxy": (head // 2) % 4 - 1 if (head // 2) % 4 < 3 else -1,
                "daemon_ann": (head >> 3) & 1, "steps": [decode_step(x) for x in steps]}
    return st.tuples(st.integers(0, 15), st.lists(st.integers(0, STEP_SPACE - 1), min_size=2, max_size=15)).map(build)


CRADIX = [6, len(ANN), 3, 2, 4, 6, 6, 2, 2]
CALL_SPACE = 1
for _r in CRADIX:
    CALL_SPACE *= _r


def decode_conc_call(x):
    f = []
    for r_ in CRADIX:
        f.append(x % r_)
        x //= r_
    op, ann, reqann, corr, ser, m0, m1, two, rawresp = f
    if op == 5:
        return None
    if op == 4:
        return {"op": "batch", "members": [{"kind": MEMBER[m][0], "ann": MEMBER[m][1]} for m in (m0, m1)[:1 + two]], "oneway": 0, "reqann": reqann, "corr": corr, "ser": ser, "rawresp": rawresp}
    return {"op": "call", "kind": ["ret", "rai", "ow", "ret"][op], "ann": ANN[ann], "reqann": reqann, "corr": corr, "ser": ser, "rawresp": rawresp}


def conc_cases(cfg):
    servertype, pool, mn = cfg

    def build(t):
        head, rounds = t
        n = 2 + head % 2 if pool >= 3 else 2
        kinds = ["proxy" if (head >> (1 + i)) & 1 and (head >> 5) & 1 else "raw" for i in range(n)]
        out = []
        for g, calls in rounds:
            out.append({"gate": 1 if g % 4 else 0, "reconnect": [i for i in range(n) if (g >> (2 + i)) & 1 and (g >> 6) & 1],
                        "calls": [decode_conc_call(x) for x in calls[:n]]})
        return {"kind": "conc", "servertype": servertype, "pool": pool, "min": mn, "nclients": n, "kinds": kinds, "rounds": out, "daemon_ann": (head >> 4) & 1}
    rnd = st.tuples(st.integers(0, 127), st.lists(st.integers(0, CALL_SPACE - 1), min_size=3, max_size=3))
    return st.tuples(st.integers(0, 63), st.lists(rnd, min_size=1, max_size=6)).map(build)


# ------------------------------------------------------------------------------------------------
# classification
# ------------------------------------------------------------------------------------------------

def _annotating_trigger(st_):
    """does this step leave annotations behind that no reply of its own consumes (raise / oneway)?"""
    if st_["op"] == "call":
        return st_["ann"] != "none" and st_["kind"] in ("rai", "ow")
    if st_["op"] == "gone":
        return st_["ann"] != "none"       # whatever it sets can never be delivered to its own (vanished) client
    if st_["op"] == "batch":
        ms = st_["members"]
        ran = []
        for m in ms:
            ran.append(m)
            if m["kind"] == "rai":
                break
        return bool(st_.get("oneway")) and any(m["ann"] != "none" for m in ran)
    return False


def _answers(st_):
    return st_["op"] in ("ping", "bad", "reconnect", "nested", "stream") or (st_["op"] == "call" and st_["kind"] != "ow") or (st_["op"] == "batch" and not st_.get("oneway"))


def _nontrivial(case):
    if case.get("kind") == "conc":
        for rnd in case["rounds"]:
            cs = [c for c in rnd["calls"] if c]
            if rnd.get("gate") and sum(1 for c in cs if (c["op"] == "call" and c["ann"] != "none") or (c["op"] == "batch" and any(m["ann"] != "none" for m in c["members"]))) >= 2:
                return True
        return False
    steps = case["steps"]
    for i, s in enumerate(steps):
        if _annotating_trigger(s) and any(_answers(x) for x in steps[i + 1:]):
            return True
        if s["op"] == "stream":
            return True
    return False


def _labels(case):
    l = [case.get("kind", "seq"), "server:%s" % case.get("servertype")]
    if case.get("kind") == "conc":
        if any(r.get("gate") for r in case["rounds"]):
            l.append("gated-round")
        if any(r.get("reconnect") for r in case["rounds"]):
            l.append("conc:reconnect")
        if "proxy" in (case.get("kinds") or []):
            l.append("conc:proxy-client")
        return l
    steps = case["steps"]
    n = max(1, min(3, int(case.get("nclients", 2))))
    if 0 <= case.get("proxy", -1) < n:
        l.append("proxy-client")
    for i, s in enumerate(steps):
        if _annotating_trigger(s):
            kind = "raise" if (s["op"] == "call" and s["kind"] == "rai") else ("oneway-batch" if s["op"] == "batch" else "oneway")
            for x in steps[i + 1:i + 2]:
                other = (x.get("c", 0) % n) != (s.get("c", 0) % n)
                if x["op"] == "ping":
                    l.append("annotated-%s-then-ping" % kind)
                elif x["op"] == "reconnect" or (x["op"] != "disconnect" and other and case.get("servertype") == "thread" and case.get("pool") == 1):
                    l.append("annotated-%s-then-handshake" % kind)
                elif _answers(x):
                    l.append("annotated-%s-then-reply-%s-client" % (kind, "other" if other else "same"))
        if s["op"] == "call" and s["kind"] == "ow" and s.get("owmode", "").startswith("defer"):
            l.append("oneway-start-held-back")
        if s["op"] == "batch":
            l.append("batch")
        if s.get("reqmut"):
            l.append("method-writes-into-its-request-annotations" + ("-then-request-without-annotations" if any(x.get("reqann", 0) == 0 and x["op"] in ("call", "batch", "nested") for x in steps[i + 1:]) else ""))
        if s["op"] == "bad":
            l.append("malformed-call")
        if s["op"] == "gone":
            l.append("peer-reset-while-request-is-decoded")
        if s["op"] == "stream":
            l.append("context-inside-a-generator-body")
        if s["op"] == "nested":
            l.append("nested-call" + ("-inner-annotates" if s["inner"]["ann"] != "none" and s["inner"]["kind"] == "ret" else ""))
    return sorted(set(l))


# ------------------------------------------------------------------------------------------------

def SHARDS(tier):
    mux = {"kind": "seq", "cfg": ["multiplex", 0, 0]}
    t11 = {"kind": "seq", "cfg": ["thread", 1, 1]}
    t21 = {"kind": "seq", "cfg": ["thread", 2, 1]}
    t22 = {"kind": "seq", "cfg": ["thread", 2, 2]}
    c2 = {"kind": "conc", "cfg": ["thread", 2, 1]}
    c3 = {"kind": "conc", "cfg": ["thread", 3, 3]}
    if tier == "quick":
        return [mux, mux, mux, t11, t11, t21, t21, t22, c2, c3, c3, c2]
    return [mux] * 4 + [t11] * 3 + [t21] * 2 + [t22] * 2 + [c2, c2, c3, c3, c3]


def run(ctx):
    sh = ctx.shard or {}
    cfg = tuple(sh.get("cfg", ["multiplex", 0, 0]))
    kind = sh.get("kind", "seq")
    try:
        if kind == "seq":
            ctx.search(seq_cases(cfg), lambda c: run_case(c, keep=True), ctx.n(600, 6000), nontrivial=_nontrivial, labels=_labels,
                       name="seq" + "-".join(map(str, cfg)), max_rounds=6)
        else:
            ctx.search(conc_cases(cfg), lambda c: run_case(c, keep=True), ctx.n(350, 3500), nontrivial=_nontrivial, labels=_labels,
                       name="conc" + "-".join(map(str, cfg)), max_rounds=6)
    finally:
        _teardown()
