"""C05 - no client input can stop the daemon or disturb other clients.

Scripts of hostile connections (structure-aware mutations of valid CONNECT / INVOKE / PING messages: every header field at
boundary values, length fields inconsistent with the bytes that follow, every prefix truncation, bit flips, garbage;
unknown objects/members; methods raising arbitrary, even unserialisable, Exception subclasses) are run against live
thread-pool and multiplex daemons, with and without COMMTIMEOUT, before / inside / after the handshake, always ended by a
disconnect, interleaved with calls of two long-lived witness proxies.  Oracle: witnesses always get exactly the answer
to their own call; afterwards a fresh client can connect and call; worker / selector accounting returns to baseline; the
request loop is alive.
"""
import threading

from hypothesis import strategies as st

from vlib.driver import Violation
from vlib import wire
from checks import c06_wire

PROPERTY = "C05"
LEVEL = "fault_enumeration"
RULE = ("a case = script of <= 6 steps, each a witness call or a hostile connection = optional valid handshake + up to 3 messages, "
        "each a valid CONNECT/INVOKE/PING (known/unknown object, exposed/unexposed/unknown member, or a method raising a generated "
        "Exception subclass: unserialisable attributes, raising __str__/__repr__, huge args) with up to 3 mutations {type, serializer "
        "id, flags, seq, data length, annotation length, swapped lengths, magic, version, tag, chunk length/id, truncation at any "
        "offset, extension, bit flip, compressed flag, oversize}, or pure garbage; ended by FIN or RST. Shards: server type x "
        "COMMTIMEOUT {0, 0.5}. Content part (enumerated): well-formed CONNECT / INVOKE messages in all four serializers whose handshake "
        "data, argument, object or method name holds text that some parser behind the decoder will look at (Proxy / URI class dicts with "
        "24..20000-character locations built from 8 repeat units x 11 tails, float and exception class dicts, 50..100000-fold nested "
        "lists written by hand), sent to a daemon running in a process of its own. Non-trivial: some hostile message passes the tag/version prefix check or is sent after a successful "
        "handshake; distinct = distinct case JSON")
ASSUMPTIONS = ["every hostile connection ends with a disconnect - or, in the COMMTIMEOUT shards only, stays silent after its last byte and must be dropped by "
               "the daemon's own timeout (without a timeout a silent stalled client legitimately occupies a worker)",
               "MAX_MESSAGE_SIZE is 256 KiB in the daemon process so that boundary length fields do not allocate gigabytes",
               "COMMTIMEOUT shards: an idle witness may be dropped by the server's own timeout; then only 'never a wrong answer, reconnect works' is demanded",
               "methods raise Exception subclasses only (not BaseException-only classes)",
               "content part: 'stopped' = no answer to the hostile request, or to a resident client's ping, or to a new client's handshake within 10 s "
               "(normal latency about a millisecond; the daemon runs in its own process, is killed and replaced after a stall, and the shard gives up after 3 stalls)"]

CEILING = 20.0
LOCK = threading.Lock()


class Weird(Exception):
    pass


class StrRaises(Exception):
    def __str__(self):
        raise RuntimeError("no str")


class ReprRaises(Exception):
    def __repr__(self):
        raise RuntimeError("no repr")


class ReduceRaises(Exception):
    def __reduce__(self):
        raise RuntimeError("no reduce")


def _classes():
    import Pyro5.api as api

    @api.expose
    class W(object):
        def f(self, token):
            return ["w", token, token * 2 + 1]

        def raise_it(self, kind):
            if kind == "value":
                raise ValueError("boom")
            if kind == "weird":
                raise Weird("weird", 5)
            if kind == "sock":
                import socket
                e = Weird("holding a socket")
                e.sock = socket.socket()
                e.lock = threading.Lock()
                raise e
            if kind == "lambda":
                e = KeyError("k")
                e.fn = lambda: 1
                raise e
            if kind == "str":
                raise StrRaises("x")
            if kind == "repr":
                raise ReprRaises("x")
            if kind == "reduce":
                raise ReduceRaises("x")
            if kind == "huge":
                raise ValueError("x" * 300000)
            if kind == "recursive":
                e = ValueError("r")
                e.me = e
                raise e
            if kind == "group":
                raise ExceptionGroup("g", [ValueError(1), Weird(2)])
            if kind == "unicode":
                raise UnicodeDecodeError("utf-8", b"\xff", 0, 1, "bad")
            if kind == "stop":
                raise StopIteration(5)
            if kind == "zero":
                return 1 // 0
            raise LookupError(kind)

        def annotate_and_fail(self, kind):
            # leaves a response annotation behind and fails: nobody else's reply may ever carry it
            from Pyro5.callcontext import current_context
            current_context.response_annotations = {"HOST": b"set by a hostile call"}
            return self.raise_it(kind)

        @api.callback
        def raise_cb(self, kind):
            # a method flagged @callback: the daemon re-raises what it raises on the server side as well (documented feature)
            return self.raise_it(kind)

        def gen(self):
            yield 1
            raise Weird("in generator")

        @api.oneway
        def slow(self, seconds):
            # a long-running job a client may start as often as it likes with fire-and-forget calls
            import time
            time.sleep(min(float(seconds), 2.0))
    return W


RAISE_KINDS = ["value", "weird", "sock", "lambda", "str", "repr", "reduce", "huge", "recursive", "group", "unicode", "stop", "zero", "other"]
MUTATIONS = c06_wire.MUTATIONS + ["oversize", "bad-ser", "bad-ser", "bad-type", "trailing-call", "trailing-call"]

msg_spec = st.fixed_dictionaries({
    "base": st.sampled_from(["connect", "connect", "invoke", "invoke", "invoke", "ping", "garbage", "raise", "raise", "stream", "raise_cb", "raise_ann"]),
    "ser": st.sampled_from(["marshal", "json", "serpent", "msgpack"]),
    "obj": st.sampled_from(["w", "w", "w", "nope", "Pyro.Daemon", "", 5]),
    "method": st.sampled_from(["f", "f", "raise_it", "nope", "_private", "__class__", "f.x", "gen", 7, None]),
    "raise_kind": st.sampled_from(RAISE_KINDS),
    "flags": st.sampled_from([0, 0, 0, 4, 8, 12, 16, 32, 64, 1]),
    "muts": st.lists(st.tuples(st.sampled_from(MUTATIONS), st.integers(0, 2**32 - 1), st.integers(-9, 9)).map(list), max_size=3),
    "garbage": st.binary(max_size=60),
})
hostile = st.fixed_dictionaries({
    "kind": st.just("hostile"),
    "handshake": st.booleans(),
    "msgs": st.lists(msg_spec, min_size=1, max_size=3),
    "end": st.sampled_from(["fin", "rst", "fin"]),
})
witness = st.fixed_dictionaries({"kind": st.just("witness"), "who": st.integers(0, 1)})


flood = st.fixed_dictionaries({"kind": st.just("flood"), "ser": st.sampled_from(["marshal", "json", "serpent", "msgpack"]), "end": st.sampled_from(["fin", "rst"])})


def case_strategy():
    return st.fixed_dictionaries({"steps": st.lists(st.one_of(hostile, hostile, witness), min_size=1, max_size=6)})


def build_msg(m):
    from vlib import live
    ser = m["ser"]
    if m["base"] == "garbage":
        return bytes(m["garbage"])
    if m["base"] == "connect":
        mtype, payload = wire.CONNECT, live.raw_dumps(ser, {"handshake": "hello", "object": m["obj"]})
    elif m["base"] == "ping":
        mtype, payload = wire.PING, b"ping"
    elif m["base"] in ("raise", "raise_cb", "raise_ann"):
        mtype, payload = wire.INVOKE, live.call_payload(ser, "w", {"raise": "raise_it", "raise_cb": "raise_cb", "raise_ann": "annotate_and_fail"}[m["base"]],
                                                        (m["raise_kind"],), {})
    elif m["base"] == "stream":
        mtype, payload = wire.INVOKE, live.call_payload(ser, "w", "gen", (), {})
    else:
        method = m["method"]
        mtype, payload = wire.INVOKE, live.call_payload(ser, m["obj"], method, (3,), {})
    base = {"type": mtype, "flags": m["flags"], "seq": 1, "ser": live.SER_IDS[ser], "payload": payload, "ann": [], "corr": None}
    muts = []
    for x in m["muts"]:
        if x[0] == "bad-ser":
            base["ser"] = [0, 5, 42, 99, 255][x[1] % 5]        # unknown serializer id, everything else valid
        elif x[0] == "bad-type":
            base["type"] = [0, 2, 3, 5, 7, 255][x[1] % 6]
        elif x[0] == "flip" and base["ser"] == 2 and base["type"] in (wire.CONNECT, wire.INVOKE):
            # bit-flipped bytes are never handed to marshal.loads: CPython's marshal answers some of them with a multi-gigabyte allocation
            # (one flipped type byte turns a 4-element tuple into one of two thousand million elements) or a crash - the class of the
            # open finding "marshal-self-reference", not something a search should walk into at random seeds
            continue
        elif x[0] == "trailing-call":
            # a second, complete call is glued behind the payload (inside the same message): it is nobody's request
            base["payload"] = base["payload"] + live.call_payload(ser, "w", "f", (31337 + x[1] % 5,), {})
        elif x[0] != "oversize":
            muts.append(x)
    raw = c06_wire.build_bytes({"kind": "bytes", "base": base, "muts": muts})
    if any(x[0] == "oversize" for x in m["muts"]) and len(raw) >= 16:
        raw = raw[:12] + (0x7ffffff0).to_bytes(4, "big") + raw[16:]
    return raw


_live = {}


def _setup(servertype, commtimeout, poolsize=None):
    from vlib import live
    key = (servertype, commtimeout, poolsize)
    if _live.get("key") != key:
        _teardown()
    if "served" in _live:
        return _live
    live.quiet_logs()
    threading.excepthook = lambda a: None
    cfg = dict(COMMTIMEOUT=commtimeout, MAX_MESSAGE_SIZE=256 * 1024, POLLTIMEOUT=0.2)
    if poolsize:
        cfg.update(THREADPOOL_SIZE=poolsize, THREADPOOL_SIZE_MIN=1)     # the two witnesses occupy every worker: hostile connections take the denial path
    scope = live.ConfigScope(**cfg)
    scope.__enter__()
    S = live.Served(servertype)
    S.daemon.register(_classes()(), "w")
    _live.update(key=key, served=S, scope=scope, token=0, witnesses=[None, None])
    return _live


def _teardown():
    if "served" in _live:
        for w in _live["witnesses"]:
            if w is not None:
                try:
                    w._pyroRelease()
                except Exception:
                    pass
        _live["served"].stop()
        _live["scope"].__exit__()
    _live.clear()


def run_case(case, servertype=None, commtimeout=None, keep=False, poolsize=None):
    if case.get("part") == "content":
        env = {"servertype": servertype or case.get("servertype", "thread"), "child": None}
        try:
            return run_content_case(case, env)
        finally:
            if env.get("child") is not None:
                env["child"].kill()
    return _run_case(case, servertype, commtimeout, keep, poolsize)


def _run_case(case, servertype=None, commtimeout=None, keep=False, poolsize=None):
    from vlib import live
    from Pyro5 import errors
    servertype = servertype or case.get("servertype", "thread")
    commtimeout = commtimeout if commtimeout is not None else case.get("commtimeout", 0.0)
    poolsize = poolsize or case.get("poolsize")
    L = _setup(servertype, commtimeout, poolsize)
    S = L["served"]
    V = []

    def viol(sig, what):
        V.append(Violation("C05:" + sig, ("[%s,timeout=%s] %s  case=%r" % (servertype, commtimeout, what, case))[:1000]))

    def witness_call(i, when):
        L["token"] += 1
        tok = L["token"]
        want = ["w", tok, tok * 2 + 1]
        for attempt in (0, 1):
            w = L["witnesses"][i]
            if w is None:
                # (the two resident clients use different serializers: what a hostile peer leaves behind in one decoder must not reach them)
                w = L["witnesses"][i] = live.proxy(S.uri("w"), serializer=("serpent", "msgpack")[i], timeout=CEILING)
            try:
                got = w.f(tok)
            except errors.CommunicationError as x:
                L["witnesses"][i] = None
                try:
                    w._pyroRelease()
                except Exception:
                    pass
                if commtimeout and attempt == 0:
                    continue        # the server's own idle timeout may have dropped the witness: reconnecting must work
                viol("witness-disturbed", "witness %d (%s): call failed with %r" % (i, when, x))
                return False
            except Exception as x:
                viol("witness-wrong-answer", "witness %d (%s): call raised %r" % (i, when, x))
                return False
            if list(got) != want:
                viol("witness-wrong-answer", "witness %d (%s): got %r, expected %r" % (i, when, got, want))
                return False
            import Pyro5.api
            ann = dict(Pyro5.api.current_context.response_annotations)
            if ann:
                viol("witness-reply-carries-foreign-annotation", "witness %d (%s): the reply to its call carries annotations %r that its call never set" % (i, when, ann))
                return False
            return True
        return False

    try:
        for i in (0, 1):
            if not witness_call(i, "before the script"):
                return V
        for n, step in enumerate(case["steps"]):
            if step["kind"] == "witness":
                witness_call(step["who"], "step %d" % n)
                continue
            if step["kind"] == "flood":
                if poolsize or commtimeout:
                    continue
                # one client starts as many long-running jobs with ONEWAY calls as the server has workers, and leaves: the daemon
                # goes on serving everybody else at once (fire-and-forget work is not done by the workers that serve connections)
                from Pyro5 import config as _config
                fp = live.RawPeer(S.address(), timeout=CEILING)
                try:
                    m = fp.handshake("w", step["ser"])
                    if not isinstance(m, dict) or m["type"] != wire.CONNECTOK:
                        viol("handshake-refused", "valid handshake refused during the script (step %d): %r" % (n, m))
                    else:
                        njobs = min(int(_config.THREADPOOL_SIZE), 120) if servertype == "thread" else 40
                        fp.send(b"".join(wire.ref_encode(wire.INVOKE, wire.F_ONEWAY, 10 + k, live.SER_IDS[step["ser"]], live.call_payload(step["ser"], "w", "slow", (0.7,), {}))
                                         for k in range(njobs)))
                        # (a ping on the same connection: when it is answered the daemon has taken up every request before it)
                        fp.send(wire.ref_encode(wire.PING, 0, 9, 42, b"ping"))
                        fp.read_message()
                        if step["end"] == "rst":
                            fp.abort()
                finally:
                    fp.close()
                try:
                    with live.proxy(S.uri("w"), timeout=CEILING) as p:
                        L["token"] += 1
                        t = L["token"]
                        if list(p.f(t)) != ["w", t, t * 2 + 1]:
                            viol("fresh-client-wrong-answer", "fresh client got a wrong answer")
                except Exception as x:
                    viol("fresh-client-refused:after-oneway-flood", "step %d: a client started %d long-running oneway jobs and left; a new client cannot connect/call: %r" % (n, njobs, x))
                for i in (0, 1):
                    witness_call(i, "step %d, after a flood of oneway jobs" % n)
                live.join_oneway_threads(30)
                continue
            peer = live.RawPeer(S.address(), timeout=CEILING)
            try:
                if step["handshake"]:
                    m = peer.handshake("w")
                    if poolsize:
                        pass        # every worker is taken by the witnesses: this connection is (rightly) refused
                    elif not isinstance(m, dict) or m["type"] != wire.CONNECTOK:
                        viol("handshake-refused", "valid handshake refused during the script (step %d): %r" % (n, m))
                data = b"".join(build_msg(m) for m in step["msgs"])
                peer.send(data)
                if step["end"] == "rst":
                    peer.abort()
                elif step["end"] == "stall" and commtimeout:
                    # the peer sends nothing more and does NOT hang up: with a communication timeout configured the daemon
                    # itself must drop it (on the multiplex server nobody else is served while it waits for the rest)
                    msgs, ended = peer.read_until_closed(limit=8)
                    if ended[0] == "timeout":
                        viol("stalled-client-not-dropped", "step %d: COMMTIMEOUT is %ss, but %ss after its last byte the silent peer is still connected" % (n, commtimeout, CEILING))
                    peer.close()
                else:
                    peer.half_close()
                    msgs, ended = peer.read_until_closed(limit=8)
                    if ended[0] == "timeout":
                        viol("hostile-connection-not-closed", "step %d: the daemon neither answered nor closed within %ss after the peer's FIN: %r" % (n, CEILING, ended))
                    peer.close()
            finally:
                peer.close()
            if not S.loop_alive():
                viol("loop-died", "request loop terminated after step %d (%r)" % (n, S.loop_error))
                return V
            if not commtimeout:
                open_w = sum(1 for w in L["witnesses"] if w is not None and w._pyroConnection is not None)
                if not live.wait_for(lambda: S.busy_workers() == open_w, CEILING):
                    viol("worker-stranded", "after hostile step %d: %d workers/connections busy, %d witnesses connected" % (n, S.busy_workers(), open_w))
                    return V
        for i in (0, 1):
            witness_call(i, "after the script")
        # a fresh client must still be served
        if poolsize:
            L["witnesses"][1]._pyroRelease()        # make room: the pool was full on purpose
            L["witnesses"][1] = None
            live.wait_for(lambda: S.busy_workers() <= poolsize - 1, CEILING)
        import time as _time
        t_end = _time.time() + CEILING
        while True:
            try:
                with live.proxy(S.uri("w"), timeout=CEILING) as p:
                    L["token"] += 1
                    t = L["token"]
                    if list(p.f(t)) != ["w", t, t * 2 + 1]:
                        viol("fresh-client-wrong-answer", "fresh client got a wrong answer")
                break
            except Exception as x:
                if poolsize and "no free workers" in str(x) and _time.time() < t_end:
                    # (the pool was full on purpose: when exactly the daemon has let go of the worker of the witness that just left is
                    #  its own business - only a refusal that persists is a stranded worker)
                    _time.sleep(0.05)
                    continue
                viol("fresh-client-refused", "a new client cannot connect/call after the script: %r" % (x,))
                break
        if poolsize:
            # let the server notice that the fresh client is gone before the next case reconnects its second witness
            live.wait_for(lambda: S.busy_workers() <= sum(1 for w in L["witnesses"] if w is not None and w._pyroConnection is not None), CEILING)
        if not S.loop_alive():
            viol("loop-died", "request loop terminated (%r)" % (S.loop_error,))
        if commtimeout:
            for i in (0, 1):
                if L["witnesses"][i] is not None:
                    L["witnesses"][i]._pyroRelease()
                    L["witnesses"][i] = None
            if not live.wait_for(lambda: S.busy_workers() == 0, CEILING):
                viol("worker-stranded", "after the script and with all clients gone %d workers/connections are still busy" % S.busy_workers())
    finally:
        if V:
            keep = False     # do not let a damaged daemon influence the next case
        if not keep:
            _teardown()
    return V


# ------------------------------------------------------------------------------------------------
# hostile CONTENT inside perfectly well-formed messages, against a daemon in a process of its own
# (a payload that makes a parser run "forever" keeps the interpreter lock: an in-process harness would freeze with the daemon)
# ------------------------------------------------------------------------------------------------
CONTENT_CEILING = 10.0      # normal latency: a millisecond.  A daemon that answers nobody for this long has been stopped.
UNITS = ["a", "a.", "ab-", "1", "a1.", "é", "0.", "a:"]
TAILS = ["", " ", "/", "@", ":", "\n", "]", ":x", ".", " :5", "\x00"]


def child_main(servertype):
    """entry point of the daemon process: serve until stdin is closed"""
    import sys
    from vlib import live
    live.quiet_logs()
    S = live.Served(servertype)
    S.daemon.register(_classes()(), "w")
    addr = S.address()
    sys.stdout.write("PORT %d\n" % addr[1])
    sys.stdout.flush()
    sys.stdin.read()
    S.stop()


class _Child(object):
    def __init__(self, servertype):
        import os
        import subprocess
        import sys
        from vlib.driver import ROOT
        self.proc = subprocess.Popen([sys.executable, "-c", "import sys; sys.path.insert(0, %r); from checks import c05_hostile as m; m.child_main(%r)" % (ROOT, servertype)],
                                     stdin=subprocess.PIPE, stdout=subprocess.PIPE, stderr=subprocess.DEVNULL, cwd=ROOT, env=dict(os.environ))
        line = self.proc.stdout.readline().decode()
        if not line.startswith("PORT "):
            self.kill()
            raise RuntimeError("daemon process did not start: %r" % line)
        self.address = ("127.0.0.1", int(line.split()[1]))
        self.resident = None

    def kill(self):
        try:
            self.proc.kill()
        except Exception:
            pass
        try:
            self.proc.wait(10)
        except Exception:
            pass
        for f in (self.proc.stdin, self.proc.stdout):
            try:
                f.close()
            except Exception:
                pass


def content_value(spec):
    fam, n = spec["family"], spec["n"]
    text = UNITS[spec.get("unit", 0) % len(UNITS)] * n + TAILS[spec.get("tail", 0) % len(TAILS)]
    if fam == "proxy-uri":
        return {"__class__": "Pyro5.client.Proxy", "state": ["PYRO:obj@" + text, [], [], [], "hello", None]}
    if fam == "proxy-pyroname":
        return {"__class__": "Pyro5.client.Proxy", "state": ["PYRONAME:" + text, [], [], [], "hello", None]}
    if fam == "proxy-ipv6":
        return {"__class__": "Pyro5.client.Proxy", "state": ["PYRO:obj@[" + text + "]:5", [], [], [], "hello", None]}
    if fam == "uri-state":
        return {"__class__": "Pyro5.core.URI", "state": ["PYRO", "obj", None, text, 5]}
    if fam == "float":
        return {"__class__": "float", "value": text}
    if fam == "exception-args":
        return {"__class__": "builtins.ValueError", "__exception__": True, "args": [text], "attributes": {text[:50]: text}}
    if fam == "long-text":
        return text
    raise ValueError(fam)


def _deep_payload(ser, n):
    """n nested lists, written by hand (the library encoders themselves would recurse)"""
    if ser == "json":
        return ("[" * n + "]" * n).encode()
    if ser == "serpent":
        return b"# serpent utf-8 python3.2\n" + ("[" * n + "]" * n).encode()
    if ser == "marshal":
        return b"[\x01\x00\x00\x00" * n + b"N"
    return b"\x91" * n + b"\xc0"


# marshal data may refer back to a container that is still being built: a tuple that contains itself, a set built from an incomplete tuple
MARSHAL_SELFREF = {"handshake": b"\xa9\x02" + b"<\x01\x00\x00\x00" + b"r\x00\x00\x00\x00" + b"N",
                   "whole-payload": b"\xa9\x04" + b"r\x00\x00\x00\x00" + b"\xda\x04echo" + b"[\x00\x00\x00\x00" + b"{0"}


def content_cases(ser):
    if ser == "marshal":
        for where in ("handshake", "whole-payload"):
            yield {"part": "content", "ser": ser, "where": where, "family": "marshal-self-reference", "n": 0}
    for fam in ("proxy-uri", "proxy-pyroname", "proxy-ipv6", "uri-state", "float", "exception-args", "long-text"):
        for n in (24, 30, 45, 400, 20000):
            for unit in range(len(UNITS)):
                for tail in range(len(TAILS)):
                    if fam not in ("proxy-uri", "proxy-pyroname", "uri-state") and (unit > 2 or tail > 3):
                        continue
                    if n > 45 and (unit % 3 or tail % 3):
                        continue
                    for where in ("call-arg", "handshake"):
                        yield {"part": "content", "ser": ser, "where": where, "family": fam, "n": n, "unit": unit, "tail": tail}
    for n in (50, 190, 210, 990, 1100, 5000, 100000):
        for where in ("call-arg", "handshake", "whole-payload"):
            yield {"part": "content", "ser": ser, "where": where, "family": "deep", "n": n}
    for n in (1000, 100000):
        for where in ("object-name", "method-name"):
            yield {"part": "content", "ser": ser, "where": where, "family": "long-text", "n": n, "unit": 0, "tail": 1}


def run_content_case(case, env):
    """env: {"servertype":..., "child": _Child or None}; the daemon process is replaced after a stall"""
    from vlib import live
    V = []

    def viol(sig, what):
        V.append(Violation("C05:" + sig, ("[%s, daemon in its own process] %s  case=%r" % (env["servertype"], what, case))[:900]))
    if env.get("child") is None:
        env["child"] = _Child(env["servertype"])
    ch = env["child"]
    if ch.resident is None:
        ch.resident = live.RawPeer(ch.address, timeout=CONTENT_CEILING)
        m = ch.resident.handshake("w")
        if not (isinstance(m, dict) and m["type"] == wire.CONNECTOK):
            raise RuntimeError("resident client could not connect: %r" % (m,))
    ser, where, fam = case["ser"], case["where"], case["family"]
    peer = live.RawPeer(ch.address, timeout=CONTENT_CEILING)
    stalled = None
    try:
        if fam == "deep":
            inner = _deep_payload(ser, case["n"])
        if fam == "marshal-self-reference":
            inner = MARSHAL_SELFREF[where]
            fam_deep = True
        if where == "handshake":
            if fam in ("deep", "marshal-self-reference"):
                data = inner if ser != "json" else inner      # the whole connect payload is the nested thing
            else:
                data = live.raw_dumps(ser, {"handshake": content_value(case), "object": "w"})
            peer.send(wire.ref_encode(wire.CONNECT, 0, 0, live.SER_IDS[ser], data))
        else:
            m = peer.handshake("w", ser)
            if not (isinstance(m, dict) and m["type"] == wire.CONNECTOK):
                viol("content:handshake-refused", "plain handshake before the hostile request got %r" % (m,))
                return V
            if fam in ("deep", "marshal-self-reference"):
                data = inner
            elif where == "object-name":
                data = live.call_payload(ser, content_value(case), "f", (1,), {})
            elif where == "method-name":
                data = live.call_payload(ser, "w", content_value(case), (1,), {})
            else:
                data = live.call_payload(ser, "w", "f", (content_value(case),), {})
            if len(data) > 200 * 1024:
                return V        # beyond the daemon's MAX_MESSAGE_SIZE: a different (covered) story
            peer.send(wire.ref_encode(wire.INVOKE, 0, 1, live.SER_IDS[ser], data))
        m = peer.read_message()
        if m == ("timeout",):
            stalled = "no answer (and no close) within %.0f s" % CONTENT_CEILING
        # whatever the answer was: everybody else must still be served
        if stalled is None:
            ch.resident.send(wire.ref_encode(wire.PING, 0, 7, 42, b"ping"))
            r = ch.resident.read_message()
            if not (isinstance(r, dict) and r["type"] == wire.PING):
                stalled = "the resident client's ping got %r" % (r,)
        if stalled is None:
            fresh = live.RawPeer(ch.address, timeout=CONTENT_CEILING)
            try:
                r = fresh.handshake("w")
                if not (isinstance(r, dict) and r["type"] == wire.CONNECTOK):
                    stalled = "a new client's handshake got %r" % (r,)
            finally:
                fresh.close()
        if stalled is None and ch.proc.poll() is not None:
            stalled = "the daemon process ended (exit code %r)" % ch.proc.returncode
    except (OSError, RuntimeError) as x:
        stalled = "harness could not talk to the daemon: %r" % (x,)
    finally:
        peer.close()
    if stalled is not None:
        viol("content:daemon-stalled:" + fam, "a well-formed %s message (%s) whose %s holds %s: %s" % (
            ser, "CONNECT" if where == "handshake" else "INVOKE", where, fam, stalled))
        try:
            ch.resident.close()
        except Exception:
            pass
        ch.kill()
        env["child"] = None
    return V


def _passes_prefix(m):
    raw = build_msg(m)
    return len(raw) >= 6 and raw[:6] == b"PYRO\x01\xf6"


def _nontrivial(case):
    for s in case["steps"]:
        if s["kind"] == "flood" or (s["kind"] == "hostile" and (s["handshake"] or any(_passes_prefix(m) for m in s["msgs"]))):
            return True
    return False


def _labels(case):
    l = []
    for s in case["steps"]:
        if s["kind"] == "witness":
            l.append("witness-step")
            continue
        if s["kind"] == "flood":
            l.append("flood-of-long-running-oneway-jobs")
            continue
        l.append("hostile:" + ("after-handshake" if s["handshake"] else "before-handshake"))
        l.append("end:" + s["end"])
        for m in s["msgs"]:
            l.append("base:" + m["base"])
            for mu in m["muts"]:
                l.append("mut:" + mu[0])
    return sorted(set(l))


def sweep_cases():
    """deterministic part: every base message x every single mutation (at a few values) x before/after handshake x FIN/RST"""
    vals = [0, 1, 3, 4, 255, 65535, 2**31, 2**32 - 1]
    for base in ("connect", "invoke", "ping", "raise"):
        for mut in sorted(set(MUTATIONS)) + [None]:
            for v in (vals if mut in ("type", "ser", "flags", "seq", "dlen", "alen", "truncate", "bad-ser", "bad-type", "chunklen", "flip") else vals[:2]):
                for handshake in (False, True):
                    m = {"base": base, "ser": "marshal", "obj": "w", "method": "f", "raise_kind": RAISE_KINDS[v % len(RAISE_KINDS)], "flags": 0,
                         "muts": [[mut, v, (v % 7) - 3]] if mut else [], "garbage": b""}
                    yield {"steps": [{"kind": "hostile", "handshake": handshake, "msgs": [m], "end": "fin" if v % 2 else "rst"}]}
    for base, handshake, cut in (("connect", False, 10), ("connect", False, 0), ("invoke", True, 20), ("invoke", True, 39), ("ping", True, 3)):
        # (only different from a FIN ending in the COMMTIMEOUT shards) a silent peer after a PROPER PREFIX of a message: the daemon is
        # in the middle of receiving (a peer that is silent between complete messages is merely idle: the multiplex server keeps it)
        m = {"base": base, "ser": "marshal", "obj": "w", "method": "f", "raise_kind": "value", "flags": 0,
             "muts": [["truncate", cut, 0]], "garbage": b""}
        yield {"steps": [{"kind": "hostile", "handshake": handshake, "msgs": [m], "end": "stall"}, {"kind": "witness", "who": 0}]}
    for kind in RAISE_KINDS:
        for ser in ("marshal", "json", "serpent", "msgpack"):
            m = {"base": "raise", "ser": ser, "obj": "w", "method": "f", "raise_kind": kind, "flags": 0, "muts": [], "garbage": b""}
            yield {"steps": [{"kind": "hostile", "handshake": True, "msgs": [m, dict(m, base="invoke")], "end": "fin"}]}
            m = dict(m, base="raise_cb")
            yield {"steps": [{"kind": "hostile", "handshake": True, "msgs": [m, dict(m, base="invoke")], "end": "fin"},
                             {"kind": "witness", "who": 0}]}
            for flags in (0, 4):
                m = dict(m, base="raise_ann", flags=flags)
                yield {"steps": [{"kind": "hostile", "handshake": True, "msgs": [m], "end": "fin"}, {"kind": "witness", "who": 0}, {"kind": "witness", "who": 1}]}


def SHARDS(tier):
    sh = [{"servertype": s, "commtimeout": t} for s in ("thread", "multiplex") for t in (0.0, 0.5)]
    return sh * (2 if tier == "quick" else 4) + [{"servertype": "thread", "commtimeout": 0.0, "poolsize": 2}] * (1 if tier == "quick" else 3) + \
        [{"part": "content", "servertype": s, "sers": sers} for s in ("thread", "multiplex") for sers in (["serpent", "json"], ["marshal", "msgpack"])]


def run(ctx):
    sh = ctx.shard
    if sh.get("part") == "content":
        env = {"servertype": sh["servertype"], "child": None}
        stalls = 0
        try:
            for ser in sh["sers"]:
                for case in content_cases(ser):
                    case = dict(case, servertype=sh["servertype"])
                    v = run_content_case(case, env)
                    ctx.observe(case, v, True, ["content", "content:" + case["family"], "where:" + case["where"], "ser:" + ser])
                    if v:
                        stalls += 1
                        if stalls >= 3:
                            return          # every stall costs the whole ceiling
        finally:
            if env.get("child") is not None:
                env["child"].kill()
        return
    st_, to, ps = sh.get("servertype", "thread"), sh.get("commtimeout", 0.0), sh.get("poolsize")
    try:
        if sh.get("index", 0) < 4 or (ps and sh.get("index", 0) in (8, 16)):        # the deterministic sweep runs once per combination
            k = 0
            for case in sweep_cases():
                ctx.observe(case, run_case(case, st_, to, keep=True, poolsize=ps), _nontrivial(case), _labels(case) + ["sweep"] + (["pool-full"] if ps else []))
                k += 1
                if ctx.violations:
                    break
            ctx.notes["sweep_cases"] = k
            if not ps and not to:
                for ser in ("marshal", "serpent", "json", "msgpack"):
                    case = {"steps": [{"kind": "flood", "ser": ser, "end": "rst" if ser in ("serpent", "json") else "fin"}, {"kind": "witness", "who": 0}]}
                    ctx.observe(case, run_case(case, st_, to, keep=True, poolsize=ps), True, _labels(case) + ["sweep"])
        n = ctx.n(400, 2500) if not to else ctx.n(150, 800)
        ctx.search(case_strategy(), lambda c: run_case(c, st_, to, keep=True, poolsize=ps), n, nontrivial=_nontrivial,
                   labels=(lambda c: _labels(c) + (["pool-full"] if ps else [])),
                   name="hostile%s%s" % (st_, to), max_rounds=1, shrink_budget_s=30)   # one violation per shard: a failing case may cost a hang ceiling
    finally:
        _teardown()
