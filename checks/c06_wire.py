"""C06 - wire messages decode to exactly what was encoded; nothing else decodes.

A (kind "rt"): generated fields -> Pyro5 SendingMessage -> scripted, fragmented stream -> recv_stub; compared with the inputs
               and with the independent reference parser (vlib.wire); consumption is exact; a trailing message survives;
               MAX_MESSAGE_SIZE is honoured by sender and by receiver (receiver before any body byte is read).
B (kind "bytes"): mutated reference encodings / arbitrary bytes -> recv_stub and ReceivingMessage(header, payload);
               accepted => the consumed bytes are well-formed for the reference parser, decode equal to it and re-encode
               to an equivalent message.
"""
import uuid
import zlib

from hypothesis import strategies as st

from vlib.driver import Violation
from vlib import wire
from vlib.fakesock import FakeSocket, FakeSSLSocket, install_nosleep

PROPERTY = "C06"
LEVEL = "exploration"
RULE = ("A: Hypothesis draws message type/flags/seq/serializer id (boundary-biased over the full 8/16 bit ranges), payloads "
        "around the 100 byte compression threshold, 0..5 annotations (4 ascii chars incl NUL; bytes/bytearray/memoryview; "
        "zero-length), correlation id, compression, MAX_MESSAGE_SIZE relative to the message size, a fragmentation script "
        "with retryable errors, and an optional trailing message. B: reference encodings with tampered fields, lengths, "
        "chunk headers, truncation/extension, or arbitrary bytes. Non-trivial: (A) has >=1 annotation, or is compressed, "
        "or has a boundary-valued field, or a size limit within +-2 of the message; (B) passes the tag/version/magic check. "
        "distinct = distinct case JSON")
ASSUMPTIONS = ["vlib.wire reference codec written from the documented header table", "python is not run with -O (asserts are live)"]

MANAGED = wire.F_COMPRESSED | wire.F_CORR_ID

u8 = st.one_of(st.sampled_from([0, 1, 2, 3, 4, 5, 6, 7, 42, 127, 128, 254, 255]), st.integers(0, 255))
u16 = st.one_of(st.sampled_from([0, 1, 2, 4, 8, 16, 32, 64, 66, 127, 128, 255, 256, 0x7fff, 0x8000, 0xfffe, 0xffff]), st.integers(0, 0xffff))

payloads = st.one_of(
    st.binary(max_size=40),
    st.integers(0, 400).flatmap(lambda n: st.sampled_from([b"a" * n, bytes(range(256)) * 2, b"\0" * n, (b"xyz%d" % n) * (n // 4 + 1)]).map(lambda b: b[:n])),
    st.sampled_from([99, 100, 101, 102]).flatmap(lambda n: st.binary(min_size=n, max_size=n)),
    st.binary(min_size=90, max_size=300),
)
ann_ids = st.one_of(st.sampled_from(["CORR", "STRM", "BLBI", "\0\0\0\0", "    ", "a\0b\x7f", "HMAC", "XXXX"]),
                    st.text(alphabet=st.characters(min_codepoint=0, max_codepoint=127), min_size=4, max_size=4),
                    # four LETTERS that are not four ascii characters: the sender must refuse them (or carry them exactly)
                    st.sampled_from(["K\u00e4se", "\u00e4\u00f6\u00fc\u00df", "\u65e5\u672c\u8a9e\u6587", "ab\u00e9c", "\u20acuro", "CO\u00aeR", "STR\u039c"]))
ann_vals = st.tuples(st.one_of(st.just(b""), st.binary(max_size=30), st.binary(min_size=100, max_size=200)),
                     st.sampled_from(["bytes", "bytearray", "memoryview", "memoryview:H", "memoryview:I", "memoryview:2d", "memoryview:array"]))
annotations = st.lists(st.tuples(ann_ids, ann_vals), max_size=5, unique_by=lambda t: t[0]).map(
    lambda l: [[k, v, t] for k, (v, t) in l])
corr_ids = st.one_of(st.none(), st.just(b"\0" * 16), st.binary(min_size=16, max_size=16))
frag = st.lists(st.one_of(st.integers(1, 7), st.integers(1, 64), st.sampled_from([1, 5, 6, 34, 39, 40, 41]),
                          st.sampled_from(["EINTR", "EAGAIN"])), max_size=30)


@st.composite
def rt_case(draw):
    def one():
        m = {"type": draw(u8), "flags": draw(u16), "seq": draw(u16), "ser": draw(u8), "payload": draw(payloads),
             "ann": draw(annotations), "corr": draw(corr_ids)}
        pt = draw(st.sampled_from(["bytes"] * 6 + ["bytearray", "memoryview", "memoryview:H", "memoryview:I", "memoryview:array"]))
        if pt != "bytes":
            # the payload handed to the sender as another kind of buffer (what counts is all of its bytes)
            m["ptype"] = pt
            m["payload"] = bytes(_annval(m["payload"], pt))
        return m
    c = one()
    c["kind"] = "rt"
    c["compress"] = draw(st.booleans())
    c["max_delta"] = draw(st.one_of(st.none(), st.none(), st.sampled_from([-300, -2, -1, 0, 1, 2, 300])))
    c["frag"] = draw(frag)
    c["ssl"] = draw(st.booleans())
    c["second"] = one() if draw(st.booleans()) else None
    return c


MUTATIONS = ["type", "ser", "flags", "seq", "dlen", "alen", "corr", "reserved", "magic", "version", "tag", "chunklen", "chunkid",
             "truncate", "extend", "flip", "swap_len", "compress_flag"]


@st.composite
def bytes_case(draw):
    if draw(st.integers(0, 9)) == 0:
        return {"kind": "bytes", "raw": draw(st.one_of(st.binary(max_size=100),
                                                        st.binary(max_size=60).map(lambda b: b"PYRO\x01\xf6" + b)))}
    base = {"type": draw(u8), "flags": draw(u16), "seq": draw(u16), "ser": draw(u8),
            "payload": draw(st.one_of(st.binary(max_size=30), st.binary(max_size=30).map(lambda b: zlib.compress(b)))),
            "ann": [[k, v] for k, v, _t in draw(annotations)], "corr": draw(corr_ids)}
    muts = draw(st.lists(st.tuples(st.sampled_from(MUTATIONS), st.integers(0, 2**32 - 1), st.integers(-9, 9)), max_size=3))
    return {"kind": "bytes", "base": base, "muts": [list(m) for m in muts]}


def case_strategy():
    return st.one_of(rt_case(), bytes_case())


# ------------------------------------------------------------------------------------------------

def _annval(v, t):
    if t == "bytearray":
        return bytearray(v)
    if t == "memoryview":
        return memoryview(v)
    if t.startswith("memoryview:"):
        # a view whose items are wider than one byte (len() of it counts items, its content is all of its bytes)
        v = bytes(v) + b"\0" * (-len(v) % 4)
        if t == "memoryview:H":
            return memoryview(v).cast("H")
        if t == "memoryview:I":
            return memoryview(v).cast("I")
        if t == "memoryview:2d":
            return memoryview(v).cast("B", (len(v) // 2, 2)) if len(v) else memoryview(v)
        import array
        return memoryview(array.array("I", v))
    return bytes(v)


class _Cfg(object):
    """set/restore global config + correlation id around one encode/decode"""
    def __init__(self, compression=False, maxsize=None, corr=None):
        self.c, self.m, self.corr = compression, maxsize, corr

    def __enter__(self):
        from Pyro5 import config
        from Pyro5.callcontext import current_context
        self.old = (config.COMPRESSION, config.MAX_MESSAGE_SIZE, current_context.correlation_id)
        config.COMPRESSION = self.c
        if self.m is not None:
            config.MAX_MESSAGE_SIZE = self.m
        current_context.correlation_id = uuid.UUID(bytes=self.corr) if self.corr is not None else None

    def __exit__(self, *a):
        from Pyro5 import config
        from Pyro5.callcontext import current_context
        config.COMPRESSION, config.MAX_MESSAGE_SIZE, current_context.correlation_id = self.old


def _script(frag):
    import errno
    out = []
    for f in frag:
        if f == "EINTR":
            out.append(("err", errno.EINTR))
        elif f == "EAGAIN":
            out.append(("err", errno.EAGAIN))
        else:
            out.append(("data", f))
    return out


def _encode(m, compress, maxsize=None):
    from Pyro5 import protocol
    with _Cfg(compress, maxsize, m["corr"]):
        anns = {k: _annval(v, t) for k, v, t in m["ann"]}
        return protocol.SendingMessage(m["type"], m["flags"], m["seq"], m["ser"], _annval(m["payload"], m.get("ptype", "bytes")), annotations=anns)


def _compare(m, dec, where):
    """dec: Pyro ReceivingMessage; m: the case's message dict"""
    out = []
    if dec.type != m["type"]:
        out.append("type %r != %r" % (dec.type, m["type"]))
    if dec.seq != m["seq"]:
        out.append("seq %r != %r" % (dec.seq, m["seq"]))
    if dec.serializer_id != m["ser"]:
        out.append("serializer id %r != %r" % (dec.serializer_id, m["ser"]))
    if (dec.flags & ~MANAGED) != (m["flags"] & ~MANAGED):
        out.append("flags 0x%x != 0x%x (outside the managed bits)" % (dec.flags, m["flags"]))
    if dec.flags & wire.F_COMPRESSED:
        out.append("decoded message still flagged compressed")
    if m["corr"] is not None:
        if not dec.flags & wire.F_CORR_ID:
            out.append("correlation id flag lost")
        if bytes(dec.corr_id) != m["corr"]:
            out.append("correlation id differs")
    if bytes(dec.data) != m["payload"]:
        out.append("payload differs (%d vs %d bytes)" % (len(dec.data), len(m["payload"])))
    got = {k: bytes(v) for k, v in dec.annotations.items()}
    want = {k: bytes(_annval(v, t)) for k, v, t in m["ann"]}      # (all the BYTES of the value, whatever the width of its items)
    if got != want:
        out.append("annotations differ: %r vs %r" % (got, want))
    return ["%s: %s" % (where, o) for o in out]


def run_rt(case):
    from Pyro5 import protocol, socketutil, errors
    install_nosleep()
    V = []

    def viol(sig, what):
        V.append(Violation("C06:" + sig, what))

    msgs = [case] + ([case["second"]] if case.get("second") else [])
    try:
        enc = [_encode(m, case["compress"]) for m in msgs]
    except Exception as x:
        if any(not k.isascii() for m in msgs for k, _v, _t in m["ann"]):
            return V        # an annotation id outside ascii is not "4 ascii letters": refusing it is the sender's right
        viol("rt:encode-raises", "sender refuses a buildable message: %r" % (x,))
        return V
    datas = [bytes(e.data) for e in enc]
    # reference view of what was produced
    refs = []
    for m, d in zip(msgs, datas):
        try:
            r = wire.ref_parse(d)
        except wire.Malformed as x:
            viol("rt:encoded-not-wellformed", "encoder output is not a well-formed message: %s" % x)
            return V
        refs.append(r)
        if (r["type"], r["seq"], r["ser"]) != (m["type"], m["seq"], m["ser"]) or (r["flags"] & ~MANAGED) != (m["flags"] & ~MANAGED):
            viol("rt:encoded-fields-differ", "reference parser reads other header fields than were encoded: %r" % ({k: r[k] for k in ("type", "seq", "ser", "flags")},))
        if r["data"] != m["payload"]:
            viol("rt:encoded-payload-differs", "reference parser reads another payload")
        if [(k, bytes(v)) for k, v in r["annotations"]] != [(k, bytes(_annval(v, t))) for k, v, t in m["ann"]]:
            viol("rt:encoded-annotations-differ", "reference parser reads other annotations: %r" % (r["annotations"],))
        if bool(r["flags"] & wire.F_CORR_ID) != (m["corr"] is not None) and not m["flags"] & wire.F_CORR_ID:
            viol("rt:corr-flag", "correlation flag %s but correlation id %s" % (bool(r["flags"] & wire.F_CORR_ID), m["corr"]))
        if m["corr"] is not None and r["corr"] != m["corr"]:
            viol("rt:corr-id", "correlation id on the wire differs")
    # decode from a fragmented stream
    stream = b"".join(datas)
    cls = FakeSSLSocket if case.get("ssl") else FakeSocket
    sock = cls(stream, _script(case["frag"]))
    conn = socketutil.SocketConnection(sock, keep_open=True)
    consumed = 0
    with _Cfg(False, None, None):
        for i, (m, d) in enumerate(zip(msgs, datas)):
            try:
                dec = protocol.recv_stub(conn)
            except Exception as x:
                viol("rt:decode-raises", "receiver raises on message %d built by the sender: %r" % (i, x))
                return V
            consumed += len(d)
            if sock.pos != consumed:
                viol("rt:consumption", "after message %d the receiver consumed %d bytes, message ends at %d" % (i, sock.pos, consumed))
                return V
            for o in _compare(m, dec, "message %d" % i):
                viol("rt:decoded-differs", o)
    # size limits
    md = case.get("max_delta")
    if md is not None:
        r = refs[0]
        size = r["dlen"] + r["alen"]
        limit = size + md
        if limit >= 0:
            try:
                _encode(case, case["compress"], maxsize=limit)
                sent = True
            except errors.ProtocolError:
                sent = False
            except Exception as x:
                sent = None
                viol("rt:sender-limit-raises-other", "sender raised %r for the size limit" % (x,))
            if sent is True and md < 0:
                viol("rt:sender-ignores-limit", "sender built a message of %d bytes with MAX_MESSAGE_SIZE=%d" % (size, limit))
            if sent is False and md >= 0:
                viol("rt:sender-refuses-fitting", "sender refused a message of %d bytes with MAX_MESSAGE_SIZE=%d" % (size, limit))
            sock = FakeSocket(datas[0], _script(case["frag"]))
            conn = socketutil.SocketConnection(sock, keep_open=True)
            with _Cfg(False, limit, None):
                try:
                    protocol.recv_stub(conn)
                    got = True
                except Exception:
                    got = False
            if md < 0:
                if got:
                    viol("rt:receiver-ignores-limit", "receiver accepted %d bytes with MAX_MESSAGE_SIZE=%d" % (size, limit))
                elif sock.pos != wire.HEADER:
                    viol("rt:receiver-reads-body-of-oversized", "receiver consumed %d bytes of an oversized message before refusing (header is %d)" % (sock.pos, wire.HEADER))
            elif not got:
                viol("rt:receiver-refuses-fitting", "receiver refused %d bytes with MAX_MESSAGE_SIZE=%d" % (size, limit))
    return V


def build_bytes(case):
    if "raw" in case:
        return bytes(case["raw"])
    b = case["base"]
    anns = [((k.encode("utf-8") + b"????")[:4], v) for k, v in b["ann"]]      # (the byte level knows four BYTES per id, whatever they spell)
    kw = {}
    raw = None
    post = []
    for name, val, delta in case["muts"]:
        if name in ("type", "ser"):
            b = dict(b, **{name: val % 256})
        elif name in ("flags", "seq"):
            b = dict(b, **{name: val % 65536})
        elif name == "compress_flag":
            b = dict(b, flags=b["flags"] ^ wire.F_COMPRESSED)
        elif name == "dlen":
            kw["dlen"] = max(0, len(b["payload"]) + delta) if val % 3 else val
        elif name == "alen":
            cur = sum(8 + len(v) for _k, v in anns)
            kw["alen"] = max(0, cur + delta) if val % 3 else val
        elif name == "swap_len":
            cur = sum(8 + len(v) for _k, v in anns)
            kw["alen"], kw["dlen"] = len(b["payload"]), cur
        elif name == "corr":
            b = dict(b, corr=(val.to_bytes(4, "big") * 4))
        elif name == "reserved":
            kw["reserved"] = val % 65536
        elif name == "magic":
            kw["magic"] = val % 65536
        elif name == "version":
            kw["version"] = [501, 503, 0, 65535, 502 ^ 0x100][val % 5]
        elif name == "tag":
            kw["tag"] = [b"PYRP", b"pyro", b"\0\0\0\0", b"PYR0"][val % 4]
        else:
            post.append((name, val, delta))
    raw = wire.ref_encode(b["type"], b["flags"], b["seq"], b["ser"], b["payload"], anns, b["corr"], **kw)
    for name, val, delta in post:
        if name == "truncate":
            raw = raw[:val % (len(raw) + 1)]
        elif name == "extend":
            raw = raw + bytes([val % 256]) * (abs(delta) + 1)
        elif name == "flip" and raw:
            i = val % len(raw)
            raw = raw[:i] + bytes([raw[i] ^ (1 << (abs(delta) % 8))]) + raw[i + 1:]
        elif name == "chunklen" and len(raw) >= 48:
            # rewrite the length field of the first annotation chunk
            raw = raw[:44] + ((int.from_bytes(raw[44:48], "big") + delta) % 2**32 if val % 2 else val).to_bytes(4, "big") + raw[48:]
        elif name == "chunkid" and len(raw) >= 44:
            raw = raw[:40] + bytes([val % 256]) + raw[41:]
    return raw


MAXB = 1 << 20


def run_bytes(case):
    from Pyro5 import protocol, socketutil
    install_nosleep()
    V = []

    def viol(sig, what):
        V.append(Violation("C06:" + sig, what))

    raw = build_bytes(case)
    # stream decoder
    sock = FakeSocket(raw, [], tail="rest")
    conn = socketutil.SocketConnection(sock, keep_open=True)
    with _Cfg(False, MAXB, None):
        try:
            dec = protocol.recv_stub(conn)
        except Exception:
            dec = None
        if dec is not None:
            used = raw[:sock.pos]
            try:
                r = wire.ref_parse(used, MAXB)
            except wire.Malformed as x:
                viol("bytes:accepts-malformed", "recv_stub accepted %d bytes that are not a well-formed message (%s): %s" % (sock.pos, x, used.hex()))
                r = None
            if r is not None:
                _cmp_ref(dec, r, viol, "recv_stub")
                _reencode(dec, viol)
        # whole-buffer decoder
        if len(raw) >= wire.HEADER:
            try:
                dec2 = protocol.ReceivingMessage(raw[:wire.HEADER], raw[wire.HEADER:])
            except Exception:
                dec2 = None
            if dec2 is not None:
                try:
                    r = wire.ref_parse(raw, MAXB)
                except wire.Malformed as x:
                    viol("bytes:accepts-malformed", "ReceivingMessage(header, payload) accepted bytes that are not a well-formed message (%s): %s" % (x, raw.hex()))
                else:
                    _cmp_ref(dec2, r, viol, "ReceivingMessage")
    return V


def _cmp_ref(dec, r, viol, where):
    if (dec.type, dec.seq, dec.serializer_id) != (r["type"], r["seq"], r["ser"]):
        viol("bytes:decoded-differs", "%s header fields %r vs reference %r" % (where, (dec.type, dec.seq, dec.serializer_id), (r["type"], r["seq"], r["ser"])))
    if (dec.flags & ~wire.F_COMPRESSED) != (r["flags"] & ~wire.F_COMPRESSED):
        viol("bytes:decoded-differs", "%s flags 0x%x vs reference 0x%x" % (where, dec.flags, r["flags"]))
    if bytes(dec.data) != r["data"]:
        viol("bytes:decoded-differs", "%s payload differs from reference" % where)
    if bytes(dec.corr_id) != r["corr"]:
        viol("bytes:decoded-differs", "%s correlation id differs from reference" % where)
    want = {}
    for k, v in r["annotations"]:
        want[k] = v      # duplicates collapse to the last one, as in a dict
    got = {k: bytes(v) for k, v in dec.annotations.items()}
    if got != want:
        viol("bytes:decoded-differs", "%s annotations %r vs reference %r" % (where, got, want))


def _reencode(dec, viol):
    """whatever the decoder accepts re-encodes to an equivalent message"""
    from Pyro5 import protocol, socketutil
    corr = bytes(dec.corr_id) if dec.flags & wire.F_CORR_ID else None
    try:
        with _Cfg(False, MAXB, corr):
            again = protocol.SendingMessage(dec.type, dec.flags, dec.seq, dec.serializer_id, bytes(dec.data),
                                            annotations={k: bytes(v) for k, v in dec.annotations.items()})
        sock = FakeSocket(bytes(again.data), [])
        with _Cfg(False, MAXB, None):
            d2 = protocol.recv_stub(socketutil.SocketConnection(sock, keep_open=True))
    except Exception as x:
        viol("bytes:reencode-raises", "accepted message cannot be re-encoded/decoded: %r" % (x,))
        return
    a = (dec.type, dec.seq, dec.serializer_id, dec.flags & ~wire.F_COMPRESSED, bytes(dec.data), {k: bytes(v) for k, v in dec.annotations.items()})
    b = (d2.type, d2.seq, d2.serializer_id, d2.flags & ~wire.F_COMPRESSED, bytes(d2.data), {k: bytes(v) for k, v in d2.annotations.items()})
    if a != b:
        viol("bytes:reencode-differs", "accepted message re-encodes to a different one: %r vs %r" % (a, b))
    if corr is not None and bytes(d2.corr_id) != corr:
        viol("bytes:reencode-differs", "correlation id lost on re-encoding")


def run_case(case):
    if case["kind"] == "rt":
        return run_rt(case)
    return run_bytes(case)


BOUNDARY = {0, 1, 127, 128, 255, 256, 0x7fff, 0x8000, 0xfffe, 0xffff}


def _nontrivial(case):
    if case["kind"] == "rt":
        return bool(case["ann"]) or (case["compress"] and len(case["payload"]) > 100) or \
            case["type"] in BOUNDARY or case["flags"] in BOUNDARY or case["seq"] in BOUNDARY or case["ser"] in BOUNDARY or \
            (case.get("max_delta") is not None and abs(case["max_delta"]) <= 2)
    raw = build_bytes(case)
    return len(raw) >= 40 and raw[:6] == b"PYRO\x01\xf6" and raw[38:40] == b"\x4d\xc5"


def _labels(case):
    if case["kind"] == "rt":
        l = ["rt"]
        if case["ann"]:
            l.append("rt:annotations")
        if case["compress"] and len(case["payload"]) > 100:
            l.append("rt:compressed")
        if case["second"]:
            l.append("rt:two-messages")
        if any(isinstance(f, str) for f in case["frag"]):
            l.append("rt:retryable-errors")
        if case.get("max_delta") is not None:
            l.append("rt:size-limit")
        if case["corr"] is not None:
            l.append("rt:corr-id")
        return l
    l = ["bytes"]
    if _nontrivial(case):
        l.append("bytes:passes-magic")
    return l


def SHARDS(tier):
    return [{}, {"part": "atheris"}] if tier == "quick" else [{} for _ in range(16)] + [{"part": "atheris", "k": k} for k in range(4)]


def run_atheris(ctx):
    """coverage-guided byte-level campaign (libFuzzer through atheris) on the decoder; the semantic oracle (reference parser)
    lives inside the target; a saved failing input is re-judged by run_case and becomes the replay"""
    import glob
    import os
    import shutil
    import subprocess
    import sys
    import tempfile
    from vlib.driver import ROOT
    target = os.path.join(ROOT, "fuzz", "fuzz_wire.py")
    tmp = tempfile.mkdtemp(prefix="c06fz_", dir="/var/tmp")
    try:
        corpus = os.path.join(tmp, "corpus")
        os.makedirs(corpus)
        seeds = [wire.ref_encode(4, 0, 1, 2, b"payload"), wire.ref_encode(1, 64, 0, 3, b"{}", [(b"CORR", b"abc")], b"\x01" * 16),
                 wire.ref_encode(5, 2, 9, 1, zlib.compress(b"x" * 200)), wire.ref_encode(6, 0, 0, 42, b"ping", [(b"AAAA", b""), (b"BBBB", b"12345")])]
        # (an empty corpus never gets past the 'PYRO' tag + version + magic within millions of runs: half of the campaigns start
        #  from 4 valid messages, the other half from an empty corpus plus a dictionary of the three constants)
        if ctx.shard.get("k", 0) % 2 == 0:
            for i, m in enumerate(seeds):
                with open(os.path.join(corpus, "seed%d" % i), "wb") as f:
                    f.write(m)
        with open(os.path.join(tmp, "dict"), "w") as f:
            f.write('"PYRO"\n"PYRO\\x01\\xf6"\n"\\x4d\\xc5"\n"\\x00\\x00\\x00\\x08"\n')
        runs = ctx.n(300000, 6000000)
        r = subprocess.run([sys.executable, target, "wire", corpus, "-runs=%d" % runs, "-seed=%d" % (ctx.seed + 1 + ctx.shard.get("k", 0)), "-max_len=400",
                            "-dict=" + os.path.join(tmp, "dict"), "-artifact_prefix=" + tmp + "/"],
                           stdout=subprocess.PIPE, stderr=subprocess.STDOUT, text=True, cwd=tmp)
        done = [l for l in r.stdout.splitlines() if "DONE" in l or "Done" in l]
        ctx.notes["atheris_runs"] = runs
        ctx.notes["atheris_summary"] = (done[0].strip() if done else r.stdout[-200:])[:200]
        crashes = glob.glob(os.path.join(tmp, "crash-*"))
        ctx.evaluations += runs
        for c in crashes[:3]:
            raw = open(c, "rb").read()
            case = {"kind": "bytes", "raw": raw}
            viols = run_case(case)
            if not viols:
                msg = [l for l in r.stdout.splitlines() if "OracleFailure" in l][-1:] or ["target raised"]
                viols = [Violation("C06:atheris:target-failure", "libFuzzer input fails in the fuzz target but not in run_case: %s" % msg[0][:200])]
            ctx.observe(case, viols, True, ["atheris"])
        if r.returncode != 0 and not crashes:
            if "No module named 'atheris'" in r.stdout:
                # the optional byte-level engine is not installed (setup.sh could not install it): the campaign is skipped, which
                # the evidence shows; the Hypothesis / enumeration parts decide
                ctx.notes["atheris_summary"] = "skipped: atheris not importable"
                return
            raise RuntimeError("atheris campaign failed: " + r.stdout[-600:])
        ctx.count({"kind": "atheris-campaign", "runs": runs, "seeded_corpus": ctx.shard.get("k", 0) % 2 == 0}, True, ["atheris-campaign"])
    finally:
        shutil.rmtree(tmp, ignore_errors=True)


def run(ctx):
    if ctx.shard.get("part") == "atheris":
        return run_atheris(ctx)
    n = ctx.n(4000, 40000)
    ctx.search(case_strategy(), run_case, n, nontrivial=_nontrivial, labels=_labels, name="wire", max_rounds=8)
