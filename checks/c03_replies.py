"""C03 - a call returns its own reply or fails; never another call's answer.

Histories of operations on ONE proxy (normal call, oneway call, batch, attribute read, stream fetch), each with a generated
transport fault per request message (vlib.faultconn: reply lost / late / cut at byte k + reset / reset before or after the
server processed the request / stale reply replayed / sequence number altered / reply duplicated), MAX_RETRIES 0..2 and
start sequence numbers next to the 16-bit wrap-around, against a live daemon whose target counts executions per token.
Oracle: a call that returns, returns the answer computed from ITS token; otherwise it raised a CommunicationError;
executions(token) == number of attempts whose request reached the server (so: exactly 1 for a call without retry that
returned, <= 1+N with N retries, 0 for an undelivered oneway); oneway returns None and consumes no reply; after a
failure the first fault-free operation succeeds with its own answer.
"""
import threading

from hypothesis import strategies as st

from vlib.driver import Violation
from vlib import faultconn

PROPERTY = "C03"
LEVEL = "fault_enumeration"
RULE = ("a case = (MAX_RETRIES 0..2, start sequence number in {0, 1, 0x7fff, 0xfff0..0xffff}, serializer, history of <= 12 operations "
        "from {call, call whose method raises, oneway, batch of 2 and oneway batch of 2 (one re-used BatchProxy per case), attribute read, stream of 2 items}, each with one fault per request message it may send "
        "(1 + retries for calls) from {deliver, drop-request, reply-lost, reply-late, cut-reply at offset k, reset-after, alter-seq by d, "
        "replay-stale, duplicate, reset-while-the-server-decodes-the-request (calls and oneway calls, first attempt)}). Thorough tier additionally enumerates every cut offset of one reply. Non-trivial: the history "
        "contains a non-deliver fault followed by a later operation; distinct = distinct case JSON")
ASSUMPTIONS = ["the fault wrapper behaves like a transport: late replies stay in the stream of their connection, a reset connection stays dead",
               "a stale reply with the same 16-bit sequence number (65536 calls later) is outside the bounded histories",
               "handshake messages are never faulted (C05/C08/C13 cover connection set-up); faults apply to INVOKE exchanges"]

CEILING = 10.0
EXEC = {}
LOCK = threading.Lock()
CTL = {}


def answer(token):
    return ["r", token, token * 7 + 1]


def _classes():
    import Pyro5.api as api

    @api.expose
    class Target(object):
        def work(self, token, extra=None):
            with LOCK:
                EXEC[token] = EXEC.get(token, 0) + 1
            return answer(token)

        @api.oneway
        def ow(self, token, extra=None):
            with LOCK:
                EXEC[token] = EXEC.get(token, 0) + 1

        @property
        def prop(self):
            with LOCK:
                EXEC["prop"] = EXEC.get("prop", 0) + 1
                return ["prop", EXEC["prop"]]

        def boom(self, token, extra=None):
            with LOCK:
                EXEC[token] = EXEC.get(token, 0) + 1
            raise ValueError("boom", token)

        def gen(self, token):
            with LOCK:
                EXEC[token] = EXEC.get(token, 0) + 1
            yield ["s", token, 0]
            yield ["s", token, 1]
    return Target


FAULTS = ["deliver", "deliver", "deliver", "drop-request", "reply-lost", "reply-late", "cut-reply", "reset-after", "alter-seq", "replay-stale", "duplicate",
          "reset-while-decoding"]
GATE_CLASS = "verif.c03.BeingDecodedNow"


def _gate_converter(classname, d):
    """custom class deserialiser (public API): runs while the server decodes a request that carries the gate argument"""
    ctl = CTL.get("ctl")
    if ctl is not None and ctl.decode_entered is not None:
        ctl.decode_entered.set()
        ctl.decode_go.wait(CEILING)
    return None
fault = st.one_of(
    st.sampled_from(FAULTS).map(lambda k: [k]),
    st.tuples(st.just("cut-reply"), st.integers(0, 120)).map(list),
    st.tuples(st.just("alter-seq"), st.sampled_from([1, -1, 2, 0x8000, 0xffff, 7])).map(list),
    st.tuples(st.just("replay-stale"), st.integers(0, 5)).map(list),
)
op = st.fixed_dictionaries({
    "kind": st.sampled_from(["call", "call", "call", "oneway", "batch", "getattr", "stream", "raise", "raise", "batch-oneway", "oneway-refused", "batch-oneway-refused", "undecodable-arg"]),
    "faults": st.lists(fault, min_size=3, max_size=3),
})


def case_strategy():
    return st.fixed_dictionaries({
        "retries": st.sampled_from([0, 0, 1, 2]),
        "seq0": st.sampled_from([0, 1, 0x7fff, 0xfff0, 0xfffa, 0xfffd, 0xfffe, 0xffff]),
        "ser": st.sampled_from(["serpent", "marshal", "json", "msgpack"]),
        "ops": st.lists(op, min_size=1, max_size=12),
    })


_live = {}


def _setup(servertype):
    from vlib import live
    if _live.get("servertype") != servertype:
        _teardown()
    if "served" in _live:
        return _live
    live.quiet_logs()
    threading.excepthook = lambda a: None
    S = live.Served(servertype)
    S.daemon.register(_classes()(), "target")
    un = faultconn.install(lambda oid: CTL.get("ctl") if oid == "target" else None)
    from Pyro5.serializers import SerializerBase
    SerializerBase.register_dict_to_class(GATE_CLASS, _gate_converter)
    _live.update(servertype=servertype, served=S, uninstall=un, token=0)
    return _live


def _teardown():
    if "served" in _live:
        _live["uninstall"]()
        _live["served"].stop()
    _live.clear()
    CTL.clear()


def _fault_reaches_server(f):
    return f[0] != "drop-request"


def _fault_breaks(f):
    return f[0] in ("drop-request", "reply-lost", "reply-late", "cut-reply", "reset-after", "alter-seq", "replay-stale", "reset-while-decoding")


def run_case(case, servertype=None, keep=False):
    from vlib import live
    from Pyro5 import errors
    import Pyro5.api as api
    servertype = servertype or case.get("servertype", "thread")
    L = _setup(servertype)
    S = L["served"]
    V = []

    def viol(sig, what):
        V.append(Violation("C03:" + sig, ("[%s] %s  case=%r" % (servertype, what, case))[:1000]))

    ctl = faultconn.Controller()
    CTL["ctl"] = ctl

    def server_sees_reset():
        # the most recent connection that passed the handshake is this proxy's: wait until its server-side socket knows
        with S.daemon.v_lock:
            sconn = S.daemon.v_validated[-1][0] if S.daemon.v_validated else None
        if sconn is not None:
            def gone():
                try:
                    sconn.sock.getpeername()
                    return False
                except OSError:
                    return True
            live.wait_for(gone, 2.0)
    ctl.server_sees_reset = server_sees_reset
    p = live.proxy(S.uri("target"), serializer=case["ser"], timeout=CEILING, retries=case["retries"])
    p._pyroSeq = case["seq0"]
    state = {"stale": False}     # a duplicated reply is still in the stream of the open connection: the NEXT exchange may fail

    def healthy(attempts):
        """the transport was healthy for the last attempt of this operation"""
        ok = bool(attempts) and attempts[-1][0][0] in ("deliver", "duplicate", "reset-after-reply") and not state["stale"]
        return ok

    def check_exec(key, attempts, outcome, label, sig, per_attempt=1, base=0):
        """executions == number of attempts that certainly reached the server and were processed; an attempt that failed
        without the wrapper having read its reply (it tripped over stale data / a dead connection) may or may not have run"""
        certain = maybe = 0
        for i, a in enumerate(attempts):
            if not a[2]:
                continue
            last = i == len(attempts) - 1
            if a[0][0] != "deliver" or (last and outcome == "ok") or a[1]:
                certain += 1
            else:
                maybe += 1
        live.wait_for(lambda: EXEC.get(key, 0) - base >= certain * per_attempt, CEILING)
        with LOCK:
            got = EXEC.get(key, 0) - base
        slack = state.get("prop_maybe", 0) if key == "prop" else 0     # getters of earlier failed attempts may still arrive
        if key == "prop":
            state["prop_maybe"] = slack + maybe
        if not certain * per_attempt <= got <= (certain + maybe) * per_attempt + slack:
            viol("execution-count:" + sig, "%s: method ran %d times; %d attempt(s) were processed for certain, %d more possibly (retries=%d, outcome %s)" % (
                label, got, certain, maybe, case["retries"], outcome))

    def after(attempts, outcome):
        # a duplicate that was delivered leaves a stale copy behind (and a reset right after a complete reply leaves a dead
        # connection behind) - unless the connection was dropped since
        if attempts and attempts[-1][0][0] in ("duplicate", "reset-after-reply") and outcome == "ok":
            state["stale"] = True
        elif attempts and any(not a[1] for a in attempts):
            state["stale"] = False      # any non-oneway exchange consumes (and trips over) the stale copy
    try:
        for n, o in enumerate(case["ops"]):
            L["token"] += 1
            tok = L["token"]
            kind = o["kind"]
            faults = [list(f) for f in o["faults"]]
            before = len(ctl.history)
            label = "op %d %s faults=%r" % (n, kind, faults)
            gate = None
            if kind in ("call", "oneway", "raise") and faults and faults[0][0] == "reset-while-decoding":
                # only the FIRST attempt can carry it (the argument's deserialiser waits for the harness)
                ctl.gate_armed = True
                ctl.decode_entered, ctl.decode_go = threading.Event(), threading.Event()
                gate = {"__class__": GATE_CLASS, "token": tok}
                for f in faults[1:]:
                    if f[0] == "reset-while-decoding":
                        f[0] = "reset-after"
            else:
                for f in faults:
                    if f[0] == "reset-while-decoding":
                        f[0] = "reset-after"
            if kind in ("call", "raise"):
                ctl.script = faults[:1 + case["retries"]]
                meth = p.work if kind == "call" else p.boom
                try:
                    res = ("ok", meth(tok) if gate is None else meth(tok, gate))
                    if kind == "raise":
                        res = ("other", "returned %r instead of raising" % (res[1],))
                except errors.CommunicationError as x:
                    res = ("comm", x)
                except ValueError as x:
                    # the remote method's own exception is this call's answer: ValueError("boom", <its token>)
                    if kind == "raise" and hasattr(x, "_pyroTraceback") and len(x.args) == 2 and x.args[0] == "boom" and isinstance(x.args[1], int):
                        res = ("ok", answer(x.args[1]))
                    else:
                        res = ("other", x)
                except Exception as x:
                    res = ("other", x)
                attempts = ctl.history[before:]
                if res[0] == "ok":
                    if not isinstance(res[1], (list, tuple)) or list(res[1]) != answer(tok):
                        viol("wrong-answer:call", "%s returned %r, its own answer is %r" % (label, res[1], answer(tok)))
                    if not attempts or _fault_breaks(attempts[-1][0]) and attempts[-1][0][0] not in ("duplicate",):
                        viol("returned-despite-fault:call", "%s returned although its last reply was faulted (%r)" % (label, attempts[-1:] and attempts[-1][0]))
                elif res[0] == "other":
                    viol("wrong-exception:call", "%s raised %r (not a communication error)" % (label, res[1]))
                else:
                    if healthy(attempts) and len(attempts) == 1:
                        viol("failed-on-healthy-transport:call", "%s failed with %r although the transport was healthy for its last attempt" % (label, res[1]))
                check_exec(tok, attempts, res[0], label, "call")
                after(attempts, res[0])
                if len(attempts) > 1 + case["retries"]:
                    viol("too-many-attempts", "%s: %d attempts with MAX_RETRIES=%d" % (label, len(attempts), case["retries"]))
            elif kind == "oneway":
                ctl.script = faults[:1 + case["retries"]]
                try:
                    res = ("ok", p.ow(tok) if gate is None else p.ow(tok, gate))
                except errors.CommunicationError as x:
                    res = ("comm", x)
                except Exception as x:
                    res = ("other", x)
                attempts = ctl.history[before:]
                want_exec = sum(1 for a in attempts if a[2])
                if res[0] == "ok" and res[1] is not None:
                    viol("oneway-returned-value", "%s returned %r" % (label, res[1]))
                if res[0] == "other":
                    viol("wrong-exception:oneway", "%s raised %r" % (label, res[1]))
                if res[0] == "comm" and attempts and attempts[-1][2]:
                    viol("oneway-failed-though-delivered", "%s raised %r although the request was delivered" % (label, res[1]))
                if not live.wait_for(lambda: EXEC.get(tok, 0) >= want_exec, CEILING):
                    viol("execution-count:oneway", "%s: delivered %d time(s) but ran %d times" % (label, want_exec, EXEC.get(tok, 0)))
                o["_tok"], o["_want"] = tok, want_exec
                if attempts and attempts[-1][0][0] == "reset-while-decoding":
                    state["stale"] = True       # the connection is dead but the proxy cannot know yet: the NEXT exchange may fail
            elif kind == "undecodable-arg":
                # a call whose argument the daemon refuses to decode (a class tag it does not know): the daemon reports that and closes
                # the connection on its side - the proxy must come out of it usable (the next operation is judged as usual)
                ctl.script = faults[:1]
                try:
                    res = ("ok", p.work(tok, {"__class__": "c03.no.such.Class", "tok": tok}))
                except errors.CommunicationError as x:      # (SerializeError is one)
                    res = ("comm", x)
                except Exception as x:
                    res = ("other", x)
                attempts = ctl.history[before:]
                if res[0] == "ok":
                    viol("undecodable-argument-accepted", "%s returned %r" % (label, res[1]))
                if res[0] == "other":
                    viol("wrong-exception:call", "%s raised %r (not a communication error)" % (label, res[1]))
                with LOCK:
                    if EXEC.get(tok, 0):
                        viol("execution-count:call", "%s: the method ran although its argument could not be decoded" % label)
                after(attempts, "comm")
            elif kind in ("oneway-refused", "batch-oneway-refused"):
                # a oneway request the daemon refuses in its dispatcher (no such member / a oneway batch whose second member does not
                # exist): still no reply of any kind may come back - the next exchange on this connection must find its own answer
                from Pyro5 import protocol as _protocol
                ctl.script = faults[:1]
                try:
                    if kind == "oneway-refused":
                        res = ("ok", p._pyroInvoke("no_such_member_%d" % (tok % 3), [tok], {}, flags=_protocol.FLAGS_ONEWAY))
                    else:
                        res = ("ok", p._pyroInvokeBatch([("work", (tok,), {}), ("no_such_member", (tok,), {}), ("work", (tok,), {})], oneway=True))
                except errors.CommunicationError as x:
                    res = ("comm", x)
                except Exception as x:
                    res = ("other", x)
                attempts = ctl.history[before:]
                if res[0] == "ok" and res[1] is not None:
                    viol("oneway-returned-value", "%s returned %r" % (label, res[1]))
                if res[0] == "other":
                    viol("wrong-exception:oneway", "%s raised %r" % (label, res[1]))
                o["_tok"], o["_want"] = tok, (0 if kind == "oneway-refused" else sum(1 for a in attempts if a[2]))
                if attempts and attempts[-1][0][0] == "reset-while-decoding":
                    state["stale"] = True
            elif kind == "batch-oneway":
                # a oneway batch through the case's (re-used) BatchProxy: nothing comes back; its two calls run once per delivery
                ctl.script = faults[:1]
                b = state.setdefault("bp", api.BatchProxy(p))
                b.work(tok)
                b.work(tok)
                try:
                    res = ("ok", b(oneway=True))
                except errors.CommunicationError as x:
                    res = ("comm", x)
                except Exception as x:
                    res = ("other", x)
                attempts = ctl.history[before:]
                if res[0] != "ok":
                    state.pop("bp", None)       # a BatchProxy whose submission failed keeps its calls queued: not re-used (unspecified)
                if res[0] == "ok" and res[1] is not None:
                    viol("oneway-returned-value", "%s returned %r" % (label, res[1]))
                if res[0] == "other":
                    viol("wrong-exception:oneway", "%s raised %r" % (label, res[1]))
                o["_tok"], o["_want"] = tok, 2 * sum(1 for a in attempts if a[2])
            elif kind == "batch":
                ctl.script = faults[:1]
                b = state.setdefault("bp", api.BatchProxy(p))      # one BatchProxy per case, re-used (supported usage)
                b.work(tok)
                b.work(tok)
                try:
                    res = ("ok", list(b()))
                except errors.CommunicationError as x:
                    res = ("comm", x)
                except Exception as x:
                    res = ("other", x)
                attempts = ctl.history[before:]
                if res[0] != "ok":
                    state.pop("bp", None)       # (see above)
                if res[0] == "ok":
                    try:
                        good = [list(r) for r in res[1]] == [answer(tok), answer(tok)]
                    except TypeError:
                        good = False
                    if not good:
                        viol("wrong-answer:batch", "%s returned %r, its own answer is twice %r" % (label, res[1], answer(tok)))
                if res[0] == "ok" and attempts and _fault_breaks(attempts[-1][0]):
                    viol("returned-despite-fault:batch", "%s returned although its reply was faulted" % label)
                if res[0] == "other":
                    viol("wrong-exception:batch", "%s raised %r" % (label, res[1]))
                if res[0] == "comm" and healthy(attempts):
                    viol("failed-on-healthy-transport:batch", "%s failed with %r" % (label, res[1]))
                check_exec(tok, attempts, res[0], label, "batch", per_attempt=2)
                after(attempts, res[0])
            elif kind == "getattr":
                ctl.script = faults[:1]
                with LOCK:
                    base = EXEC.get("prop", 0)
                try:
                    res = ("ok", p.prop)
                except errors.CommunicationError as x:
                    res = ("comm", x)
                except Exception as x:
                    res = ("other", x)
                attempts = ctl.history[before:]
                if res[0] == "ok" and not (list(res[1])[:1] == ["prop"] and base + 1 <= res[1][1] <= base + 1 + state.get("prop_maybe", 0)):
                    viol("wrong-answer:getattr", "%s returned %r, expected %r" % (label, res[1], ["prop", base + 1]))
                if res[0] == "ok" and attempts and _fault_breaks(attempts[-1][0]):
                    viol("returned-despite-fault:getattr", "%s returned although its reply was faulted" % label)
                if res[0] == "other":
                    viol("wrong-exception:getattr", "%s raised %r" % (label, res[1]))
                if res[0] == "comm" and healthy(attempts):
                    viol("failed-on-healthy-transport:getattr", "%s failed with %r" % (label, res[1]))
                check_exec("prop", attempts, res[0], label, "getattr", base=base)
                after(attempts, res[0])
            elif kind == "stream":
                # opening call fault-free, the two item fetches carry the faults
                ctl.script = []
                b4 = len(ctl.history)
                try:
                    it = p.gen(tok)
                    after(ctl.history[b4:], "ok")
                except errors.CommunicationError as x:
                    if healthy(ctl.history[b4:]):
                        viol("failed-on-healthy-transport:stream-open", "%s: opening the stream failed with %r" % (label, x))
                    after(ctl.history[b4:], "comm")
                    it = None
                except Exception as x:
                    viol("wrong-exception:stream-open", "%s: opening the stream raised %r" % (label, x))
                    it = None
                if it is not None:
                    items = []
                    for j in range(2):
                        ctl.script = faults[j:j + 1]
                        b4 = len(ctl.history)
                        try:
                            item = next(it)
                            att = ctl.history[b4:]
                            if list(item) != ["s", tok, len(items)]:
                                viol("wrong-answer:stream", "%s item %d is %r" % (label, j, item))
                            if att and _fault_breaks(att[-1][0]):
                                viol("returned-despite-fault:stream", "%s item %d returned although its reply was faulted" % (label, j))
                            items.append(item)
                            after(att, "ok")
                        except errors.CommunicationError as x:
                            att = ctl.history[b4:]
                            if healthy(att):
                                viol("failed-on-healthy-transport:stream", "%s item %d failed with %r" % (label, j, x))
                            after(att, "comm")
                            if j == 0:
                                # the fetch of the FIRST item failed on the wire: at least one item is still to come, so another fetch
                                # (healthy transport now) either delivers one of this stream's items or fails with a communication
                                # error - it cannot report the end of the stream without having asked
                                ctl.script = []
                                b5 = len(ctl.history)
                                try:
                                    item = next(it)
                                    if list(item) not in (["s", tok, 0], ["s", tok, 1]):
                                        viol("wrong-answer:stream", "%s: the fetch after a failed fetch returned %r" % (label, item))
                                except errors.CommunicationError:
                                    pass
                                except StopIteration:
                                    viol("stream-ended-without-asking", "%s: after the fetch of item 0 failed with a communication error the next "
                                         "fetch reported the end of the stream (%d request(s) sent for it) although items remain" % (label, len(ctl.history) - b5))
                                except Exception as x2:
                                    viol("wrong-exception:stream", "%s: the fetch after a failed fetch raised %r" % (label, x2))
                                after(ctl.history[b5:], "comm")
                            break
                        except StopIteration:
                            viol("wrong-answer:stream", "%s ended early at item %d" % (label, j))
                            break
                        except Exception as x:
                            att = ctl.history[b4:]
                            if att and att[-1][0][0] in ("deliver", "duplicate") and not any(_fault_breaks(f) for f in faults[:j]):
                                viol("wrong-exception:stream", "%s item %d raised %r" % (label, j, x))
                            break
                    ctl.script = []
                    try:
                        it.close()
                    except Exception:
                        pass
                    it = None
            if V:
                break
        # ---- recovery: with a healthy transport the same proxy works again, first try
        if not V:
            ctl.script = []
            L["token"] += 1
            tok = L["token"]
            last_faults = ctl.history[-1][0][0] if ctl.history else "deliver"
            if state["stale"]:
                # a duplicated reply is still in the stream: the exchange that trips over it may fail (with a communication
                # error only); the transport is healthy for the one after it
                L["token"] += 1
                t0 = L["token"]
                try:
                    r = p._pyroInvoke("work", (t0,), {})
                    if list(r) != answer(t0):
                        viol("wrong-answer:after-duplicate", "the call after a duplicated reply returned %r, its own answer is %r" % (r, answer(t0)))
                except errors.CommunicationError:
                    pass
                except Exception as x:
                    viol("wrong-exception:after-duplicate", "the call after a duplicated reply raised %r" % (x,))
                state["stale"] = False
            try:
                r = p.work(tok)
                if list(r) != answer(tok):
                    viol("wrong-answer:recovery", "after the history a fault-free call returned %r, expected %r" % (r, answer(tok)))
                with LOCK:
                    if EXEC.get(tok, 0) != 1:
                        viol("execution-count:recovery", "recovery call ran %d times" % EXEC.get(tok, 0))
            except Exception as x:
                viol("no-recovery", "after the history (last fault %s) a fault-free call on the same proxy failed with %r" % (last_faults, x))
            # oneway calls must not have run more often than they were delivered (barrier: the call above went through the same daemon)
            live.join_oneway_threads(CEILING)
            for o in case["ops"]:
                if "_tok" in o:
                    # (a oneway request that went out over a connection which was dropped afterwards is served by ANOTHER server thread
                    #  than the recovery call: wait for it - the ceiling only guards against a request that is never carried out)
                    live.wait_for(lambda: EXEC.get(o["_tok"], 0) >= o["_want"], CEILING)
                    with LOCK:
                        got = EXEC.get(o["_tok"], 0)
                    if got != o["_want"]:
                        viol("execution-count:oneway", "oneway call delivered %d time(s) ran %d times" % (o["_want"], got))
    finally:
        for o in case["ops"]:
            o.pop("_tok", None)
            o.pop("_want", None)
        try:
            p._pyroRelease()
        except Exception:
            pass
        CTL.pop("ctl", None)
        with S.daemon.v_lock:
            del S.daemon.v_validated[:]
            del S.daemon.v_disconnects[:]
        with LOCK:
            EXEC.clear()
        if not keep:
            _teardown()
    return V


def _nontrivial(case):
    seen_fault = False
    for o in case["ops"]:
        used = o["faults"][:1 + (case["retries"] if o["kind"] in ("call", "oneway") else 0)]
        if seen_fault:
            return True
        if any(f[0] != "deliver" for f in used):
            seen_fault = True
    return False


def _labels(case):
    l = ["retries:%d" % case["retries"], "seq0:%s" % ("wrap" if case["seq0"] >= 0xfff0 else "low")]
    for o in case["ops"]:
        l.append("op:" + o["kind"])
        l.append("fault:" + o["faults"][0][0])
    return sorted(set(l))


def SHARDS(tier):
    sh = [{"servertype": s} for s in ("thread", "multiplex")] * (4 if tier == "quick" else 8)
    if tier == "thorough":
        sh.append({"servertype": "thread", "part": "offsets"})
    return sh


def run(ctx):
    st_ = ctx.shard.get("servertype", "thread")
    try:
        if ctx.shard.get("part") == "offsets":
            for ser in ("serpent", "marshal", "json", "msgpack"):
                for k in range(0, 100):
                    for retries in (0, 1):
                        case = {"retries": retries, "seq0": 0xfffe, "ser": ser, "ops": [
                            {"kind": "call", "faults": [["cut-reply", k], ["deliver"], ["deliver"]]},
                            {"kind": "call", "faults": [["deliver"], ["deliver"], ["deliver"]]}]}
                        ctx.observe(case, run_case(case, st_, keep=True), True, ["offset-enumeration"])
            ctx.exhaustive = True
            return
        ctx.search(case_strategy(), lambda c: run_case(c, st_, keep=True), ctx.n(600, 4000), nontrivial=_nontrivial, labels=_labels,
                   name="replies" + st_, max_rounds=3, shrink_budget_s=30)
    finally:
        _teardown()
