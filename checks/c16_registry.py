"""C16 - daemon registry: an id reaches exactly its object, for as long as it is registered.

Model-based generated histories over a pool of 4 objects (two exposed classes) and one class registration on a live
daemon: register (generated / explicit / colliding / reserved id, force, weak), unregister (by object, by id, unknown,
the daemon's own), uriFor, proxyFor, call(id), registered(), return-object through a relay method, drop-last-reference +
gc.  The model is a dict id -> object.  Oracle: a call to an id is served by exactly the model's object or fails with
'unknown object'; registered() == model keys + the daemon's own; a second registration of the same id or object is
refused unless forced; Pyro.Daemon can be neither unregistered nor silently replaced; a registered object returned from
a method arrives as a proxy to that very object; an unregistered one behaves exactly like a never-registered twin.
"""
import gc
import threading

from hypothesis import strategies as st

from vlib.driver import Violation

PROPERTY = "C16"
LEVEL = "exploration"
RULE = ("a case = (serializer with auto-proxy support, history of <= 16 steps from {register(obj k, id none|x|y|Pyro.Daemon|'', force, weak), "
        "unregister(obj k | id | unknown id | Pyro.Daemon), uriFor, proxyFor, call(id), registered, give(obj k) through a relay method, drop "
        "last reference + gc (a strongly registered object must stay reachable then)}; pool = 2 truthy + 2 falsy instances + 1 class; plus a fixed catalogue of histories). Non-trivial: the history contains unregister-by-id, force, or weak+gc, followed by a call or a give; "
        "distinct = distinct case JSON. A third of the cases uses objects whose __getstate__ returns their live attribute dict; steps may also register / unregister "
        "a pool object with ANOTHER daemon of the process (afterwards only this daemon's table, its refusal of the same object under the same id, and calls by id are judged for it)")
ASSUMPTIONS = ["an object registered under several ids (forced) is never unregistered BY OBJECT (the statement leaves open which id goes); if its marked id is taken over by another object only calls by id are judged for it",
               "forced replacement of Pyro.Daemon itself is not generated ('silently' is ambiguous for an explicit force)",
               "unregistering something that is not registered may be a no-op or a DaemonError",
               "an unregistered object must travel exactly like a never-registered twin of the same class (differential)"]

POOL = {}
LOCK = threading.Lock()
LABEL = [0]


def make_class(label):
    import Pyro5.api as api

    def hit(self):
        return type(self).label
    return api.expose(type("K", (object,), {"hit": hit, "label": label}))


def _classes():
    import Pyro5.api as api

    @api.expose
    class A(object):
        def __init__(self, label):
            self.label = label

        def hit(self):
            return self.label

    @api.expose
    class B(object):
        def __init__(self, label):
            self.label = label

        def hit(self):
            return self.label

        def __bool__(self):
            return False        # an ordinary object may well be falsy (empty container-like objects are)

    @api.expose
    class A2(A):
        """hands out its live attribute dict as its state (a common __getstate__): serialising it by value must leave the object alone"""
        def __getstate__(self):
            return self.__dict__

    A.livestate = A2

    @api.expose
    class SetLike(set):
        """a registered object may well be a specialisation of a builtin container (its class derives from set)"""
        def __init__(self, label):
            set.__init__(self)
            self.label = label

        def hit(self):
            return self.label

    A.setlike = SetLike

    @api.expose
    class Relay(object):
        def give(self, k):
            o = POOL[k]
            return o() if isinstance(o, type) else o      # slot 4 holds a class: hand out an instance of it

        def twin(self, k):
            o = POOL[k]
            if isinstance(o, type):
                return make_class(o.label)()              # instance of a never-registered class of the same shape
            return type(o)(o.label)

        def give_list(self, k):
            return [POOL[k], 5]
    return A, B, Relay


IDS = ["x", "y", "Pyro.Daemon", "", "relay"]
_reg = st.tuples(st.just("register"), st.sampled_from([0, 1, 2, 3, 4, 4]), st.sampled_from([None, "x", "x", "x", "y", "Pyro.Daemon", "", "a b", "tab\tid"]), st.booleans(), st.booleans())
step = st.one_of(
    _reg, _reg, _reg,
    st.tuples(st.just("unregister_obj"), st.sampled_from([0, 1, 2, 3, 4])),
    st.tuples(st.just("unregister_id"), st.sampled_from(["x", "y", "gen0", "gen1", "nope", "Pyro.Daemon"])),
    st.tuples(st.just("call"), st.sampled_from(["x", "y", "gen0", "gen1", "nope"])),
    st.tuples(st.just("call"), st.sampled_from(["x", "y", "gen0", "gen1"])),
    st.tuples(st.just("give"), st.sampled_from([0, 1, 2, 3, 4])),
    st.tuples(st.just("give"), st.sampled_from([0, 1, 2, 3, 4])),
    st.tuples(st.just("uri"), st.sampled_from([0, 1, 2, 3, 4])),
    st.tuples(st.just("proxyfor"), st.sampled_from([0, 1, 2, 3, 4])),
    st.tuples(st.just("registered")),
    st.tuples(st.just("unregister_instance")),
    st.tuples(st.just("unregister_daemon_object")),
    st.tuples(st.just("give_marshal"), st.sampled_from([0, 1, 2, 3, 4])),
    st.tuples(st.just("drop"), st.sampled_from([0, 1, 2, 3, 4])),
    st.tuples(st.just("daemon_ping")),
    st.tuples(st.sampled_from(["foreign_register", "foreign_register", "foreign_unregister"]), st.sampled_from([0, 1, 2, 3])),
).map(list)


def case_strategy():
    return st.fixed_dictionaries({"ser": st.sampled_from(["serpent", "json", "msgpack"]), "steps": st.lists(step, min_size=1, max_size=16),
                                  "livestate": st.integers(0, 2).map(lambda n: n == 0), "setlike": st.integers(0, 2).map(lambda n: n == 0)})


_live = {}


def _setup(servertype):
    from vlib import live
    if _live.get("servertype") != servertype:
        _teardown()
    if "served" not in _live:
        live.quiet_logs()
        A, B, Relay = _classes()
        srv = live.Served(servertype)
        srv.daemon.register(Relay(), "relay")
        import Pyro5.server
        _live.update(served=srv, servertype=servertype, A=A, B=B, foreign=Pyro5.server.Daemon())     # (a second daemon of the process; never served)
    return _live


def _teardown():
    if "served" in _live:
        _live["served"].stop()
        try:
            _live["foreign"].close()
        except Exception:
            pass
    _live.clear()
    POOL.clear()


def _outcome(fn):
    """normalised outcome of a give(): ('proxy', label served through it) | ('value', repr) | ('error', type name)"""
    from Pyro5 import client
    try:
        v = fn()
    except Exception as x:
        return ("error", type(x).__name__)
    if isinstance(v, client.Proxy):
        try:
            with v:
                return ("proxy", v.hit())
        except Exception as x:
            return ("proxy-broken", type(x).__name__)
    if type(v) is dict:
        # (an object whose state is its live attribute dict shows the marks a former registration left on it: stale marks are not
        #  a different way of travelling - the statement asks for "by value")
        v = {k: x for k, x in v.items() if k not in ("_pyroId", "_pyroDaemon")}
    return ("value", repr(v))


def run_case(case, servertype=None, keep=False):
    from vlib import live
    from Pyro5 import errors
    servertype = servertype or case.get("servertype", "thread")
    L = _setup(servertype)
    srv, A, B = L["served"], L["A"], L["B"]
    d = srv.daemon
    V = []

    def viol(sig, what):
        V.append(Violation("C16:" + sig, ("[%s/%s] %s  case=%r" % (servertype, case["ser"], what, case))[:900]))

    def fresh(k):
        LABEL[0] += 1
        if k == 4:
            return make_class("cls-%d" % LABEL[0])
        if k == 2 and case.get("setlike"):
            return A.setlike("obj%d-%d" % (k, LABEL[0]))
        return ((A.livestate if case.get("livestate") else A) if k % 2 == 0 else B)("obj%d-%d" % (k, LABEL[0]))
    for k in range(5):
        POOL[k] = fresh(k)
    model = {}          # id -> pool index
    weak = {}           # id -> bool
    gen_ids = []        # generated ids in order of creation ("gen0", "gen1" refer to these)
    relay = live.proxy(srv.uri("relay"), serializer=case["ser"])
    flags = {"byid": False, "force": False, "weakgc": False}

    def real_id(name):
        if name.startswith("gen"):
            i = int(name[3:])
            return gen_ids[i] if i < len(gen_ids) else "nonexistent-generated-id"
        return name

    def ids_of(k):
        return [i for i, kk in model.items() if kk == k]

    def holder(k):
        ids = ids_of(k)
        if not ids:
            return None
        return marked.get(k) if marked.get(k) in ids else ids[0]

    marked = {}         # pool index -> the id of its most recent registration (what the object's own marks say)
    foreign = set()     # objects that another daemon has registered / unregistered meanwhile
    murky = set()       # objects registered under several ids whose MARKED id was taken over by another object: the statement
                        # does not say how such an object travels / which id uriFor gives: only calls by id are judged for them

    try:
        for n, s in enumerate(case["steps"]):
            op = s[0]
            label = "step %d %r" % (n, s)
            obj = res = got = None       # (a kept exception would keep its frames - and the pool objects in them - alive)
            if op in ("foreign_register", "foreign_unregister"):
                # the application registers the same object with ANOTHER daemon of the process as well (or takes it out there): the
                # object's marks then speak about that daemon; this daemon's table, its refusals and calls by id are unaffected
                k = s[1]
                try:
                    if op == "foreign_register":
                        L["foreign"].register(POOL[k])
                    else:
                        L["foreign"].unregister(POOL[k])
                except Exception:       # noqa
                    pass
                murky.add(k)
                foreign.add(k)
                continue
            if op == "register":
                _, k, oid, force, wk = s
                obj = POOL[k]
                cur = holder(k)
                if k in foreign and (force or cur is None or real_id(oid or "") != cur):
                    continue        # only "the same object under the same id, unforced" is judged for an object another daemon has marked
                if force and cur is not None and (oid is None or oid != cur) and (wk or any(weak.get(i) for i in ids_of(k)) or k == 4):
                    continue        # forced registration under a SECOND id is only generated for strongly registered instances
                if force and oid == "Pyro.Daemon":
                    continue        # excluded shape
                if force and oid == "relay":
                    continue
                if oid is not None and any(ch.isspace() for ch in oid):
                    # an id that cannot be part of a uri: whatever register() answers, afterwards the daemon reports and serves exactly
                    # what it did before (a registration that "failed" must not have happened)
                    before_ids = set(d.objectsById)
                    try:
                        d.register(obj, oid, force=force, weak=wk)
                        accepted_bad = True
                    except Exception:       # noqa
                        accepted_bad = False
                    if not accepted_bad and set(d.objectsById) != before_ids:
                        viol("refused-registration-took-effect", "%s raised, but the daemon's table changed: %r -> %r" % (label, sorted(before_ids), sorted(d.objectsById)))
                        break
                    if accepted_bad:
                        # (accepted after all: then it is a registration like any other)
                        model[oid] = k
                        marked[k] = oid
                        weak[oid] = wk
                    obj = None
                    continue
                expect_refuse = (not force) and (cur is not None or (oid not in (None, "") and (oid in model or oid in ("Pyro.Daemon", "relay"))))
                try:
                    uri = d.register(obj, oid if oid != "" else None, force=force, weak=wk)
                    res = ("ok", uri)
                except errors.DaemonError as x:
                    res = ("refused", x)
                except TypeError as x:
                    res = ("typeerror", x) if (k == 4 and wk) else ("error", x)
                except Exception as x:
                    res = ("error", x)
                if k == 4 and wk:
                    if res[0] == "ok":
                        viol("weak-class-registration-accepted", "%s: classes cannot be registered weakly, but it returned %s" % (label, res[1]))
                        break
                    continue
                if force:
                    flags["force"] = True
                if res[0] == "error":
                    viol("register-raises", "%s raised %r" % (label, res[1]))
                    break
                if expect_refuse:
                    if res[0] == "ok":
                        what = "object" if cur is not None else "id"
                        sig = "duplicate-registration-accepted:%s%s" % (what, ":weak" if (cur is not None and weak.get(cur)) else "")
                        viol(sig, "%s: a second registration of the same %s must be refused unless forced, but it returned %s" % (label, what, res[1]))
                        break
                else:
                    if res[0] != "ok":
                        viol("registration-refused", "%s refused with %r although neither the object nor the id is registered" % (label, res[1]))
                        break
                    rid = res[1].object
                    if oid in (None, ""):
                        gen_ids.append(rid)
                    elif rid != oid:
                        viol("register-uri", "%s returned uri for id %r" % (label, rid))
                    if rid in model and model[rid] != k:
                        prev = model[rid]
                        if marked.get(prev) == rid and len(ids_of(prev)) > 1:
                            murky.add(prev)     # it stays registered under its other id(s), but its marks named this one
                    model[rid] = k
                    marked[k] = rid
                    weak[rid] = wk
                obj = None
            elif op == "unregister_instance":
                # an instance of the registered class is not itself registered: unregistering it must not touch the class
                before_ids = set(model)
                try:
                    d.unregister(POOL[4]())
                except errors.DaemonError:
                    pass
                except Exception as x:
                    viol("unregister-raises", "%s raised %r" % (label, x))
                    break
                for rid in [i for i, kk in model.items() if kk == 4]:
                    if rid not in d.objectsById:
                        viol("unregister-instance-removed-class", "%s: unregistering an instance of the class registered under %r removed the class registration" % (label, rid))
                if V:
                    break
            elif op == "unregister_daemon_object":
                # the daemon's own object, handed to unregister() as an OBJECT: must not go away either
                own = d.objectsById.get("Pyro.Daemon")
                if own is None:
                    viol("daemon-object-gone", "%s: the daemon's own object is not in the table any more" % label)
                    break
                try:
                    d.unregister(own)
                except errors.DaemonError:
                    pass
                except Exception as x:
                    viol("unregister-raises", "%s raised %r" % (label, x))
                    break
                own = None
                if "Pyro.Daemon" not in d.objectsById:
                    viol("daemon-object-gone", "%s: unregister(<the daemon's own object>) removed the reserved id" % label)
                    break
            elif op == "unregister_obj":
                k = s[1]
                if len(ids_of(k)) > 1 or k in murky:
                    continue        # registered under several ids: the statement does not say which one goes
                cur = holder(k)
                try:
                    d.unregister(POOL[k])
                    ok = True
                except errors.DaemonError:
                    ok = cur is None
                    if cur is not None:
                        viol("unregister-refused", "%s: object is registered under %r but unregister raised" % (label, cur))
                        break
                if cur is not None:
                    del model[cur]
                    marked.pop(k, None)
            elif op == "unregister_id":
                rid = real_id(s[1])
                try:
                    d.unregister(rid)
                except Exception as x:
                    viol("unregister-raises", "%s raised %r" % (label, x))
                    break
                if rid in model:
                    del model[rid]
                    flags["byid"] = True
            elif op == "call":
                rid = real_id(s[1])
                with live.proxy(srv.uri(rid), serializer=case["ser"]) as p:
                    try:
                        got = ("ok", p._pyroInvoke("hit", (), {}))
                    except Exception as x:
                        got = ("err", x)
                if rid in model:
                    want = POOL[model[rid]].label
                    if got != ("ok", want):
                        viol("call-reaches-wrong-object", "%s: id %r is registered for %r but the call gave %r" % (label, rid, want, got))
                        break
                else:
                    if got[0] == "ok":
                        viol("call-reaches-unregistered", "%s: id %r is not registered but the call was served by %r" % (label, rid, got[1]))
                        break
            elif op == "registered":
                try:
                    with live.proxy(srv.uri("Pyro.Daemon"), serializer=case["ser"]) as p:
                        got = set(p.registered())
                except Exception as x:
                    viol("daemon-object-gone", "%s: the daemon's own object is not reachable: %r" % (label, x))
                    break
                want = set(model) | {"Pyro.Daemon", "relay"}
                if got != want:
                    viol("registered-list", "%s: daemon reports %r, registered are %r" % (label, sorted(got), sorted(want)))
                    break
            elif op == "daemon_ping":
                try:
                    with live.proxy(srv.uri("Pyro.Daemon"), serializer=case["ser"]) as p:
                        p.ping()
                except Exception as x:
                    viol("daemon-object-gone", "%s: the daemon's own object is not reachable: %r" % (label, x))
                    break
            elif op in ("uri", "proxyfor"):
                k = s[1]
                if k in murky:
                    continue
                cur = holder(k)
                try:
                    r = d.uriFor(POOL[k]) if op == "uri" else d.proxyFor(POOL[k])
                    res = ("ok", r.object if op == "uri" else r._pyroUri.object)
                except errors.DaemonError:
                    res = ("refused", None)
                except Exception as x:
                    res = ("error", x)
                if cur is None and res[0] == "ok":
                    viol("uri-for-unregistered", "%s: object is not registered but got id %r" % (label, res[1]))
                    break
                if cur is not None and not (res[0] == "ok" and res[1] in ids_of(k)):
                    viol("uri-for-registered", "%s: object is registered under %r, got %r" % (label, cur, res))
                    break
            elif op == "give_marshal":
                # ANOTHER client, one that uses the marshal serializer (no auto-proxy support: it gets the object by value or an
                # error - not judged), asks for the same object: that must not change what everybody else gets afterwards
                try:
                    with live.proxy(srv.uri("relay"), serializer="marshal") as pm:
                        pm.give(s[1])
                except Exception:
                    pass
            elif op == "give":
                k = s[1]
                if k in murky:
                    continue
                cur = holder(k)
                got = _outcome(lambda: relay.give(k))
                if cur is not None:
                    if got != ("proxy", POOL[k].label):
                        viol("registered-object-not-proxied", "%s: object registered under %r returned from a method arrived as %r" % (label, cur, got))
                        break
                else:
                    twin = _outcome(lambda: relay.twin(k))
                    if got != twin:
                        how = "after-unregister-by-id" if flags["byid"] else "other"
                        viol("unregistered-object-not-by-value:" + how, "%s: unregistered object arrived as %r, a never-registered twin as %r" % (label, got, twin))
                        break
            elif op == "drop":
                k = s[1]
                cur = holder(k)
                for extra in ids_of(k)[1:] if len(ids_of(k)) > 1 else []:
                    try:
                        d.unregister(extra)
                    except Exception:
                        pass
                    model.pop(extra, None)
                cur = holder(k)
                murky.discard(k)
                if k in foreign:
                    foreign.discard(k)
                    try:
                        L["foreign"].unregister(POOL[k])      # (the other daemon would keep the object alive)
                    except Exception:       # noqa
                        pass
                marked.pop(k, None)
                old_label = POOL[k].label
                POOL[k] = fresh(k)
                gc.collect()
                if cur is not None:
                    if weak.get(cur):
                        del model[cur]
                        flags["weakgc"] = True
                    else:
                        # strongly registered: the daemon keeps it alive; the pool slot now holds a new, unregistered object
                        del model[cur]
                        with live.proxy(srv.uri(cur), serializer=case["ser"]) as p:
                            try:
                                got = ("ok", p._pyroInvoke("hit", (), {}))
                            except Exception as x:
                                got = ("err", x)
                        if got != ("ok", old_label):
                            viol("strongly-registered-object-lost", "%s: the object registered (not weakly) under %r must stay reachable after its owner "
                                 "dropped it, the call gave %r" % (label, cur, got))
                            break
                        # the old object stays registered under cur but is no longer in the pool: unregister it to keep the model simple
                        try:
                            d.unregister(cur)
                        except Exception:
                            pass
        if not V:
            # final consistency
            try:
                with live.proxy(srv.uri("Pyro.Daemon"), serializer=case["ser"]) as p:
                    got = set(p.registered())
            except Exception as x:
                viol("daemon-object-gone", "at the end the daemon's own object is not reachable: %r" % (x,))
                got = None
            want = set(model) | {"Pyro.Daemon", "relay"}
            if got is not None and got != want:
                viol("registered-list", "at the end the daemon reports %r, registered are %r" % (sorted(got), sorted(want)))
    finally:
        try:
            relay._pyroRelease()
        except Exception:
            pass
        for rid in list(d.objectsById):
            if rid not in ("Pyro.Daemon", "relay"):
                try:
                    del d.objectsById[rid]
                except KeyError:
                    pass
        fd = L["foreign"]
        for rid in list(fd.objectsById):
            if rid != "Pyro.Daemon":
                fd.objectsById.pop(rid, None)
        POOL.clear()
        if any(s[0] == "drop" or (s[0] == "register" and s[4]) for s in case["steps"]):
            gc.collect()
        if not keep:
            _teardown()
    return V


def _nontrivial(case):
    trig = False
    for s in case["steps"]:
        if s[0] == "unregister_id" or (s[0] == "register" and (s[3] or s[4])) or s[0] == "drop":
            trig = True
        elif trig and s[0] in ("call", "give"):
            return True
    return False


def _labels(case):
    return sorted(set(["ser:" + case["ser"]] + ["op:" + s[0] for s in case["steps"]] + (["objects-with-live-getstate"] if case.get("livestate") else [])))


CATALOGUE = [
    [["register", 0, "x", False, False], ["foreign_register", 0], ["register", 0, "x", False, False], ["call", "x"], ["registered"]],
    [["register", 1, "x", False, True], ["foreign_register", 1], ["register", 1, "x", False, False], ["foreign_unregister", 1], ["register", 1, "x", False, True], ["call", "x"]],
    [["register", 2, "x", False, False], ["give", 2], ["call", "x"], ["uri", 2], ["give_marshal", 2], ["give", 2], ["unregister_obj", 2], ["give", 2]],
    [["register", 2, None, False, True], ["give", 2], ["call", "gen0"], ["registered"]],
    [["register", 0, "x", False, False], ["give", 0], ["give_marshal", 0], ["give", 0], ["uri", 0], ["call", "x"], ["registered"]],
    [["register", 1, None, False, True], ["give_marshal", 1], ["give", 1], ["call", "gen0"], ["give_marshal", 4], ["register", 4, "y", False, False], ["give_marshal", 4], ["give", 4]],
    [["register", 0, "x", False, True], ["register", 2, "y", False, False], ["unregister_obj", 2], ["give", 0], ["call", "x"], ["give", 2], ["registered"]],
    [["register", 0, "x", False, True], ["register", 2, "y", False, False], ["unregister_id", "y"], ["give", 0], ["uri", 0], ["call", "x"]],
    [["register", 1, "x", False, False], ["register", 3, "y", False, True], ["unregister_id", "y"], ["give", 1], ["give", 3], ["unregister_obj", 1], ["give", 1]],
    [["register", 0, None, False, False], ["register", 2, None, False, True], ["drop", 2], ["give", 0], ["call", "gen0"], ["registered"]],
    [["unregister_daemon_object"], ["daemon_ping"], ["registered"], ["register", 0, "x", False, False], ["call", "x"], ["unregister_daemon_object"], ["registered"]],
    [["register", 0, "x", False, True], ["register", 0, "x", True, False], ["drop", 0], ["call", "x"], ["registered"]],
    [["register", 0, "x", False, False], ["register", 0, "x", True, True], ["give", 0], ["drop", 0], ["call", "x"], ["registered"]],
    [["register", 1, "x", False, True], ["register", 1, "x", True, False], ["give", 1], ["unregister_obj", 1], ["give", 1], ["drop", 1], ["registered"]],
    [["register", 1, "x", False, False], ["give", 1], ["uri", 1], ["proxyfor", 1], ["register", 1, "y", False, False], ["unregister_obj", 1], ["give", 1], ["call", "x"]],
    [["register", 1, None, False, True], ["give", 1], ["uri", 1], ["register", 1, "y", False, True], ["unregister_obj", 1], ["give", 1], ["call", "gen0"]],
    [["register", 0, "x", False, False], ["register", 1, "x", False, False], ["call", "x"], ["registered"]],
    [["register", 0, "x", False, False], ["register", 1, "x", True, False], ["unregister_obj", 0], ["call", "x"], ["registered"], ["uri", 0], ["give", 0], ["give", 1]],
    [["register", 0, "x", False, False], ["register", 1, "x", True, False], ["uri", 0], ["proxyfor", 0], ["give", 0], ["call", "x"]],
    [["register", 0, "x", False, True], ["register", 1, "x", True, False], ["drop", 0], ["call", "x"], ["registered"], ["give", 1]],
    [["register", 0, "x", False, True], ["register", 1, "x", True, True], ["drop", 0], ["call", "x"], ["drop", 1], ["call", "x"], ["registered"]],
    [["register", 0, "x", False, True], ["register", 0, None, False, False], ["register", 0, "y", False, True], ["registered"]],
    [["register", 0, "x", False, False], ["unregister_id", "x"], ["give", 0], ["uri", 0], ["register", 1, "x", False, False], ["give", 0], ["uri", 0], ["unregister_obj", 0], ["call", "x"]],
    [["register", 0, None, False, False], ["unregister_id", "gen0"], ["register", 0, None, False, False], ["call", "gen1"], ["call", "gen0"], ["give", 0]],
    [["unregister_id", "Pyro.Daemon"], ["daemon_ping"], ["registered"], ["register", 0, "Pyro.Daemon", False, False], ["daemon_ping"], ["registered"]],
    [["register", 0, "x", False, True], ["give", 0], ["drop", 0], ["call", "x"], ["registered"], ["register", 1, "x", False, False], ["call", "x"]],
    [["register", 0, "x", False, False], ["unregister_obj", 0], ["unregister_obj", 0], ["give", 0], ["register", 0, "x", False, False], ["call", "x"], ["give", 0]],
    [["register", 0, "", False, False], ["register", 1, "", False, True], ["registered"], ["drop", 1], ["registered"], ["call", "gen0"], ["call", "gen1"]],
    [["register", 4, "x", False, False], ["call", "x"], ["give", 4], ["uri", 4], ["register", 4, None, False, False], ["unregister_id", "x"], ["give", 4], ["call", "x"], ["registered"]],
    [["register", 0, "x", False, False], ["register", 0, "y", True, False], ["register", 1, "x", True, False], ["give", 0], ["uri", 0], ["call", "y"], ["call", "x"], ["registered"]],
    [["register", 0, "x", False, False], ["register", 0, "y", True, False], ["give", 0], ["call", "x"], ["call", "y"], ["unregister_id", "x"], ["give", 0], ["call", "y"], ["registered"]],
    [["register", 4, "x", False, False], ["unregister_instance"], ["call", "x"], ["give", 4], ["registered"], ["unregister_instance"], ["uri", 4]],
    [["register", 4, "x", False, True], ["register", 4, "x", False, False], ["register", 0, "x", True, False], ["give", 4], ["uri", 4], ["unregister_obj", 4], ["call", "x"], ["give", 0]],
]


def SHARDS(tier):
    return [{"servertype": t} for t in ("thread", "multiplex")] * (4 if tier == "quick" else 8)


def run(ctx):
    st_ = ctx.shard.get("servertype", "thread")
    try:
        if ctx.shard.get("index", 0) < 2:
            for ser in ("serpent", "json", "msgpack"):
                for steps in CATALOGUE:
                    for livestate in (False, True):        # (objects whose __getstate__ hands out their live attribute dict)
                        case = {"ser": ser, "steps": steps, "livestate": livestate, "setlike": livestate}
                        ctx.observe(case, run_case(case, st_, keep=True), True, _labels(case) + ["catalogue"])
        ctx.search(case_strategy(), lambda c: run_case(c, st_, keep=True), ctx.n(400, 2500), nontrivial=_nontrivial, labels=_labels,
                   name="registry" + st_, max_rounds=8)
    finally:
        _teardown()
