"""C14 - the name server is a faithful map, identical on both storage back-ends.

One case = a history (list of op dicts).  Three systems run in lock-step:
  (1) a reference model written from the property statement (plain dict name -> (uri text, frozenset of tags)),
  (2) NameServer(MemoryStorage()),
  (3) NameServer(SqlStorage(<file under /var/tmp>)).
After every step the outcome (normalised return value or exception class) of (2) and (3) is compared with the model and
a full listing with metadata of both back-ends is compared with the model's dict.  "reopen" builds a new SqlStorage +
NameServer on the same file.  A mutating op that carries "inject": true is first executed on the sqlite back-end with
"statement k fails" for k = 1, 2, 3, ... until no failure fires any more (that is: for EVERY statement the op issues,
COMMIT included); each failed attempt must raise and must leave the sqlite listing equal to the model before the op.
The attempt in which nothing fails is the real execution of the op.

Failure injection: Pyro5.nameserver.sqlite3 is replaced, in this process only, by a shim module whose connect() passes
factory=<subclass of sqlite3.Connection>; the subclass hands out a Cursor subclass that counts execute() calls, and
counts commit().  Because these are subclasses of the real classes, the `with connect(...) as db:` protocol (commit on
success, rollback on exception) is sqlite3's own.
"""
import os
import re
import shutil
import sqlite3 as _real_sqlite3
import tempfile
import types
import warnings

from hypothesis import strategies as st

from vlib.driver import Violation, HarnessError

PROPERTY = "C14"
LEVEL = "fault_enumeration"
RULE = ("a case = history of 1..40 ops (register safe/unsafe with metadata None/set/list and uri text or URI object, remove by "
        "name/prefix/regex, set_metadata, lookup, list by prefix/regex/nothing, yplookup all/any, count, reopen) over names/tags "
        "from the alphabet {a A b B _ % . * [ \\ e-acute E-acute sharp-s han U+1F600 U+FFFF U+FFFD U+10FFFF} (length 0..4), Pyro.NameServer and look-alikes; names come "
        "from a small per-case pool of base names plus case-swapped / '_' / '%' variants so that they collide; mutating ops "
        "marked inject are executed once per sqlite statement they issue (COMMIT included) with that statement failing. "
        "Part 'enum' enumerates (setup store) x (every shape of mutating op, inject on) x (fixed observers incl. reopen); part "
        "'search' is Hypothesis over histories. Non-trivial: the history has a prefix/regex op on a store that holds two names "
        "differing only in case or a name containing % or _, or a reopen / injected failure after a mutation; distinct = "
        "distinct case JSON")
ASSUMPTIONS = [
    "falsy name/prefix/regex arguments (None, '') mean 'argument absent', as the API treats them; remove()/list() get exactly one selector",
    "the model uses Python's re.match for regex selection, an invalid regex is a NamingError",
    "uris come from a pool of canonical PYRO/PYRONAME uri texts (str(URI(s)) == s), so uri canonicalisation (C19) is not part of this oracle",
    "PRAGMA synchronous=OFF is set on every sqlite connection of the test process (no fsync): durability against power loss is not "
    "examined, transaction semantics are unchanged",
    "an injected failure = the k-th execute()/commit() of the operation raises sqlite3.OperationalError before reaching sqlite, "
    "all other statements run normally; failures while opening the database (SqlStorage.__init__) are not injected",
    "return values are normalised: URI objects by str(), metadata collections as sets, dict order ignored",
]

NS_NAME = "Pyro.NameServer"
ALPHA = "aAbB_%.*[\\\u00e9\u00c9\u00df\u6f22\U0001f600\uffff\ufffd\U0010ffff"      # (incl. characters beyond the BMP and the highest code points)
URIS = ["PYRO:obj@localhost:4444", "PYRO:o2@127.0.0.1:9", "PYRO:x_%@[::1]:55", "PYRONAME:some.name", "PYRO:Pyro.NameServer@localhost:9090",
        "PYRO:\u00e9@./u:/var/tmp/s.sock"]
SPECIAL_NAMES = [NS_NAME, NS_NAME, "pyro.nameserver", "Pyro_NameServer", "Pyro.NameServer2", "Pyro.", "Pyro%", "PYRO.NAMESERVER"]
MUTATING = ("register", "remove", "set_metadata")
BUDGET_S = {"quick": 40, "thorough": 380}      # per search shard; running out ends the search early (reported, never a verdict)
INJECT_LIMIT = 400


# ------------------------------------------------------------------------------------------------
# sqlite3 shim (statement counting / failure injection)
# ------------------------------------------------------------------------------------------------

class _Fault(object):
    def __init__(self):
        self.reset()

    def reset(self):
        self.armed = False
        self.k = 0
        self.count = 0
        self.fired = None     # text of the statement that was failed

    def arm(self, k):
        self.armed = True
        self.k = k
        self.count = 0
        self.fired = None

    def tick(self, sql):
        if self.armed:
            self.count += 1
            if self.count == self.k:
                self.fired = str(sql)
                raise _real_sqlite3.OperationalError("injected failure at statement %d" % self.k)


FAULT = _Fault()


class _Cursor(_real_sqlite3.Cursor):
    def execute(self, sql, *args):
        FAULT.tick(sql)
        if sql[:6].upper() not in _READS:
            self.connection._c14_nosync()
        return super().execute(sql, *args)

    def executemany(self, sql, *args):
        FAULT.tick(sql)
        self.connection._c14_nosync()
        return super().executemany(sql, *args)

    def executescript(self, sql):
        FAULT.tick(sql)
        self.connection._c14_nosync()
        return super().executescript(sql)


_READS = ("SELECT", "PRAGMA")


class _Connection(_real_sqlite3.Connection):
    _c14_sync_off = False

    def _c14_nosync(self):
        # before the first writing statement of a connection (= before its transaction begins): no fsync in the test process.
        # Not counted as a statement of the operation (plain cursor).
        if not self._c14_sync_off:
            self._c14_sync_off = True
            if not self.in_transaction:
                _real_sqlite3.Cursor(self).execute("PRAGMA synchronous=OFF")

    def cursor(self, factory=None):
        return super().cursor(factory or _Cursor)

    # the C shortcuts Connection.execute* create a plain cursor themselves: route them through the counting cursor
    def execute(self, sql, *args):
        return self.cursor().execute(sql, *args)

    def executemany(self, sql, *args):
        return self.cursor().executemany(sql, *args)

    def executescript(self, sql):
        return self.cursor().executescript(sql)

    def commit(self):
        FAULT.tick("COMMIT")
        return super().commit()


def _shim_connect(*args, **kwargs):
    kwargs.setdefault("factory", _Connection)
    return _real_sqlite3.connect(*args, **kwargs)


_SHIM = types.ModuleType("sqlite3_c14_shim")
_SHIM.__dict__.update({k: v for k, v in vars(_real_sqlite3).items() if not k.startswith("__")})
_SHIM.connect = _shim_connect
_SELFTEST = []


def install_shim():
    import Pyro5.nameserver as nsmod
    if nsmod.sqlite3 is not _SHIM:
        nsmod.sqlite3 = _SHIM
    if not _SELFTEST:
        # every path the library uses to run a statement is counted exactly once, and the with-protocol is sqlite3's
        d = tempfile.mkdtemp(prefix="c14_self_", dir="/var/tmp")
        try:
            FAULT.arm(10 ** 9)
            with _SHIM.connect(os.path.join(d, "t.sqlite")) as db:
                db.execute("CREATE TABLE t(x)")
                cur = db.cursor()
                cur.execute("INSERT INTO t VALUES (1)").fetchall()
                cur.close()
                db.commit()
            n = FAULT.count
            FAULT.reset()
            if n != 3:
                raise HarnessError("sqlite shim counts %d statements instead of 3" % n)
            try:
                with _SHIM.connect(os.path.join(d, "t.sqlite")) as db:
                    db.execute("INSERT INTO t VALUES (2)")
                    raise _SHIM.OperationalError("x")
            except _real_sqlite3.DatabaseError:
                pass
            with _SHIM.connect(os.path.join(d, "t.sqlite")) as db:
                if db.execute("SELECT count(*) FROM t").fetchone()[0] != 1:
                    raise HarnessError("sqlite shim: no rollback on exception")
        finally:
            FAULT.reset()
            shutil.rmtree(d, ignore_errors=True)
        _SELFTEST.append(True)


# ------------------------------------------------------------------------------------------------
# reference model (from the property statement, shares nothing with the code under test)
# ------------------------------------------------------------------------------------------------

class Model(object):
    def __init__(self):
        self.d = {}      # name -> (uri text, frozenset of tags)

    def listing(self):
        return dict(self.d)

    def _select(self, by, arg):
        """names selected by a filter; ('exc', ..) for an invalid regex"""
        if by is None or not arg:
            return list(self.d)
        if by == "name":
            return [arg] if arg in self.d else []
        if by == "prefix":
            return [n for n in self.d if n[:len(arg)] == arg]
        if by == "regex":
            try:
                rx = re.compile(arg)
            except re.error:
                return None
            return [n for n in self.d if rx.match(n)]
        raise HarnessError("bad selector %r" % (by,))

    def apply(self, op):
        """-> ('ok', value) | ('exc', class name); mutates the model"""
        kind = op["op"]
        d = self.d
        if kind == "register":
            if op.get("safe") and op["name"] in d:
                return ("exc", "NamingError")
            d[op["name"]] = (op["uri"], frozenset(op["meta"] or ()))
            return ("ok", None)
        if kind == "set_metadata":
            if op["name"] not in d:
                return ("exc", "NamingError")
            d[op["name"]] = (d[op["name"]][0], frozenset(op["meta"] or ()))
            return ("ok", None)
        if kind == "remove":
            if not op["arg"]:
                return ("ok", 0)          # falsy selector = absent = nothing to remove
            sel = self._select(op["by"], op["arg"])
            if sel is None:
                return ("exc", "NamingError")
            victims = [n for n in sel if n != NS_NAME]
            for n in victims:
                del d[n]
            return ("ok", len(victims))
        if kind == "lookup":
            if op["name"] not in d:
                return ("exc", "NamingError")
            uri, tags = d[op["name"]]
            return ("ok", (uri, tags) if op.get("rm") else uri)
        if kind == "list":
            sel = self._select(op.get("by"), op.get("arg"))
            if sel is None:
                return ("exc", "NamingError")
            return ("ok", {n: (d[n] if op.get("rm") else d[n][0]) for n in sel})
        if kind == "yplookup":
            want = frozenset(op["tags"])
            if not op["tags"]:
                sel = []
            elif op["mode"] == "all":
                sel = [n for n in d if want <= d[n][1]]
            else:
                sel = [n for n in d if want & d[n][1]]
            return ("ok", {n: (d[n] if op.get("rm") else d[n][0]) for n in sel})
        if kind == "count":
            return ("ok", len(d))
        raise HarnessError("bad op %r" % (op,))


# ------------------------------------------------------------------------------------------------
# running ops against the real name server
# ------------------------------------------------------------------------------------------------

def norm(v):
    from Pyro5 import core
    if isinstance(v, core.URI):
        return str(v)
    if isinstance(v, (set, frozenset)):
        return frozenset(v)
    if isinstance(v, tuple):
        return tuple(norm(x) for x in v)
    if isinstance(v, list):
        return [norm(x) for x in v]
    if isinstance(v, dict):
        return {k: norm(x) for k, x in v.items()}
    return v


def _meta_arg(op):
    m = op.get("meta")
    if m is None:
        return None
    return set(m) if op.get("meta_set") else list(m)


def call(ns, op):
    """execute one op -> ('ok', normalised value) | ('exc', class name, text)"""
    from Pyro5 import core
    kind = op["op"]
    try:
        if kind == "register":
            uri = core.URI(op["uri"]) if op.get("as_obj") else op["uri"]
            r = ns.register(op["name"], uri, safe=bool(op.get("safe")), metadata=_meta_arg(op))
        elif kind == "set_metadata":
            r = ns.set_metadata(op["name"], _meta_arg(op))
        elif kind == "remove":
            r = ns.remove(**{op["by"]: op["arg"]})
        elif kind == "lookup":
            r = ns.lookup(op["name"], return_metadata=True) if op.get("rm") else ns.lookup(op["name"])
        elif kind == "list":
            kw = {op["by"]: op["arg"]} if op.get("by") else {}
            r = ns.list(return_metadata=bool(op.get("rm")), **kw)
        elif kind == "yplookup":
            tags = set(op["tags"]) if op.get("as_set") else list(op["tags"])
            r = ns.yplookup(**{"meta_" + op["mode"]: tags, "return_metadata": bool(op.get("rm"))})
        elif kind == "count":
            r = ns.count()
        else:
            raise HarnessError("bad op %r" % (op,))
    except HarnessError:
        raise
    except Exception as x:
        return ("exc", type(x).__name__, str(x)[:120])
    return ("ok", norm(r))


def full_listing(ns):
    out = call(ns, {"op": "list", "rm": True})
    return out


def opkind(op):
    k = op["op"]
    if k == "remove":
        return "remove-" + op["by"]
    if k == "list":
        return "list-" + (op.get("by") or "all")
    if k == "yplookup":
        return "yplookup-" + op["mode"]
    return k


def _short(x, n=160):
    s = repr(x)
    return s if len(s) <= n else s[:n] + "..."


def _diff_kind(exp, got):
    if exp[0] == "exc" and got[0] == "ok":
        return "no-exception"
    if exp[0] == "ok" and got[0] == "exc":
        return "raised-" + got[1]
    if exp[0] == "exc":
        return "wrong-exception"
    e, g = exp[1], got[1]
    if isinstance(e, dict) and isinstance(g, dict):
        if set(g) - set(e):
            return "extra-entries"
        if set(e) - set(g):
            return "missing-entries"
        return "wrong-value"
    if isinstance(e, int) and not isinstance(e, bool) and isinstance(g, int):
        return "wrong-count"
    return "wrong-value"


def _same(exp, got):
    if exp[0] != got[0]:
        return False
    if exp[0] == "exc":
        return exp[1] == got[1]
    return _eq(exp[1], got[1])


def _eq(e, g):
    """normalised expected value == normalised observed value (containers compared by kind, never by order)"""
    if e is None:
        return g is None
    if isinstance(e, int):
        return isinstance(g, int) and e == g
    if isinstance(e, str):
        return isinstance(g, str) and e == g
    if isinstance(e, frozenset):
        return isinstance(g, frozenset) and e == g
    if isinstance(e, tuple):
        return isinstance(g, tuple) and len(e) == len(g) and all(_eq(a, b) for a, b in zip(e, g))
    if isinstance(e, dict):
        return isinstance(g, dict) and set(e) == set(g) and all(_eq(e[k], g[k]) for k in e)
    raise HarnessError("unexpected model value %r" % (e,))


def _qual(op, ns=None, exp=None):
    if op["op"] == "yplookup" and len(set(op["tags"])) != len(op["tags"]) and not op.get("as_set") and ns is not None:
        # root cause probe (read-only): is the answer right once the duplicates are taken out of the argument?
        if _same(exp, call(ns, dict(op, tags=list(dict.fromkeys(op["tags"]))))):
            return ":dup-arg"
    if op["op"] in ("list", "remove") and op.get("by") == "regex" and op.get("arg"):
        try:
            with warnings.catch_warnings():
                warnings.simplefilter("ignore")
                re.compile(op["arg"])
        except re.error:
            return ":invalid-regex"
    return ""


def run_case(case):
    from Pyro5.nameserver import NameServer, MemoryStorage, SqlStorage
    install_shim()
    ops = case["ops"]
    V = []
    tmp = tempfile.mkdtemp(prefix="c14_", dir="/var/tmp")
    path = os.path.join(tmp, "ns.sqlite")

    def viol(sig, step, op, what):
        V.append(Violation("C14:" + sig, ("step %d %s: %s" % (step, _short(op, 200), what))[:700]))

    try:
        with warnings.catch_warnings():
            warnings.simplefilter("ignore")
            FAULT.reset()
            model = Model()
            mem = NameServer(MemoryStorage())
            sql = NameServer(SqlStorage(path))
            for step, op in enumerate(ops):
                kind = opkind(op)
                if op["op"] == "reopen":
                    sql = NameServer(SqlStorage(path))
                    got = full_listing(sql)
                    if not _same(("ok", model.listing()), got):
                        viol("sql:reopen:state", step, op, "after reopening the database the listing is %s, the map is %s" % (
                            _short(got), _short(model.listing())))
                        return V
                    continue

                if op.get("inject") and op["op"] in MUTATING:
                    before = model.listing()
                    k = 0
                    while True:
                        k += 1
                        if k > INJECT_LIMIT:
                            raise HarnessError("more than %d statements in one operation: %r" % (INJECT_LIMIT, op))
                        FAULT.arm(k)
                        try:
                            sql_out = call(sql, op)
                        finally:
                            fired = FAULT.fired
                            FAULT.reset()
                        if fired is None:
                            break           # this attempt ran undisturbed: it is the real execution
                        stmt = fired.split()[0].upper() if fired.split() else "?"
                        if sql_out[0] == "ok":
                            viol("sql:fault:%s:swallowed" % kind, step, op,
                                 "statement %d (%s) failed but the operation returned %s" % (k, stmt, _short(sql_out[1])))
                        got = full_listing(sql)
                        if not _same(("ok", before), got):
                            viol("sql:fault:%s:partial-effect" % kind, step, op,
                                 "statement %d (%s) failed, operation ended with %s, but the store changed: %s, before the operation: %s" % (
                                     k, _short(fired, 60), _short(sql_out[1:]), _short(got), _short(before)))
                        if V:
                            return V
                else:
                    sql_out = call(sql, op)
                mem_out = call(mem, op)
                exp = model.apply(op)

                bad = [(b, o) for b, o in (("mem", mem_out), ("sql", sql_out)) if not _same(exp, o)]
                if len(bad) == 2 and bad[0][1][:2] == bad[1][1][:2]:
                    bad = [("both", mem_out)]
                for backend, out in bad:
                    viol("%s:%s%s:%s" % (backend, kind, _qual(op, mem if backend == "mem" else sql, exp), _diff_kind(exp, out)), step, op,
                         "%s back-end answered %s, the map says %s" % (backend, _short(out[1:], 220), _short(exp[1:], 220)))
                if V:
                    return V
                if op["op"] not in MUTATING and step != len(ops) - 1:
                    continue      # the state is compared after every mutating op, after the last op, and at every reopen
                for backend, ns in (("mem", mem), ("sql", sql)):
                    got = full_listing(ns)
                    if not _same(("ok", model.listing()), got):
                        viol("%s:%s%s:state" % (backend, kind, _qual(op)), step, op,
                             "answer was right but afterwards the %s listing is %s, the map is %s" % (
                                 backend, _short(got[1:], 220), _short(model.listing(), 220)))
                if V:
                    return V
            return V
    finally:
        FAULT.reset()
        shutil.rmtree(tmp, ignore_errors=True)


# ------------------------------------------------------------------------------------------------
# features of a history (non-trivial rule, labels) - static simulation on the model
# ------------------------------------------------------------------------------------------------

def _hostile_store(names):
    if any("%" in n or "_" in n for n in names):
        return True
    low = {}
    for n in names:
        low.setdefault(n.lower(), set()).add(n)
    return any(len(v) > 1 for v in low.values())


_FEAT_CACHE = {}


def features(case):
    key = id(case)
    hit = _FEAT_CACHE.get(key)
    if hit is not None and hit[0] is case:
        return hit[1]
    m = Model()
    labels = set()
    nontrivial = False
    mutated = False
    with warnings.catch_warnings():
        warnings.simplefilter("ignore")
        for op in case["ops"]:
            kind = opkind(op)
            labels.add("op:" + kind)
            if op["op"] == "reopen":
                if mutated:
                    nontrivial = True
                    labels.add("reopen-after-mutation")
                continue
            if op["op"] in ("list", "remove") and op.get("by") in ("prefix", "regex") and op.get("arg") and _hostile_store(m.d):
                nontrivial = True
                labels.add("filter-on-hostile-store")
                if op["by"] == "prefix" and any(c in op["arg"] for c in "%_"):
                    labels.add("prefix-with-sql-wildcard")
            if op.get("inject") and op["op"] in MUTATING:
                labels.add("inject:" + kind)
                if mutated:
                    nontrivial = True
                    labels.add("inject-after-mutation")
            if op["op"] == "yplookup" and len(set(op["tags"])) != len(op["tags"]):
                labels.add("yplookup-dup-arg")
            before = dict(m.d)
            out = m.apply(op)
            if out[0] == "exc":
                labels.add("expected-NamingError")
            if m.d != before:
                mutated = True
            if op["op"] == "register" and op["name"] in before and out[0] == "ok":
                labels.add("re-register")
            if NS_NAME in m.d and op["op"] == "remove" and op.get("arg"):
                labels.add("remove-with-ns-entry-present")
    res = (nontrivial, sorted(labels))
    _FEAT_CACHE.clear()
    _FEAT_CACHE[key] = (case, res)
    return res


def _nontrivial(case):
    return features(case)[0]


def _labels(case):
    return features(case)[1]


# ------------------------------------------------------------------------------------------------
# generation: Hypothesis histories
# ------------------------------------------------------------------------------------------------

_name_text = st.text(alphabet=ALPHA, min_size=0, max_size=4)
_base_name = st.one_of(_name_text, _name_text, st.sampled_from(SPECIAL_NAMES))
_tag_text = st.one_of(st.text(alphabet=ALPHA, min_size=0, max_size=2), st.sampled_from(["m", "M", "m_", "m%", "class:x", ""]))

FIXED_REGEX = ["", ".*", ".", "a.", ".a", "[aA]", "(?i)a", "(?i).*b", ".*a", "a$", "a|b", "[", "*", "\\", "(", "a**", ".+", "^", "$", "^$",
               "%", "_", "a_", "a%", "[^a]", "\\w", "\\W+", "\\.", "Pyro\\..*", "Pyro", "(?i)pyro", "\u00e9", "(?i)\u00e9", "(?i)\u00df",
               "[\u00e9\u00c9]", "\\\\", "\\[", "\\*", "a(?i)"]


def _variants(n):
    out = [n.swapcase(), n.lower(), n.upper(), n + "a", n + "_", n + "%", "a" + n]
    if n:
        out += [n[:-1] + "_", n[:-1] + "%", n[:-1], "_" + n[1:], "%" + n[1:], n[:-1] + n[-1].swapcase()]
    return out


# op kinds by weight (index = first integer of the op code; 0 first so that shrinking moves towards plain registers)
_KINDS = (["register"] * 7 + ["remove-name", "remove-prefix", "remove-prefix", "remove-regex", "set_metadata", "set_metadata", "lookup", "lookup",
                             "list-prefix", "list-prefix", "list-regex", "list-all", "yplookup", "yplookup", "count", "reopen", "reopen"])


def _tags_of(code, tags, maxlen):
    """integer -> list of tags (base-5 digits, digit 0 ends the list): duplicates arise naturally, 0 is the empty list"""
    out = []
    while code and len(out) < maxlen:
        d = code % 5
        if d == 0:
            break
        out.append(tags[(d - 1) % len(tags)])
        code //= 5
    return out


def decode_history(raw):
    """plain function of drawn integers/texts -> case; the case holds only literal values, so a replay needs no generator"""
    bases, picks, strays, rawtags, codes = raw
    pool = list(bases)
    for i, p in enumerate(picks):
        v = _variants(bases[i % len(bases)])
        pool.append(v[p % len(v)])
    pool = list(dict.fromkeys(pool))
    names = pool + [s for s in strays if s not in pool]         # strays: names that are looked up / removed but rarely exist
    tags = list(dict.fromkeys(rawtags))
    tags += [t.swapcase() for t in tags[:1] if t.swapcase() != t and t.swapcase() not in tags]
    prefixes = list(dict.fromkeys([n[:j] for n in pool for j in range(0, len(n) + 1)] +
                                  [n[:j].swapcase() for n in pool for j in range(1, len(n) + 1)] +
                                  [v for n in pool[:3] for v in _variants(n)[7:10]]))
    regexes = list(dict.fromkeys(pool + [re.escape(n) for n in pool] + FIXED_REGEX + [re.escape(n) + "$" for n in pool[:3]] +
                                 ["(?i)" + re.escape(n) for n in pool[:3]] + [n + ".*" for n in pool[:3]]))
    ops = []
    for ka, mf in codes:
        k, a = divmod(ka, 256)
        m, f = divmod(mf, 256)
        kind = _KINDS[k]
        inject = (f >> 6) == 0
        rm = bool(f & 1)
        if kind == "register":
            name = pool[a % len(pool)] if a < 224 else names[a % len(names)]
            meta = None if (f >> 1) & 3 == 0 else _tags_of(m, tags, 4)
            ops.append({"op": "register", "name": name, "uri": URIS[(a // 7 + m) % len(URIS)], "as_obj": bool(f & 8), "safe": (f >> 4) & 3 == 0,
                        "meta": meta, "meta_set": bool(f & 1), "inject": inject})
        elif kind == "set_metadata":
            ops.append({"op": "set_metadata", "name": names[a % len(names)], "meta": _tags_of(m, tags, 4), "meta_set": bool(f & 1), "inject": inject})
        elif kind == "remove-name":
            ops.append({"op": "remove", "by": "name", "arg": names[a % len(names)], "inject": inject})
        elif kind == "remove-prefix":
            ops.append({"op": "remove", "by": "prefix", "arg": prefixes[a % len(prefixes)], "inject": inject})
        elif kind == "remove-regex":
            ops.append({"op": "remove", "by": "regex", "arg": regexes[a % len(regexes)], "inject": inject})
        elif kind == "lookup":
            ops.append({"op": "lookup", "name": names[a % len(names)], "rm": rm})
        elif kind == "list-prefix":
            ops.append({"op": "list", "by": "prefix", "arg": prefixes[a % len(prefixes)], "rm": rm})
        elif kind == "list-regex":
            ops.append({"op": "list", "by": "regex", "arg": regexes[a % len(regexes)], "rm": rm})
        elif kind == "list-all":
            ops.append({"op": "list", "by": None, "arg": None, "rm": rm})
        elif kind == "yplookup":
            ops.append({"op": "yplookup", "mode": "any" if f & 2 else "all", "tags": _tags_of(m, tags, 3), "as_set": (f >> 2) % 3 == 0, "rm": rm})
        else:
            ops.append({"op": kind})
    return {"ops": ops}


def histories(max_steps=30):
    code = st.tuples(st.integers(0, len(_KINDS) * 256 - 1), st.integers(0, 625 * 256 - 1))     # (kind, name index), (tag list, flags)
    return st.tuples(st.lists(_base_name, min_size=1, max_size=3),
                     st.lists(st.integers(0, 12), min_size=1, max_size=4),
                     st.lists(_base_name, max_size=2),
                     st.lists(_tag_text, min_size=1, max_size=4),
                     st.lists(code, min_size=max(1, max_steps // 3), max_size=max_steps)).map(decode_history)


# ------------------------------------------------------------------------------------------------
# generation: deterministic enumeration  (setup store) x (one mutating op, every failure point) x (observers)
# ------------------------------------------------------------------------------------------------

def _reg(name, meta=None, uri=0, safe=False, as_obj=False, meta_set=False, inject=False):
    return {"op": "register", "name": name, "uri": URIS[uri], "as_obj": as_obj, "safe": safe, "meta": meta, "meta_set": meta_set, "inject": inject}


ENUM_SETUPS = {
    "empty": [],
    "hostile": [_reg("a", ["m"]), _reg("A", ["m", "M"], 1), _reg("a_", None, 2), _reg("a%", ["%"], 1), _reg("ab", ["_", "m"]),
                _reg("Abc", ["m", "n", "o"], 3), _reg("axc", []), _reg(NS_NAME, ["class:ns"], 4), _reg("", ["m"], 1),
                _reg("\u00e9\u00df", ["\u00e9"], 5), _reg("\u00c9\u00df", ["\u00c9", "m"], 2), _reg("\u6f22a", ["m"], 2)],
    # the highest row id belongs to an entry with tags (id reuse after delete exposes stale metadata rows)
    "idreuse": [_reg("b", None, 1), _reg(NS_NAME, ["class:ns"], 4), _reg("a", ["m", "n"], 0), {"op": "remove", "by": "name", "arg": "b", "inject": False},
                _reg("B", ["M"], 2), _reg("top", ["t1", "t2", "m"], 3)],
}
ENUM_OBSERVERS = [
    {"op": "reopen"},
    {"op": "list", "by": "prefix", "arg": "a_", "rm": True},
    {"op": "list", "by": "prefix", "arg": "A", "rm": False},
    {"op": "list", "by": "prefix", "arg": "\u00e9", "rm": True},
    {"op": "list", "by": "regex", "arg": "(?i)a.", "rm": True},
    {"op": "yplookup", "mode": "all", "tags": ["m", "m"], "as_set": False, "rm": True},
    {"op": "yplookup", "mode": "all", "tags": ["m", "M"], "as_set": True, "rm": False},
    {"op": "yplookup", "mode": "any", "tags": ["M", "%", "%"], "as_set": False, "rm": True},
    {"op": "count"},
    _reg("zz", None, 1),
    {"op": "lookup", "name": "zz", "rm": True},
    {"op": "lookup", "name": NS_NAME, "rm": True},
    {"op": "count"},
]


ENUM_QUERIES = [o for o in ENUM_OBSERVERS if o["op"] in ("list", "yplookup", "count")] + [
    {"op": "yplookup", "mode": "all", "tags": ["m"], "as_set": False, "rm": False},
    {"op": "yplookup", "mode": "any", "tags": ["m", "n"], "as_set": True, "rm": True},
    {"op": "lookup", "name": "a", "rm": True}, {"op": "lookup", "name": "top", "rm": False}]
ENUM_OBSERVERS = ENUM_OBSERVERS + ENUM_QUERIES[-4:]


def enum_probes():
    names = ["a", "A", "a_", "ab", "axc", "top", NS_NAME, "", "new", "\u00c9\u00df", "\u00e9"]
    metas = [(None, False), ([], False), (["m"], False), (["m", "m", "n"], False), (["M", "m", "x"], True)]
    for n in names:
        for safe in (False, True):
            for i, (meta, as_set) in enumerate(metas):
                yield _reg(n, meta, uri=(i + len(n)) % len(URIS), safe=safe, as_obj=(i % 2 == 1), meta_set=as_set, inject=True)
    for n in ["a", "a_", "axc", "top", NS_NAME, "", "unknown", "A"]:
        for meta, as_set in ([], False), (["x"], False), (["m", "m"], False), (["a", "b", "c"], True):
            yield {"op": "set_metadata", "name": n, "meta": meta, "meta_set": as_set, "inject": True}
    for n in names + ["unknown", "Pyro.nameserver", "a%"]:
        yield {"op": "remove", "by": "name", "arg": n, "inject": True}
    for p in ["a", "A", "a_", "a%", "_", "%", "P", "p", NS_NAME, "Pyro.", "", "\u00e9", "\u00c9", "ab", "to", "t", "b", "a\\", "zzz"]:
        yield {"op": "remove", "by": "prefix", "arg": p, "inject": True}
    for r in ["a", "a.", ".*", ".", "(?i)a", "[", "*", "a_", "%", "Pyro.*", "Pyro\\.NameServer$", "", "^$", "(?i)\u00e9", "[tb]", "x|.+c", "\\",
              # literal beginnings whose last character is optional / repeated / part of an alternative
              "ab?", "ab*", "ab?c", "axc?", "a_?", "ax{0,1}c", "ab{,2}", "to?p", "top|a", "a(b|x)c?", "(a|A)b", "a+", "a\\w*", "Ab?c", "axc$", "a.?c", "[a]b?"]:
        yield {"op": "remove", "by": "regex", "arg": r, "inject": True}
    for r in ["ab?", "ab*c", "axc?", "to?p", "a(b|x)c?", "a.?c", "A?b", "(?i)a?b"]:
        yield {"op": "list", "by": "regex", "arg": r, "rm": True}


def enum_cases():
    for sname in sorted(ENUM_SETUPS):
        for probe in enum_probes():
            # the queries are asked once BEFORE the mutating probe as well (a back-end may remember answers: they must not survive the change)
            yield {"ops": list(ENUM_SETUPS[sname]) + ENUM_QUERIES + [probe] + ENUM_OBSERVERS, "enum": sname}


# ------------------------------------------------------------------------------------------------

def SHARDS(tier):
    nenum = 3
    enum = [{"part": "enum", "slice": i, "of": nenum} for i in range(nenum)]
    if tier == "quick":
        return enum + [{"part": "search", "steps": (10, 14, 18, 24)[i % 4]} for i in range(13)]
    return enum + [{"part": "search", "steps": (10, 12, 14, 16, 18, 20, 24, 30)[i % 8]} for i in range(29)]


def run(ctx):
    part = ctx.shard.get("part", "search")
    if part == "enum":
        sl, of = ctx.shard.get("slice", 0), ctx.shard.get("of", 1)
        n = 0
        for i, case in enumerate(enum_cases()):
            if i % of != sl:
                continue
            ctx.observe(case, run_case(case), _nontrivial(case), _labels(case) + ["part:enum"])
            n += 1
        ctx.notes["enumerated_cases"] = n
    else:
        steps = ctx.shard.get("steps", 24)
        ctx.search(histories(steps), run_case, ctx.n(5600, 60000) // steps, nontrivial=_nontrivial, labels=_labels, name="nsmap", max_rounds=8)
