"""C04 - deserialisation builds only data and a fixed set of known classes.

Hostile payload trees (class-tagged dicts at any depth, tags from a hostile grammar, hostile args/attributes/state) are
encoded DIRECTLY with serpent / json / marshal / msgpack (never through Pyro's class_to_dict) and decoded through loads()
and loadsCall().  Oracles:
 (1) the outcome is an exception, or a value whose reachable object graph contains only plain data and instances of the
     closed class set;
 (2) every instance in the result is explained by an input tag that an independently written predicate allows;
 (3) a tagged dict with a tag that is NOT allowed (in particular any tag containing '__'), sitting at a position where
     classes are recreated, makes the decode raise;
 (4) sys.addaudithook sees no import of a new module, exec, compile (other than serpent's own parser), open, socket,
     process or ctypes event during decoding; canary module/class stay untouched.
"""
import builtins
import datetime
import decimal
import struct
import sys
import threading
import uuid

from hypothesis import strategies as st

from vlib.driver import Violation

PROPERTY = "C04"
LEVEL = "exploration"
RULE = ("a case = (serializer, decode path loads|call-args|call-kwargs|call-object, payload tree). Trees are drawn recursively "
        "(depth<=4): plain leaves, lists/tuples/dicts, and class-tagged dicts whose tag comes from a grammar of documented good "
        "tags, builtins.*/exceptions.* for every builtin name, dotted paths into os/subprocess/sys/Pyro5 internals, canary "
        "module/class, dunder names, bytes and non-string tags, with __exception__ true/false/absent and hostile "
        "args/attributes/state/exception members. Non-trivial: the tree holds a class tag below the root or a tag outside the "
        "documented good list; distinct = distinct case JSON")
ASSUMPTIONS = ["no dict-to-class converter is registered by the application in this process",
               "raw mutated bytes are never fed to marshal.loads (CPython documents it as unsafe against crafted data)",
               "the independent tag predicate below is the reading of the statement's closed set"]

# ------------------------------------------------------------------------------------------------
# audit hook (installed once per process, armed per decode, per thread)
# ------------------------------------------------------------------------------------------------
_state = threading.local()
_hook_installed = False
ALLOWED_IMPORT_PREFIX = ("sqlite3", "_sqlite3")
BAD_PREFIX = ("exec", "open", "sqlite3.connect", "os.", "subprocess.", "socket.", "ctypes.", "pty.", "shutil.", "pickle.", "code.__new__",
              "function.__new__", "builtins.input", "webbrowser.", "urllib.", "http.", "ftplib.", "smtplib.", "mmap.",
              "tempfile.", "glob.", "fcntl.", "resource.", "signal.", "syslog.", "winreg.", "msvcrt.", "sys.settrace",
              "sys.setprofile", "cpython.run", "marshal.load", "array.__new__", "gc.")


def _audit(event, args):
    ev = getattr(_state, "events", None)
    if ev is None:
        return
    if event == "import":
        name = args[0]
        if name in sys.modules or name.split(".")[0] in ALLOWED_IMPORT_PREFIX:
            return
        ev.append("import:%s" % (name,))
    elif event == "compile":
        fn = args[1] if len(args) > 1 else None
        src = args[0]
        want = getattr(_state, "serpent_src", None)
        if want is not None and fn in ("<serpent>", "<unknown>"):
            # serpent's own parser: ast.literal_eval / ast.parse of exactly the payload text (never executed: an
            # execution would raise an 'exec' event, which is flagged)
            if isinstance(src, bytes):
                src = src.decode("utf-8", "replace")
            if isinstance(src, str) and src.strip(" \t") == want.strip(" \t"):
                return
        ev.append("compile:%r" % (fn,))
    elif event == "marshal.loads":
        if getattr(_state, "marshal_ok", False):
            return
        ev.append(event)
    elif event.startswith(BAD_PREFIX):
        ev.append(event)
        # do not let a (mutated) decoder actually run processes / open files / fork inside the harness
        raise RuntimeError("blocked by the verification audit hook: " + event)


def install_hook():
    global _hook_installed
    if not _hook_installed:
        import sqlite3  # noqa  (part of the closed set: load it before arming)
        import Pyro5.api, Pyro5.core, Pyro5.client, Pyro5.server, Pyro5.nameserver  # noqa  Pyro's own modules are not "application modules"
        sys.addaudithook(_audit)
        _hook_installed = True


TIMEOUTS = [0]


class Canary(object):
    created = 0

    def __init__(self, *a, **k):
        Canary.created += 1


CANARY_MODULE = "vlib.canary_mod"      # exists on disk, is never imported by the harness

# ------------------------------------------------------------------------------------------------
# tags
# ------------------------------------------------------------------------------------------------
BUILTIN_NAMES = sorted(n for n in vars(builtins) if not n.startswith("_"))
BUILTIN_EXC = {n: t for n, t in vars(builtins).items() if isinstance(t, type) and issubclass(t, BaseException)}

GOOD_FIXED = ["Pyro5.core.URI", "Pyro5.client.Proxy", "Pyro5.server.Daemon", "Pyro5.util.SerpentSerializer",
              "Pyro5.util.MarshalSerializer", "Pyro5.util.JsonSerializer", "Pyro5.util.MsgpackSerializer",
              "Pyro5.core._ExceptionWrapper", "struct.error", "float"]
PYRO_ERR_NAMES = ["PyroError", "CommunicationError", "ConnectionClosedError", "TimeoutError", "ProtocolError",
                  "MessageTooLargeError", "NamingError", "DaemonError", "SecurityError", "SerializeError"]
EVIL = ["os.system", "os.popen", "posix.system", "subprocess.Popen", "subprocess.call", "sys.exit", "sys.modules", "builtins.eval",
        "builtins.exec", "builtins.open", "builtins.compile", "builtins.type", "builtins.object", "builtins.int", "builtins.getattr",
        "builtins.print", "builtins.input", "builtins.breakpoint", "builtins.memoryview", "exceptions.eval", "exceptions.open",
        "eval", "open", "exec", "type", "object", "Exception.mro", "builtins.Exception.mro", "builtins.BaseException.with_traceback",
        "Pyro5.errors.sys", "Pyro5.errors.config", "Pyro5.errors.traceback", "Pyro5.errors.linecache", "Pyro5.errors.get_pyro_traceback",
        "Pyro5.errors.format_traceback", "Pyro5.errors.excepthook", "Pyro5.errors.PyroError.args", "Pyro5.errors.", "Pyro5.errors",
        "Pyro5.core.URI.x", "Pyro5.core.resolve", "Pyro5.core.locate_ns", "Pyro5.client.SerializedBlob", "Pyro5.client.BatchProxy",
        "Pyro5.client._RemoteMethod", "Pyro5.server.DaemonObject", "Pyro5.server.expose", "Pyro5.server._OnewayCallThread",
        "Pyro5.nameserver.NameServer", "Pyro5.nameserver.SqlStorage", "Pyro5.socketutil.SocketConnection", "Pyro5.socketutil.create_socket",
        "Pyro5.utils.echoserver.EchoServer", "Pyro5.utils.httpgateway.main", "Pyro5.util.PickleSerializer", "Pyro5.util.", "Pyro5.util.x",
        "Pyro5.serializers.SerializerBase", "Pyro5.callcontext.current_context", "Pyro5.configure.Configuration",
        "sqlite3.connect", "sqlite3.Connection", "sqlite3.Row", "sqlite3.enable_callback_tracebacks", "sqlite3.XError", "sqlite3.dbapi2.Error",
        "struct.Struct", "struct.pack", "struct.error.x", "threading.Thread", "socket.socket", "ctypes.CDLL", "pickle.loads",
        "importlib.import_module", "shutil.rmtree", "pathlib.Path", "code.InteractiveConsole", "pty.spawn", "webbrowser.open",
        "checks.c04_deser.Canary", "c04_deser.Canary", CANARY_MODULE + ".Canary", CANARY_MODULE, "__main__.Canary", "uuid.UUID",
        "decimal.Decimal", "datetime.datetime", "collections.OrderedDict", "array.array", "set", "dict", "list", "tuple", "int", "str",
        "", ".", "..", "a.b", "builtins.", ".ValueError", "builtins..ValueError", "exceptions", "builtins", "ValueError.", " ValueError",
        "valueerror", "BUILTINS.ValueError", "builtins.valueerror", "<unknown>", "Pyro5.core.uri", "pyro5.core.URI", "Pyro5.core.URI ",
        "Pyro5.errors.pyroerror", "Pyro5.Errors.PyroError"]
DUNDER = ["builtins.__import__", "__builtin__.eval", "builtins.__build_class__", "builtins.__loader__", "builtins.__dict__", "a__b", "__", "____",
          "Pyro5.errors.__dict__", "Pyro5.errors.__builtins__", "Pyro5.errors.PyroError.__subclasses__", "Pyro5.errors.__loader__",
          "Pyro5.core.__dict__", "builtins.ValueError.__class__", "ValueError.__init__", "exceptions.__import__", "sqlite3.__Error",
          "builtins.__debug__", "__main__.X", "__main__", "Pyro5.util.__SerpentSerializer", "struct.__error", "Pyro5.client.__Proxy",
          "builtins.Value__Error", "Pyro5.errors.Pyro__Error", "__class__", "float__"]

good_tags = st.one_of(
    st.sampled_from(GOOD_FIXED),
    st.sampled_from(PYRO_ERR_NAMES).map(lambda n: "Pyro5.errors." + n),
    st.sampled_from(PYRO_ERR_NAMES),
    st.tuples(st.sampled_from(sorted(BUILTIN_EXC)), st.sampled_from(["", "builtins.", "exceptions."])).map(lambda t: t[1] + t[0]),
    st.sampled_from(["sqlite3.Error", "sqlite3.OperationalError", "sqlite3.DatabaseError", "sqlite3.IntegrityError", "sqlite3.ProgrammingError",
                     "sqlite3.InterfaceError", "sqlite3.NotSupportedError", "sqlite3.DataError", "sqlite3.InternalError"]),
)
evil_tags = st.one_of(
    st.sampled_from(EVIL), st.sampled_from(DUNDER),
    st.tuples(st.sampled_from(BUILTIN_NAMES), st.sampled_from(["", "builtins.", "exceptions."])).map(lambda t: t[1] + t[0]),
    st.tuples(st.sampled_from(["os", "sys", "subprocess", "posix", "Pyro5.errors", "Pyro5.core", "Pyro5.server", "Pyro5.client", "Pyro5.util", "sqlite3",
                     "struct", "builtins", "exceptions", CANARY_MODULE]),
              st.sampled_from(["system", "Popen", "exit", "eval", "Error", "error", "URI", "Proxy", "Daemon", "PyroError", "Canary",
                               "path", "environ", "modules", "connect", "x", "", "__dict__", "_ExceptionWrapper", "SerpentSerializer"])).map(lambda t: t[0] + "." + t[1]),
    st.text(alphabet="abE._", min_size=0, max_size=8),
)
tags = st.one_of(good_tags, evil_tags, evil_tags)


def _tagvalue(draw, tag, allow_bytes):
    kind = draw(st.integers(0, 19))
    if kind == 0 and allow_bytes:
        return tag.encode("utf-8")
    if kind == 1:
        return draw(st.sampled_from([5, None, True, 1.5, ["builtins.ValueError"], {"a": 1}]))
    if kind == 2 and allow_bytes:
        return draw(st.sampled_from([b"\xff\xfe", b"builtins.ValueError\x00", b"builtins.eval", b"os.system"]))
    return tag


plain_leaf = st.one_of(st.none(), st.booleans(), st.integers(-5, 5), st.sampled_from([2**70, -2**64]), st.floats(allow_nan=False),
                       st.text(max_size=6), st.sampled_from(["PYRO:obj@localhost:5555", "PYRONAME:x", "ls", "__class__", "os.system"]))


@st.composite
def tagged(draw, child, allow_bytes):
    tag = draw(tags)
    d = {"__class__": _tagvalue(draw, tag, allow_bytes)}
    ex = draw(st.sampled_from(["absent", True, True, False, 1, 0, "yes", None]))
    if ex != "absent":
        d["__exception__"] = ex
    if draw(st.integers(0, 4)) != 0:
        d["args"] = draw(st.one_of(st.lists(child, max_size=3), st.lists(child, max_size=3).map(tuple), child,
                                   st.sampled_from([None, 5, "abc", {"a": 1}])))
    if draw(st.booleans()):
        d["attributes"] = draw(st.one_of(
            st.dictionaries(st.sampled_from(["x", "args", "__class__", "__dict__", "__traceback__", "__cause__", "_pyroTraceback", "__reduce__",
                                             "__setstate__", "with_traceback", "", "a b", "errno", "__init__", "__class__.__name__"]), child, max_size=3),
            st.sampled_from([None, 5, "abc", [1, 2]]), child))
    if draw(st.booleans()):
        d["state"] = draw(st.one_of(
            st.just(("PYRO", "obj", None, "localhost", 5555)), st.just(["PYRO", "obj", None, "localhost", 5555]),
            st.just(("PYRO:obj@localhost:5555", (), ("m",), (), "hello", None)),
            st.just(["PYRO:obj@localhost:5555", [], ["m"], [], "hello", None]), st.just(()), st.just([]),
            st.lists(child, max_size=6), st.lists(child, max_size=6).map(tuple), child,
            st.sampled_from([None, 5, "PYRO:obj@h:1", {"a": 1}, ("PYROMETA", 5, None, None, None), ("PYRONAME:x", 5, 6, 7, {"__class__": "os.system"}, "serpent")])))
    if draw(st.integers(0, 3)) == 0:
        d["exception"] = draw(child)
    if draw(st.integers(0, 5)) == 0 or tag == "float":
        d["value"] = draw(st.sampled_from(["nan", "inf", "1.5", "__import__('os')", "__import__('os').getcwd()", "(1).__class__", 5, None, [1]]))
    if draw(st.integers(0, 5)) == 0:
        d[draw(st.sampled_from(["x", "__dict__", "__init__", "daemon", "sock"]))] = draw(child)
    return d


def tree(allow_bytes):
    leaf = plain_leaf if not allow_bytes else st.one_of(plain_leaf, st.binary(max_size=4))
    return st.recursive(
        leaf,
        lambda ch: st.one_of(st.lists(ch, max_size=3), st.lists(ch, max_size=3).map(tuple),
                             st.dictionaries(st.text(alphabet="ab_", max_size=3), ch, max_size=3),
                             tagged(ch, allow_bytes), tagged(ch, allow_bytes)),
        max_leaves=12)


@st.composite
def case_strategy(draw):
    ser = draw(st.sampled_from(["serpent", "json", "marshal", "msgpack"]))
    path = draw(st.sampled_from(["loads", "loads", "call-args", "call-kwargs", "call-object"]))
    t = draw(tree(allow_bytes=ser in ("marshal", "msgpack")))
    if draw(st.integers(0, 2)) == 0 and not (isinstance(t, dict) and "__class__" in t):
        t = draw(tagged(tree(ser in ("marshal", "msgpack")), ser in ("marshal", "msgpack")))
    case = {"ser": ser, "path": path, "tree": t}
    if ser in ("serpent", "json") and draw(st.integers(0, 3)) == 0:
        case["spell"] = "escaped"
    return case


# ------------------------------------------------------------------------------------------------
# independent reading of the closed set
# ------------------------------------------------------------------------------------------------

def allowed_class(tag, d, ser):
    """-> the class an instance may be built from for this tagged dict, 'float' for serpent's float marker, or None"""
    import sqlite3
    from Pyro5 import core, client, server, serializers, errors
    if isinstance(tag, bytes):
        try:
            tag = tag.decode("utf-8")
        except UnicodeDecodeError:
            return None
    if not isinstance(tag, str) or "__" in tag:
        return None
    if tag == "float":
        return "float" if ser == "serpent" else None
    fixed = {"Pyro5.core.URI": core.URI, "Pyro5.client.Proxy": client.Proxy, "Pyro5.server.Daemon": server.Daemon,
             "Pyro5.util.SerpentSerializer": serializers.SerpentSerializer, "Pyro5.util.MarshalSerializer": serializers.MarshalSerializer,
             "Pyro5.util.JsonSerializer": serializers.JsonSerializer, "Pyro5.util.MsgpackSerializer": serializers.MsgpackSerializer,
             "Pyro5.core._ExceptionWrapper": core._ExceptionWrapper, "struct.error": struct.error}
    if tag in fixed:
        return fixed[tag]
    pyro_err = {n: getattr(errors, n) for n in PYRO_ERR_NAMES}
    if tag.startswith("Pyro5.errors."):
        return pyro_err.get(tag[len("Pyro5.errors."):])
    try:
        flagged = bool(d.get("__exception__", False))
    except Exception:
        flagged = False
    if flagged:
        if tag in pyro_err:
            return pyro_err[tag]
        if tag in BUILTIN_EXC:
            return BUILTIN_EXC[tag]
        ns, dot, short = tag.partition(".")
        if dot and ns in ("builtins", "exceptions") and short in BUILTIN_EXC:
            return BUILTIN_EXC[short]
        if dot and ns == "sqlite3" and short.endswith("Error"):
            t = getattr(sqlite3, short, None)
            if isinstance(t, type) and issubclass(t, BaseException):
                return t
    return None


PLAIN = (type(None), bool, int, float, complex, str, bytes, bytearray, datetime.datetime, datetime.date, decimal.Decimal, uuid.UUID)


def _nested_proxy_inside_tagged(tree, inside=False):
    if isinstance(tree, dict):
        tagged = "__class__" in tree
        if tagged and inside and tree.get("__class__") in ("Pyro5.client.Proxy", b"Pyro5.client.Proxy"):
            return True
        return any(_nested_proxy_inside_tagged(v, inside or tagged) for k, v in tree.items() if k != "__class__")
    if isinstance(tree, (list, tuple)):
        return any(_nested_proxy_inside_tagged(v, inside) for v in tree)
    return False


def closed_set_ok(obj):
    import sqlite3
    from Pyro5 import core, client, server, serializers
    if isinstance(obj, (core.URI, client.Proxy, server.Daemon, core._ExceptionWrapper)) and type(obj) in (
            core.URI, client.Proxy, server.Daemon, core._ExceptionWrapper):
        return True
    if type(obj) in (serializers.SerpentSerializer, serializers.MarshalSerializer, serializers.JsonSerializer, serializers.MsgpackSerializer):
        return True
    if isinstance(obj, BaseException):
        mod = type(obj).__module__
        return mod in ("builtins", "Pyro5.errors", "sqlite3", "struct", "_struct")
    return False


def walk_result(obj, seen, bad, inst, depth=0):
    """collect instances of non-plain types; report anything outside plain data + closed set"""
    if id(obj) in seen or depth > 60:
        return
    seen.add(id(obj))
    t = type(obj)
    if t in PLAIN:
        return
    if t in (list, tuple, set, frozenset):
        for x in obj:
            walk_result(x, seen, bad, inst, depth + 1)
        return
    if t is dict:
        for k, x in obj.items():
            walk_result(k, seen, bad, inst, depth + 1)
            walk_result(x, seen, bad, inst, depth + 1)
        return
    if t.__module__.startswith("msgpack") and t.__name__ == "Timestamp":
        return
    if closed_set_ok(obj):
        inst.append(obj)
        try:
            d = vars(obj)
        except TypeError:
            d = {}
        for k, x in list(d.items()):
            walk_result(x, seen, bad, inst, depth + 1)
        if isinstance(obj, BaseException):
            walk_result(obj.args, seen, bad, inst, depth + 1)
        for slot in ("protocol", "object", "sockname", "host", "port", "exception"):
            if slot in getattr(t, "__slots__", ()):
                walk_result(getattr(obj, slot, None), seen, bad, inst, depth + 1)
        return
    bad.append("%s.%s" % (t.__module__, t.__qualname__))


def input_tags(tree, out, ser, top=True, recreate_pos=True):
    """collect (tag, dict, at_recreation_position) for all tagged dicts of the input"""
    t = type(tree)
    if t in (list, tuple):
        for x in tree:
            input_tags(x, out, ser, False, recreate_pos)
    elif t is dict:
        if "__class__" in tree:
            out.append((tree["__class__"], tree, recreate_pos))
            for k, x in tree.items():
                if k == "__class__":
                    continue
                # msgpack's object_hook is bottom-up: everything is a recreation position there.
                # The others do not look inside a tagged dict, except for the wrapper's 'exception' member.
                inner = recreate_pos and (ser == "msgpack" or (k == "exception" and tree["__class__"] in ("Pyro5.core._ExceptionWrapper", b"Pyro5.core._ExceptionWrapper")
                                                                and isinstance(x, dict) and "__class__" in x))
                input_tags(x, out, ser, False, inner)
        else:
            for x in tree.values():
                input_tags(x, out, ser, False, recreate_pos)


# ------------------------------------------------------------------------------------------------
# encoders (direct use of the underlying libraries)
# ------------------------------------------------------------------------------------------------

def jsonable(t):
    if isinstance(t, (list, tuple)):
        return [jsonable(x) for x in t]
    if isinstance(t, dict):
        return {(k if isinstance(k, str) else str(k)): jsonable(x) for k, x in t.items()}
    if isinstance(t, (bytes, bytearray)):
        return bytes(t).decode("latin-1")
    return t


def msgpackable(t):
    if isinstance(t, (list, tuple)):
        return [msgpackable(x) for x in t]
    if isinstance(t, dict):
        if set(t) == {"$ext"}:
            # a hand-written msgpack extension item: [code, text of the body]
            import msgpack
            return msgpack.ExtType(int(t["$ext"][0]) % 128, str(t["$ext"][1]).encode("utf-8"))
        return {k: msgpackable(x) for k, x in t.items()}
    if isinstance(t, int) and not isinstance(t, bool) and not -2**63 <= t < 2**64:
        import msgpack
        return msgpack.ExtType(0x31, str(t).encode())
    return t


def _marshal_objects(t):
    """marshal can carry more than data: placeholders in the tree become a code object / a class object before encoding"""
    if t == "$CODE":
        return compile("__import__('os').getcwd()", "<c04>", "eval")
    if t == "$STOPITER":
        return StopIteration
    if type(t) in (list, tuple):
        return type(t)(_marshal_objects(x) for x in t)
    if type(t) is dict:
        return {k: _marshal_objects(v) for k, v in t.items()}
    return t


def _hashcons(t, table):
    """equal list/dict sub-structures become one and the same object (marshal then encodes them as references)"""
    if type(t) in (list, tuple):
        new = type(t)(_hashcons(x, table) for x in t)
    elif type(t) is dict:
        new = {k: _hashcons(v, table) for k, v in t.items()}
    else:
        return t
    if type(new) is tuple:
        return new
    return table.setdefault(repr(new), new)


def encode(case):
    import json
    import marshal
    import serpent
    import msgpack
    ser, path, t = case["ser"], case["path"], case["tree"]
    if path == "loads":
        shaped = t
    elif path == "call-args":
        shaped = ("obj", "meth", [t, 1], {"k": 2})
    elif path == "call-kwargs":
        shaped = ("obj", "meth", [], {"k": t}) if not (isinstance(t, dict) and len(str(t)) % 2) else ("obj", "meth", [], t)
    else:
        shaped = (t, t, [], {})
    if case.get("shared"):
        shaped = _hashcons(shaped, {})
    if case.get("marshal_objects") and ser == "marshal":
        shaped = _marshal_objects(shaped)
    if ser == "json":
        if path != "loads":
            shaped = {"object": shaped[0], "method": shaped[1], "params": shaped[2], "kwargs": shaped[3]}
        data = json.dumps(jsonable(shaped)).encode("utf-8")
        if case.get("spell") == "escaped":
            # the same JSON text with the tag key written with an escape: decodes to the very same tree
            data = data.replace(b'"__class__"', b'"\\u005f_class__"').replace(b'"__exception__"', b'"__\\u0065xception__"')
        return data, jsonable(shaped)
    if ser == "serpent":
        data = serpent.dumps(shaped)
        if case.get("spell") == "escaped":
            # the same Python literal with the tag key written with an escape: evaluates to the very same tree
            data = data.replace(b"'__class__'", b"'\\x5f_class__'").replace(b"'__exception__'", b"'__\\x65xception__'")
        return data, shaped
    if ser == "marshal":
        return marshal.dumps(shaped), shaped
    return msgpack.packb(msgpackable(shaped), use_bin_type=True), shaped


REG_ROUTES = ["base", "api", "class:serpent", "class:json", "class:marshal", "class:msgpack", "instance:serpent", "instance:json", "instance:marshal", "instance:msgpack"]
REG_CALLS = []


def _route(name):
    """the object through which the application reaches register_dict_to_class / unregister_dict_to_class"""
    import Pyro5.api
    from Pyro5 import serializers
    if name == "base":
        return serializers.SerializerBase
    if name == "api":
        return Pyro5.api
    kind, ser = name.split(":")
    inst = serializers.serializers[ser]
    return type(inst) if kind == "class" else inst


def registry_cases():
    for reg in REG_ROUTES:
        for unreg in REG_ROUTES:
            for i, ser in enumerate(("serpent", "json", "marshal", "msgpack")):
                yield {"part": "registry", "reg": reg, "unreg": unreg, "ser": ser, "path": ("loads", "call-args", "call-kwargs")[(i + len(reg) + len(unreg)) % 3]}


def run_registry_case(case):
    """'unless the application registered a converter for a tag itself': while registered (through whichever route) the converter is
    what decodes the tag; once unregistered (through whichever route) the tag is outside the closed set again and nothing of the
    application's runs"""
    from Pyro5 import serializers
    install_hook()
    V = []

    def viol(sig, what):
        V.append(Violation("C04:" + sig, ("%s/%s converter registered via %s, unregistered via %s: %s" % (case["ser"], case["path"], case["reg"], case["unreg"], what))[:600]))
    tag = "verif.c04.Registered"
    ser = serializers.serializers[case["ser"]]

    def converter(classname, d):
        REG_CALLS.append(classname)
        return ["converted", d.get("v")]
    data, _shaped = encode({"ser": case["ser"], "path": case["path"], "tree": {"__class__": tag, "v": 5}})

    def decode():
        del REG_CALLS[:]
        try:
            return ("ok", ser.loads(data) if case["path"] == "loads" else ser.loadsCall(data))
        except Exception as x:
            return ("raised", x)
    try:
        _route(case["reg"]).register_dict_to_class(tag, converter)
        r1 = decode()
        if r1[0] != "ok" or REG_CALLS != [tag]:
            viol("registry:registered-converter-not-used", "decoding gave %.120r, converter calls %r" % (r1, REG_CALLS))
        _route(case["unreg"]).unregister_dict_to_class(tag)
        r2 = decode()
        if REG_CALLS:
            viol("registry:converter-runs-after-unregistration", "the application's converter still ran (%r)" % (REG_CALLS,))
        elif r2[0] == "ok":
            viol("registry:tag-accepted-after-unregistration", "decoding succeeded with %.120r" % (r2[1],))
    finally:
        for r in REG_ROUTES:
            try:
                _route(r).unregister_dict_to_class(tag)
            except Exception:
                pass
    return V


def _run_case_under_O(case):
    """a case found by the -O sweep is replayed by an interpreter that runs with -O as well"""
    import json
    import subprocess
    import sys
    from vlib.driver import ROOT
    from vlib import values as V
    code = ("import sys, json\nfrom checks import c04_deser as c\nfrom vlib import values as V\nc.install_hook()\n"
            "case = V.dec(json.loads(sys.stdin.read()))\n"
            "print('@@C04@@' + json.dumps([[v.signature, v.what] for v in c.run_case(case)]))\n")
    plain = {k: v for k, v in case.items() if k != "python_O"}
    r = subprocess.run([sys.executable, "-O", "-c", code], cwd=ROOT, input=json.dumps(V.enc(plain)), stdout=subprocess.PIPE, stderr=subprocess.PIPE, text=True, timeout=300)
    try:
        out = json.loads([l for l in r.stdout.splitlines() if l.startswith("@@C04@@")][-1][7:])
    except Exception:
        raise RuntimeError("python -O child failed: rc=%s %s" % (r.returncode, r.stderr[-400:]))
    return [Violation(sig, "[interpreter run with -O] " + what) for sig, what in out]


class CanarySerializer(object):
    """an application's own serializer, added to Pyro's table of serializers (a documented extension point); constructing it is
    recorded - a wire tag must never be able to name it"""
    serializer_id = 77

    def __init__(self):
        Canary.created += 1


def run_case(case):
    if case.get("python_O") and __debug__:
        return _run_case_under_O(case)
    if case.get("part") == "registry":
        return run_registry_case(case)
    if case.get("app_serializer"):
        # the process has an application serializer in Pyro's serializer tables while the payload is decoded
        from Pyro5 import serializers as _s
        plain = {k: v for k, v in case.items() if k != "app_serializer"}
        inst = CanarySerializer()
        _s.serializers["canary"] = inst
        _s.serializers_by_id[77] = inst
        try:
            return run_case(plain)
        finally:
            _s.serializers.pop("canary", None)
            _s.serializers_by_id.pop(77, None)
    from Pyro5 import serializers
    install_hook()
    V = []

    def viol(sig, what):
        V.append(Violation("C04:" + sig, ("%s/%s: %s  tree=%r" % (case["ser"], case["path"], what, case["tree"]))[:700]))

    ser = serializers.serializers[case["ser"]]
    try:
        data, shaped = encode(case)
    except Exception:
        return V          # tree not encodable with this library: outside the domain
    canary_before = Canary.created
    import signal

    class _CaseTimeout(BaseException):
        pass

    def _alarm(signum, frame):
        raise _CaseTimeout()
    use_alarm = threading.current_thread() is threading.main_thread()
    if use_alarm:
        old_handler = signal.signal(signal.SIGALRM, _alarm)
        signal.setitimer(signal.ITIMER_REAL, 5.0)
    _state.events = []
    _state.marshal_ok = case["ser"] == "marshal"
    _state.serpent_src = data.decode("utf-8", "replace") if case["ser"] == "serpent" else None
    try:
        try:
            if case["path"] == "loads":
                res = ("ok", ser.loads(data))
            else:
                res = ("ok", ser.loadsCall(data))
        except _CaseTimeout:
            res = ("timeout", None)
        except BaseException as x:
            if isinstance(x, (KeyboardInterrupt, SystemExit, GeneratorExit)):
                res = ("fatal", x)
            else:
                res = ("raised", x)
    finally:
        if use_alarm:
            signal.setitimer(signal.ITIMER_REAL, 0)
            signal.signal(signal.SIGALRM, old_handler)
        events = _state.events
        _state.events = None
    if res[0] == "timeout":
        # a decode that blocks for 5 s is inconclusive by itself (wall clock is no oracle); counted, not reported
        TIMEOUTS[0] += 1
        return V
    if events:
        sig = "side-effect"
        if case["ser"] == "msgpack" and _nested_proxy_inside_tagged(case["tree"]) and all(e.startswith("socket.") for e in events):
            # msgpack's object_hook works bottom-up: a Proxy nested in the state/args of another tagged dict exists as a live
            # object when the outer one is built, and using it (index, iterate, len) is a remote call
            sig = "side-effect:msgpack-nested-proxy-used"
        viol(sig, "audit events during decode: %s" % sorted(set(events))[:5])
        for e in events:
            if e.startswith("import:"):
                sys.modules.pop(e[7:], None)     # so that the observation repeats on replay
    if Canary.created != canary_before:
        viol("side-effect", "test-local class was instantiated")
    if CANARY_MODULE in sys.modules:
        viol("side-effect", "application module %s was imported" % CANARY_MODULE)
        del sys.modules[CANARY_MODULE]
    if res[0] == "fatal":
        viol("escapes", "decode raised %r" % (res[1],))
        return V
    # which part of the shaped payload is subject to class recreation
    if case["path"] == "loads" or case["ser"] == "msgpack":
        recreated_part = shaped
    elif case["ser"] == "json":
        recreated_part = [shaped["params"], shaped["kwargs"]]
    else:
        recreated_part = [shaped[2], shaped[3]]
    tagsin = []
    input_tags(recreated_part, tagsin, case["ser"])
    alltags = []
    input_tags(shaped, alltags, "msgpack")
    if res[0] == "ok":
        bad, inst = [], []
        walk_result(res[1], set(), bad, inst)
        if bad:
            viol("foreign-instance" + (":marshal-carries-code-and-class-objects" if case.get("marshal_objects") else ""),
                 "result contains instances of %s" % sorted(set(bad)))
        explained = set()
        for tag, d, _pos in alltags:
            c = allowed_class(tag, d, case["ser"])
            if c is not None and c != "float":
                explained.add(c)
        from Pyro5 import core as _core, client as _client
        if _client.Proxy in explained:
            explained.add(_core.URI)     # a Proxy holds the URI built from its state
        for o in inst:
            if type(o) not in explained:
                viol("unexplained-instance", "result contains a %s.%s but no input tag allows that class" % (type(o).__module__, type(o).__name__))
        for tag, d, pos in tagsin:
            if pos and allowed_class(tag, d, case["ser"]) is None:
                kind = "dunder-tag-accepted" if isinstance(tag, (str, bytes)) and (b"__" if isinstance(tag, bytes) else "__") in tag else "unknown-tag-accepted"
                viol(kind, "class tag %r is not in the closed set but decoding succeeded with %r" % (tag, res[1]))
                break
    return V


def _nontrivial(case):
    tagsin = []
    input_tags(case["tree"], tagsin, "msgpack")
    if not tagsin:
        return False
    root_is_tag = isinstance(case["tree"], dict) and "__class__" in case["tree"]
    below = len(tagsin) > (1 if root_is_tag else 0)
    hostile = any(not (isinstance(t, str) and (t in GOOD_FIXED or t.startswith("Pyro5.errors."))) for t, _d, _p in tagsin)
    return below or hostile


def _labels(case):
    tagsin = []
    input_tags(case["tree"], tagsin, "msgpack")
    l = ["ser:" + case["ser"], "path:" + case["path"]]
    if case.get("shared"):
        l.append("shared-subobjects")
    if case.get("spell"):
        l.append("tag-key-spelled-with-escapes")
    if tagsin:
        l.append("has-tag")
        if any(allowed_class(t, d, case["ser"]) is not None for t, d, _p in tagsin):
            l.append("has-allowed-tag")
        if any(isinstance(t, str) and "__" in t for t, _d, _p in tagsin):
            l.append("has-dunder-tag")
        if any(isinstance(t, bytes) for t, _d, _p in tagsin):
            l.append("has-bytes-tag")
    return l


ARG_TEMPLATES = [[], ["x"], [":memory:"], [0], ["x", 1], [[]], None]


def sweep_tags():
    seen = set()
    names = list(EVIL) + list(DUNDER) + GOOD_FIXED + ["Pyro5.errors." + n for n in PYRO_ERR_NAMES] + PYRO_ERR_NAMES
    for n in BUILTIN_NAMES + ["__import__", "__build_class__", "__loader__", "__spec__", "__debug__", "__name__", "__doc__"]:
        names += [n, "builtins." + n, "exceptions." + n]
    for m in ("os", "sys", "subprocess", "posix", "sqlite3", "struct", "socket", "shutil", "Pyro5.errors", "Pyro5.core", "Pyro5.server",
              "Pyro5.client", "Pyro5.util", "Pyro5.serializers", "Pyro5.nameserver", "threading", "importlib", CANARY_MODULE, "checks.c04_deser"):
        mod = sys.modules.get(m)
        attrs = [a for a in (dir(mod) if mod is not None else ["Canary", "x"]) if not a.startswith("_")][:400]
        names += [m + "." + a for a in attrs]
    # tags of things that LOOK like harmless data / Pyro's own (what a serializer library writes for containers, the Pyro4 compatibility
    # layer's subclasses, fragments of the accepted namespaces)
    names += ["collections.OrderedDict", "OrderedDict", "collections.deque", "collections.Counter", "collections.defaultdict", "complex", "set",
              "frozenset", "bytes", "bytearray", "tuple", "dict", "list", "decimal.Decimal", "uuid.UUID", "datetime.datetime", "array.array",
              "Pyro5.compatibility.Pyro4.URI", "Pyro5.compatibility.Pyro4.Proxy", "Pyro5.compatibility.Pyro4.Daemon", "Pyro5.compatibility.Pyro4.Future",
              "Pyro5.compatibility.Pyro4.sys.exit", "Pyro5.compatibility.Pyro4.config", "Pyro4.core.URI", "Pyro4.core.Proxy", "Pyro4.util.SerpentSerializer",
              ".ValueError", "builtin.KeyError", "uiltins.OSError", "ions.KeyError", "s.ValueError", "builtinsexceptions.ValueError",
              "Pyro5.errors.x.NamingError", "errors.NamingError", "Pyro5.core.URI.x", "Pyro5.client.Proxy ", " Pyro5.core.URI", "pyro5.core.URI"]
    for n in names:
        if n not in seen:
            seen.add(n)
            yield n


HOSTILE_FLOAT_VALUES = ["nan", "inf", "-inf", "1.5", "__import__('os')", "__import__('os').getcwd()", "(1).__class__", "1+1", "[1]",
                        "open('/etc/passwd')", "exec('x=1')", "float", "'nan'", " nan ", "NaN", "1_0", "0x10", "1e400", "٥", 5, None, [1], {"a": 1}, True]


def nesting_cases():
    """class-tagged dicts of the closed set nested inside the state / args / attributes of another one: building the outer
    object must not USE the inner one (iterating or len()-ing a Proxy is a remote call: it would open a socket)"""
    inner_proxy = {"__class__": "Pyro5.client.Proxy", "state": ["PYRO:obj@127.0.0.1:9", [], [], [], "hello", None]}
    inner_uri = {"__class__": "Pyro5.core.URI", "state": ["PYRO", "obj", None, "127.0.0.1", 9]}
    inner_exc = {"__class__": "builtins.ValueError", "__exception__": True, "args": ["x"], "attributes": {}}
    for ser in ("serpent", "json", "marshal", "msgpack"):
        for inner in (inner_proxy, inner_uri, inner_exc):
            outers = []
            for idx in range(6):
                st_ = ["PYRO:obj@127.0.0.1:9", [], ["m"], [], "hello", None]
                st_[idx] = inner
                outers.append({"__class__": "Pyro5.client.Proxy", "state": st_})
                st2 = ["PYRO:obj@127.0.0.1:9", [], ["m"], [], "hello", None]
                if idx in (1, 2, 3):
                    st2[idx] = [inner]
                    outers.append({"__class__": "Pyro5.client.Proxy", "state": st2})
            for idx in range(5):
                st_ = ["PYRO", "obj", None, "127.0.0.1", 9]
                st_[idx] = inner
                outers.append({"__class__": "Pyro5.core.URI", "state": st_})
            outers.append({"__class__": "Pyro5.core.URI", "state": inner})
            outers.append({"__class__": "Pyro5.client.Proxy", "state": inner})
            outers.append({"__class__": "Pyro5.server.Daemon", "state": inner})
            for tag in ("builtins.ValueError", "Pyro5.errors.NamingError", "builtins.OSError", "builtins.KeyError"):
                outers.append({"__class__": tag, "__exception__": True, "args": inner})
                outers.append({"__class__": tag, "__exception__": True, "args": [inner]})
                outers.append({"__class__": tag, "__exception__": True, "args": ["x"], "attributes": {"a": inner}})
                outers.append({"__class__": tag, "__exception__": True, "args": ["x"], "attributes": inner})
            outers.append({"__class__": "Pyro5.core._ExceptionWrapper", "exception": inner})
            outers.append({"__class__": "float", "value": inner})
            for o in outers:
                for path in ("loads", "call-args", "call-kwargs"):
                    yield {"ser": ser, "path": path, "tree": o}
            if ser != "marshal":
                continue
            # marshal keeps object identity: what the decoder gets is a DAG.  The same list/dict once in a plain data position
            # and once as the member of a class dict ("shared": equal sub-structures are made ONE object before encoding)
            for o in outers:
                for key in ("state", "args", "attributes"):
                    member = o.get(key)
                    if type(member) not in (list, dict) or (type(member) is dict and "__class__" in member):
                        continue
                    for t in ([member, o], {"a": member, "b": o}, [[1, member], {"k": [o]}], [o, member]):
                        for path in ("loads", "call-args", "call-kwargs"):
                            yield {"ser": ser, "path": path, "tree": t, "shared": True}


EXT_BODIES = ["5", "-7", "1.5", "1e3", "0x10", " 12 ", "1_000", "", "nan", "(1+2j)", "[1, 2]", "{'__class__': 'os.system', 'args': ['x']}",
              "{'__class__': 'builtins.__import__', '__exception__': True, 'args': ['os']}", "__import__('os').getcwd()", "open('/etc/hostname').read()",
              "{'__class__': 'Pyro5.core.URI', 'state': ('PYRO', 'obj', None, 'localhost', 5555)}", "True", "None", "'text'", "b'bytes'", "1" + "0" * 400]


def ext_cases():
    """msgpack extension items as a peer may write them by hand: every code the hook knows (and some it does not) with bodies
    that are not what the encoder would have written - whatever comes out is data of the closed set or an error, and nothing is evaluated"""
    for code in (0x30, 0x31, 0x32, 0x33, 0x34, 0x00, 0x7f):
        for body in EXT_BODIES:
            for path in ("loads", "call-args", "call-kwargs"):
                for wrap in (0, 1):
                    t = {"$ext": [code, body]}
                    yield {"ser": "msgpack", "path": path, "tree": t if not wrap else {"k": [t, {"__class__": "Pyro5.core.URI", "state": ["PYRO", t, None, "h", 1]}]}}


def sweep_cases(shard_index, shard_count):
    i = 0
    for case in ext_cases():
        i += 1
        if i % shard_count == shard_index:
            yield case
    for case in nesting_cases():
        i += 1
        if i % shard_count == shard_index:
            yield case
    for ser in ("serpent", "json", "marshal", "msgpack"):
        for v in HOSTILE_FLOAT_VALUES:
            for path in ("loads", "call-args", "call-kwargs"):
                i += 1
                if i % shard_count == shard_index:
                    yield {"ser": ser, "path": path, "tree": {"__class__": "float", "value": v}}
    for tag in sweep_tags():
        for ser in ("serpent", "json", "marshal", "msgpack"):
            for flag in (True, "absent"):
                for args in ARG_TEMPLATES:
                    i += 1
                    if i % shard_count != shard_index:
                        continue
                    d = {"__class__": tag}
                    if flag != "absent":
                        d["__exception__"] = flag
                    if args is not None:
                        d["args"] = args
                    d["state"] = ("PYRO", "obj", None, "localhost", 5555)
                    d["items"] = [["k", {"__class__": "os.system", "args": ["x"]}]]      # (members some tags carry their content in)
                    d["value"] = "5"
                    case = {"ser": ser, "path": "loads" if i % 3 else "call-args", "tree": d if i % 5 else [d]}
                    if ser in ("serpent", "json") and i % 4 == 1:
                        case["spell"] = "escaped"
                    yield case


def SHARDS(tier):
    # generation of these trees costs ~25 ms per case in Hypothesis: the quick tier is sharded too
    return ([{} for _ in range(8)] if tier == "quick" else [{} for _ in range(16)]) + [{"part": "python-O", "slice": k} for k in range(1 if tier == "quick" else 4)]


def run_optimized(ctx):
    """the same sweep decoded by an interpreter that runs with -O (assert statements are compiled away: a guard that only exists
    as an assert is no guard).  The slice of the sweep is run by a child interpreter; what it reports is re-judged here"""
    import json
    import subprocess
    import sys
    from vlib.driver import ROOT
    from vlib import values as V
    nslices = 4 if ctx.tier == "quick" else 4
    k = (ctx.shard.get("slice", 0) + ctx.seed) % nslices
    code = ("import sys, json\n"
            "from checks import c04_deser as c\n"
            "from vlib import values as V\n"
            "assert not __debug__ or sys.exit(3)\n"
            "c.install_hook()\n"
            "n = 0\n"
            "for case in list(c.registry_cases()) + list(c.sweep_cases(%d, %d)):\n"
            "    n += 1\n"
            "    for v in c.run_case(case):\n"
            "        print('@@C04@@' + json.dumps({'sig': v.signature, 'what': v.what, 'case': V.enc(case)}), flush=True)\n"
            "print('@@C04@@' + json.dumps({'n': n}))\n" % (k, nslices))
    r = subprocess.run([sys.executable, "-O", "-c", code], cwd=ROOT, stdout=subprocess.PIPE, stderr=subprocess.PIPE, text=True, timeout=1200)
    n = None
    for line in r.stdout.splitlines():
        if not line.startswith("@@C04@@"):
            continue            # (whatever a decoded payload managed to print is not ours)
        try:
            j = json.loads(line[7:])
        except ValueError:
            continue
        if "n" in j:
            n = j["n"]
        else:
            case = V.dec(j["case"])
            case["python_O"] = True
            ctx.observe(case, [Violation(j["sig"], "[interpreter run with -O] " + j["what"])], True, ["python-O"])
    if n is None:
        raise RuntimeError("python -O child failed: rc=%s %s" % (r.returncode, r.stderr[-500:]))
    ctx.count({"kind": "python-O-sweep", "slice": k, "cases": n}, True, ["python-O-sweep"])
    ctx.evaluations += n
    ctx.notes["python_O_cases"] = n


def run(ctx):
    if ctx.shard.get("part") == "python-O":
        return run_optimized(ctx)
    install_hook()
    n = 0
    if ctx.shard.get("index", 0) == 1:
        for tree in ("$CODE", ["$CODE"], {"k": ["$CODE", 1]}, "$STOPITER", [1, "$STOPITER"], {"__class__": "Pyro5.core.URI", "state": ["PYRO", "$CODE", None, "h", 1]}):
            for path in ("loads", "call-args", "call-kwargs"):
                case = {"ser": "marshal", "path": path, "tree": tree, "marshal_objects": True}
                ctx.observe(case, run_case(case), True, ["marshal-objects", "path:" + path])
    if ctx.shard.get("index", 0) == 0:
        for case in registry_cases():
            ctx.observe(case, run_case(case), True, ["registry", "ser:" + case["ser"]])
    if ctx.shard.get("index", 0) == 2:
        for ser in ("serpent", "json", "marshal", "msgpack"):
            for tag in ("Pyro5.util.CanarySerializer", "Pyro5.util.canary", "Pyro5.serializers.CanarySerializer", "checks.c04_deser.CanarySerializer", "Pyro5.util.SerpentSerializer"):
                for path in ("loads", "call-args"):
                    case = {"ser": ser, "path": path, "tree": {"__class__": tag}, "app_serializer": True}
                    ctx.observe(case, run_case(case), True, ["application-serializer-in-the-table", "ser:" + ser])
    for case in sweep_cases(ctx.shard.get("index", 0), ctx.shard.get("count", 1)):
        ctx.observe(case, run_case(case), True, _labels(case) + ["sweep"])
        n += 1
        if ctx.violations or TIMEOUTS[0] >= 3:
            break       # a violation is already in hand (or decoding blocks): no point in finishing the sweep
    ctx.notes["sweep_cases"] = n
    ctx.search(case_strategy(), run_case, ctx.n(700, 12000), nontrivial=_nontrivial, labels=_labels, name="deser", max_rounds=8)
    ctx.notes["decode_timeouts_inconclusive"] = TIMEOUTS[0]
