"""C13 - every connection is cleaned up exactly once, however it ends.

Raw peers open 1-3 connections to a live daemon, track/untrack resources and create session instances through exposed
methods, and then end in a generated way: orderly close, abrupt close (RST) or FIN at a byte offset of a request,
malformed request, oversize declaration, security error, server-side timeout (COMMTIMEOUT shards), error reply followed by
close.  Oracle per connection that passed the handshake: disconnect hook called exactly once after it ended and never
while open; every still-tracked resource closed exactly once, untracked ones never; session instance dropped; server side
socket closed; worker/selector slot released.  Connections that stay open are unaffected.
"""
import gc
import threading
import weakref

from hypothesis import strategies as st

from vlib.driver import Violation
from vlib import wire

PROPERTY = "C13"
LEVEL = "fault_enumeration"
RULE = ("a case = 1..3 connections, each with k tracked and j then-untracked resources (plain, or falsy through __len__/__bool__; optionally "
        "after d resources that were tracked and then garbage collected), optional session instance, 0-2 item streams the "
        "client never finishes (ITER_STREAM_LINGER 0 or default), a disconnect hook that may raise, and an ending "
        "from {orderly, abort(RST)/FIN at byte offset o of a valid request (all offsets enumerated in the thorough tier), bad magic, "
        "oversize declaration, undecodable payload + close, SecurityError raised by a method, server-side timeout, stay open}; endings "
        "are executed in a generated order while the other connections stay open. Non-trivial: a non-orderly ending with >= 1 "
        "tracked resource while another connection is open, or any server-timeout/offset ending; distinct = distinct case JSON")
ASSUMPTIONS = ["resources are tracked from synchronous calls only", "the harness keeps strong references to the resources (the daemon only holds weak ones)",
               "connections that never completed the handshake are not part of the claim",
               "COMMTIMEOUT shards use one connection at a time (an idle bystander would legitimately be timed out by the server)"]

CEILING = 15.0    # seconds; normal latency is milliseconds - this only guards against a hang


class _Stop(Exception):
    """a hang-type violation was recorded: do not spend more ceilings on this case"""


BLOCKERS = {}
CTOR_FLAG = [True]   # does the next session object track a resource in its constructor (set by the harness per connection)
CTOR_RES = {}     # session serial -> resource tracked by the session object's constructor
REG = {}          # token -> list of Resource
SESS = {}         # token -> (weakref to session instance, serial)
LOCK = threading.Lock()
SERIAL = [0]


class Resource(object):
    def __init__(self, name):
        self.name = name
        self.closed = 0

    def close(self):
        with LOCK:
            self.closed += 1


class EmptyResource(Resource):
    """a container-like resource that is currently empty (falsy through __len__): still a resource that was tracked"""
    def __len__(self):
        return 0


class FalseResource(Resource):
    """a resource whose truth value says 'not ready' (falsy through __bool__)"""
    def __bool__(self):
        return False


class StaleResource(Resource):
    """a handle that has gone stale: closing it is attempted (counted) and fails - the other resources still have to be closed"""
    def close(self):
        Resource.close(self)
        raise OSError("stale handle")


class Unprintable(Exception):
    def __str__(self):
        raise RuntimeError("this exception has no text form")


SHAPES = {"plain": Resource, "empty": EmptyResource, "false": FalseResource, "stale": StaleResource}


def _classes():
    import Pyro5.api as api
    from Pyro5.callcontext import current_context
    import Pyro5.errors

    @api.expose
    class Res(object):
        def track(self, token, n, shape="plain"):
            # ("stale": the FIRST resource of the connection is the one whose close() fails)
            rs = [(SHAPES[shape] if (shape != "stale" or i == 0) else Resource)("%s-%d" % (token, i)) for i in range(n)]
            with LOCK:
                REG.setdefault(token, []).extend(rs)
            for r in rs:
                current_context.track_resource(r)
            return n

        def track_and_drop(self, token, n, shape="plain"):
            # resources that are tracked and then simply forgotten by the application: they are garbage collected while the
            # connection lives on (tracking is weak); whatever is tracked afterwards (possibly at the same addresses) still counts
            for i in range(n):
                current_context.track_resource(SHAPES[shape]("%s-dropped-%d" % (token, i)))
            return n

        def untrack(self, token, j):
            with LOCK:
                rs = list(REG.get(token, []))[:j]
            for r in rs:
                current_context.untrack_resource(r)
            return len(rs)

        def hit(self, x=None):
            return x

        def gen(self, n):
            for i in range(n):
                yield i

        def sec(self):
            raise Pyro5.errors.SecurityError("not allowed")

        def boom(self):
            raise ValueError("boom")

        def block(self, token):
            # keeps the serving thread busy until the harness says go (on the multiplex server: the one thread that serves everybody)
            ev = BLOCKERS.get(token)
            if ev is not None:
                ev.wait(15)
            return token

        @api.callback
        def unprintable(self):
            # a method flagged @callback (its exceptions are re-raised in the daemon after the error reply) fails with an
            # exception that cannot be turned into text: the connection ends inside the server's own error handling
            raise Unprintable()

    @api.behavior(instance_mode="session")
    @api.expose
    class Sess(object):
        def __init__(self):
            with LOCK:
                SERIAL[0] += 1
                self.serial = SERIAL[0]
            # a session object may acquire a resource for its connection right in its constructor (or not: then a connection that
            # tracks nothing else ends with NOTHING tracked and must still let its session object go)
            if CTOR_FLAG[0]:
                self.res = Resource("ctor-%d" % self.serial)
                CTOR_RES[self.serial] = self.res
                current_context.track_resource(self.res)

        def touch(self, token):
            with LOCK:
                SESS[token] = (weakref.ref(self), self.serial)
            return self.serial
    return Res, Sess


ENDINGS = ["orderly", "abort-offset", "fin-offset", "bad-magic", "oversize", "undecodable-then-close", "security", "error-then-abort", "stay-open", "callback-unprintable"]

conn_spec = st.fixed_dictionaries({
    "track": st.integers(0, 3), "untrack": st.integers(0, 3), "session": st.booleans(),
    "shape": st.sampled_from(["plain", "plain", "empty", "false", "stale"]), "dropped": st.sampled_from([0, 0, 1, 2, 3]), "ctor_res": st.booleans(), "streams": st.sampled_from([0, 0, 1, 2]),
    "ending": st.sampled_from(ENDINGS + ["abort-offset", "fin-offset", "security"]),
    "offset": st.integers(0, 200), "ser": st.sampled_from(["marshal", "json", "serpent", "msgpack"]),
})


@st.composite
def case_strategy(draw, timeout_shard=False):
    if timeout_shard:
        c = draw(conn_spec)
        c["ending"] = draw(st.sampled_from(["server-timeout", "server-timeout", "orderly", "abort-offset", "security", "bad-magic"]))
        return {"conns": [c], "order": [0], "hook_raises": draw(st.integers(0, 3)) == 0, "linger0": draw(st.booleans())}
    n = draw(st.integers(1, 3))
    conns = [draw(conn_spec) for _ in range(n)]
    order = draw(st.permutations(list(range(n))))
    return {"conns": conns, "order": list(order), "hook_raises": draw(st.integers(0, 3)) == 0, "linger0": draw(st.booleans()), "together": draw(st.integers(0, 2)) == 0}


_live = {}


def _setup(servertype, commtimeout):
    from vlib import live
    key = (servertype, commtimeout)
    if _live.get("key") != key:
        _teardown()
    if "served" in _live:
        return _live
    live.quiet_logs()
    threading.excepthook = lambda a: None
    scope = live.ConfigScope(COMMTIMEOUT=commtimeout, MAX_MESSAGE_SIZE=256 * 1024, POLLTIMEOUT=0.2)
    scope.__enter__()
    Res, Sess = _classes()
    S = live.Served(servertype)
    S.daemon.register(Res(), "res")
    S.daemon.register(Sess, "sess")
    _live.update(key=key, served=S, scope=scope, n=0)
    return _live


def _teardown():
    if "served" in _live:
        _live["served"].stop()
        _live["scope"].__exit__()
    _live.clear()


def run_case(case, servertype=None, commtimeout=None, keep=False):
    from vlib import live
    servertype = servertype or case.get("servertype", "thread")
    commtimeout = commtimeout if commtimeout is not None else case.get("commtimeout", 0.0)
    L = _setup(servertype, commtimeout)
    S = L["served"]
    V = []

    def viol(sig, what):
        V.append(Violation("C13:" + sig, ("[%s,timeout=%s] %s  case=%r" % (servertype, commtimeout, what, case))[:900]))

    baseline = S.busy_workers()
    peers = []
    S.daemon.v_hook_raises = bool(case.get("hook_raises"))
    from Pyro5 import config
    old_linger = config.ITER_STREAM_LINGER
    if case.get("linger0"):
        config.ITER_STREAM_LINGER = 0.0        # item streams die with their connection (default: they linger for a reconnect)
    try:
        # ---- open all connections, do the work on them
        for i, c in enumerate(case["conns"]):
            L["n"] += 1
            token = "c%d" % L["n"]
            peer = live.RawPeer(S.address())
            m = peer.handshake("res", c["ser"], handshake=token)
            if not isinstance(m, dict) or m["type"] != wire.CONNECTOK:
                viol("harness:handshake", "handshake failed: %r" % (m,))
                peer.close()
                return V
            conn = None
            with S.daemon.v_lock:
                for cobj, data in S.daemon.v_validated:
                    if data == token:
                        conn = cobj
            info = {"peer": peer, "token": token, "conn": conn, "spec": c, "seq": 1, "open": True}
            peers.append(info)

            def call(info, obj, method, *args):
                info["seq"] += 1
                return info["peer"].call(obj, method, args, {}, seq=info["seq"], ser=info["spec"]["ser"])
            if c.get("dropped"):
                r = call(info, "res", "track_and_drop", token, c["dropped"], c.get("shape", "plain"))
                if not isinstance(r, dict) or r["flags"] & wire.F_EXCEPTION:
                    viol("harness:track", "track_and_drop call failed: %r" % (r,))
            if c["track"]:
                r = call(info, "res", "track", token, c["track"], c.get("shape", "plain"))
                if not isinstance(r, dict) or r["flags"] & wire.F_EXCEPTION:
                    viol("harness:track", "track call failed: %r" % (r,))
            if c["untrack"]:
                call(info, "res", "untrack", token, c["untrack"])
            if c["session"]:
                CTOR_FLAG[0] = bool(c.get("ctor_res", True))
                r = call(info, "sess", "touch", token)
                if not isinstance(r, dict) or r["flags"] & wire.F_EXCEPTION:
                    viol("harness:session", "session call failed: %r" % (r,))
            for _ in range(c.get("streams", 0)):
                # an item stream the client never finishes: it belongs to this connection when the connection ends
                r = call(info, "res", "gen", 5)
                if not isinstance(r, dict) or not any(k == "STRM" for k, _v in r["annotations"]):
                    viol("harness:stream", "stream call failed: %r" % (r,))
            info["call"] = call
        del S.daemon.v_validated[:]

        def check_open(info, when):
            tok = info["token"]
            if S.daemon.v_disconnect_count(info["conn"]) != 0:
                viol("hook-on-open-connection", "disconnect hook called for a connection that is still open (%s)" % when)
            with LOCK:
                closed = [r.closed for r in REG.get(tok, [])]
            if any(closed):
                viol("resource-closed-on-open-connection", "resources of an open connection were closed (%s): %r" % (when, closed))
            if info["spec"]["session"]:
                ref, serial = SESS[tok]
                if ref() is None:
                    viol("session-dropped-on-open-connection", "session instance of an open connection vanished (%s)" % when)
                cr = CTOR_RES.get(serial)
                if cr is not None and cr.closed:
                    viol("resource-closed-on-open-connection", "the resource tracked by the session object's constructor was closed while its connection is open (%s)" % when)

        def check_ended(info):
            tok, conn, c = info["token"], info["conn"], info["spec"]
            # the server must notice and clean up; polling ceiling only guards against a hang
            if not live.wait_for(lambda: S.daemon.v_disconnect_count(conn) >= 1, CEILING):
                viol("hook-never-called", "disconnect hook not called after the connection ended (%s)" % c["ending"])
                raise _Stop()
            open_now = sum(1 for p in peers if p["open"])
            if not live.wait_for(lambda: S.busy_workers() == baseline + open_now, CEILING):
                viol("slot-not-released", "worker/selector slots: %d busy, expected %d (%s)" % (S.busy_workers(), baseline + open_now, c["ending"]))
                raise _Stop()
            n = S.daemon.v_disconnect_count(conn)
            if n > 1:
                viol("hook-called-twice:" + c["ending"], "disconnect hook called %d times for one connection (%s)" % (n, c["ending"]))
            with LOCK:
                rs = list(REG.get(tok, []))
            kept = rs[min(c["untrack"], len(rs)):]
            gone = rs[:min(c["untrack"], len(rs))]
            # closing happens right after the hook in the same server code path; wait for it rather than sleep
            live.wait_for(lambda: all(r.closed >= 1 for r in kept), CEILING)
            for r in kept:
                if r.closed != 1:
                    viol("tracked-resource-close-count:" + c["ending"], "tracked resource closed %d times (%s)" % (r.closed, c["ending"]))
                    break
            for r in gone:
                if r.closed != 0:
                    viol("untracked-resource-closed", "untracked resource closed %d times" % r.closed)
                    break
            if conn is not None:
                if not live.wait_for(lambda: conn.sock.fileno() == -1, CEILING):
                    viol("server-socket-open", "server side socket still open after the connection ended (%s)" % c["ending"])
                    raise _Stop()
            if c["session"]:
                ref, serial = SESS[tok]
                cr = CTOR_RES.get(serial)
                if cr is not None:
                    live.wait_for(lambda: cr.closed >= 1, CEILING)
                    if cr.closed != 1:
                        viol("constructor-tracked-resource-close-count", "resource tracked in the session object's constructor was closed %d times after its connection ended (%s)" % (cr.closed, c["ending"]))
                gc.collect()
                if ref() is not None:
                    # give the server thread a moment to leave the frame that may still reference the instance
                    live.wait_for(lambda: (gc.collect(), ref() is None)[1], 10)
                if ref() is not None:
                    viol("session-instance-kept:" + c["ending"], "session instance still alive after its connection ended")

        for info in peers:
            check_open(info, "after setup")
        # ---- (multiplex) several connections end while the server's one thread is busy with somebody else's call: their endings are
        #      all there when it looks again - handled in ONE round of its event loop
        done_together = set()
        if case.get("together") and servertype == "multiplex" and not commtimeout:
            simple = [i for i in case["order"] if peers[i]["spec"]["ending"] in ("orderly", "abort-offset", "fin-offset")][:3]
            if len(simple) >= 2:
                L["n"] += 1
                btok = "block%d" % L["n"]
                BLOCKERS[btok] = threading.Event()
                helper = live.RawPeer(S.address())
                try:
                    hm = helper.handshake("res", "marshal", handshake=btok)
                    if isinstance(hm, dict) and hm["type"] == wire.CONNECTOK:
                        helper.send(helper.invoke_msg("res", "block", (btok,), {}, seq=2, ser="marshal"))
                        live.wait_for(lambda: S.daemon.v_requests_in_flight() >= 1 if hasattr(S.daemon, "v_requests_in_flight") else True, 1.0)
                        import time as _t
                        _t.sleep(0.05)      # (stimulus only: the blocking call has reached the method; nothing is judged by the clock)
                        for i in simple:
                            info = peers[i]
                            c, peer = info["spec"], info["peer"]
                            msg = peer.invoke_msg("res", "hit", (12345,), {}, seq=info["seq"] + 1, ser=c["ser"])
                            if c["ending"] == "orderly":
                                peer.close()
                            else:
                                peer.send(msg[:c["offset"] % (len(msg) + 1)])
                                if c["ending"] == "abort-offset":
                                    peer.abort()
                                else:
                                    peer.close()
                            info["open"] = False
                            done_together.add(i)
                finally:
                    BLOCKERS[btok].set()
                    helper.read_message()
                    helper.close()
                    BLOCKERS.pop(btok, None)
                live.wait_for(lambda: S.busy_workers() <= baseline + sum(1 for p in peers if p["open"]), CEILING)
                for i in simple:
                    if i in done_together:
                        check_ended(peers[i])
                for other in peers:
                    if other["open"]:
                        check_open(other, "after %d connections ended in one round of the event loop" % len(done_together))
        # ---- end them in the generated order
        for idx in case["order"]:
            if idx in done_together:
                continue
            info = peers[idx]
            c = info["spec"]
            peer = info["peer"]
            kind = c["ending"]
            if kind == "stay-open":
                continue
            msg = peer.invoke_msg("res", "hit", (12345,), {}, seq=info["seq"] + 1, ser=c["ser"])
            if kind == "orderly":
                peer.close()
            elif kind in ("abort-offset", "fin-offset"):
                off = c["offset"] % (len(msg) + 1)
                peer.send(msg[:off])
                if kind == "abort-offset":
                    peer.abort()
                else:
                    peer.close()
            elif kind == "bad-magic":
                peer.send(wire.ref_encode(wire.INVOKE, 0, 9, 2, b"x" * 10, magic=0x1111))
                peer.half_close()
                peer.read_until_closed()
                peer.close()
            elif kind == "oversize":
                peer.send(wire.ref_encode(wire.INVOKE, 0, 9, 2, b"", dlen=0x7ffffff0))
                peer.half_close()
                peer.read_until_closed()
                peer.close()
            elif kind == "undecodable-then-close":
                peer.send(wire.ref_encode(wire.INVOKE, 0, 9, live.SER_IDS[c["ser"]], b"\xff\xfe{{{garbage"))
                peer.read_message()
                peer.close()
            elif kind == "security":
                r = info["call"](info, "res", "sec")
                if not (isinstance(r, dict) and r["flags"] & wire.F_EXCEPTION):
                    viol("security-error-no-reply", "SecurityError raised by a method: expected an error reply, got %r" % (r,))
                msgs, ended = peer.read_until_closed()
                if ended[0] not in ("eof", "reset"):
                    viol("security-error-not-closed", "connection stays open after a SecurityError: %r" % (ended,))
                peer.close()
            elif kind == "error-then-abort":
                info["call"](info, "res", "boom")
                peer.abort()
            elif kind == "callback-unprintable":
                info["call"](info, "res", "unprintable")
                peer.half_close()
                peer.read_until_closed()
                peer.close()
            elif kind == "server-timeout":
                off = 1 + c["offset"] % (len(msg) - 1)
                peer.send(msg[:off])
                msgs, ended = peer.read_until_closed()      # the server gives up after COMMTIMEOUT and closes
                if ended[0] not in ("eof", "reset"):
                    viol("timeout-not-closed", "server did not close a stalled connection: %r" % (ended,))
                peer.close()
            info["open"] = False
            check_ended(info)
            for other in peers:
                if other["open"]:
                    check_open(other, "after connection %d ended by %s" % (idx, kind))
                    if other["spec"]["session"] and commtimeout == 0:
                        r = other["call"](other, "sess", "touch", other["token"])
                        if isinstance(r, dict) and not r["flags"] & wire.F_EXCEPTION:
                            if live.reply_value(r) != SESS[other["token"]][1]:
                                viol("session-instance-replaced", "open connection got another session instance after a different connection ended")
                        else:
                            viol("open-connection-broken", "call on a connection that is still open failed after another one ended: %r" % (r,))
        # ---- finally close the rest in an orderly way and check them too
        for info in peers:
            if info["open"]:
                info["peer"].close()
                info["open"] = False
                info["spec"] = dict(info["spec"], ending="orderly-final")
                check_ended(info)
        if not S.loop_alive():
            viol("loop-died", "request loop terminated")
        if any(v.signature.split(":")[1] in ("hook-never-called", "slot-not-released", "server-socket-open") for v in V):
            raise _Stop()
        # drop every harness reference to the server-side connection objects: their finalizers must not close things again
        held = []
        for info in peers:
            with LOCK:
                rs = list(REG.get(info["token"], []))
            c = info["spec"]
            held.append((c, rs[min(c["untrack"], len(rs)):], rs[:min(c["untrack"], len(rs))]))
            info["conn"] = None
        del S.daemon.v_disconnects[:]
        del S.daemon.v_validated[:]
        gc.collect()
        for c, kept, gone in held:
            if any(r.closed != 1 for r in kept) or any(r.closed != 0 for r in gone):
                viol("resource-closed-again-at-finalisation", "after the connection object was garbage collected: tracked %r untracked %r" % (
                    [r.closed for r in kept], [r.closed for r in gone]))
                break
    except _Stop:
        # the daemon may be left with stuck connections: start the next case on a fresh one
        keep = False
    finally:
        S.daemon.v_hook_raises = False
        config.ITER_STREAM_LINGER = old_linger
        S.daemon.streaming_responses.clear()
        CTOR_RES.clear()
        for info in peers:
            info["peer"].close()
            with LOCK:
                REG.pop(info["token"], None)
                SESS.pop(info["token"], None)
        del S.daemon.v_disconnects[:]
        if not keep:
            _teardown()
    return V


def _nontrivial(case):
    cs = case["conns"]
    for i, c in enumerate(cs):
        if c["ending"] in ("server-timeout", "abort-offset", "fin-offset"):
            return True
        if c["ending"] not in ("orderly", "stay-open") and c["track"] > c["untrack"] and len(cs) > 1:
            return True
    return False


def _labels(case):
    l = ["conns:%d" % len(case["conns"])]
    if case.get("together") and sum(1 for c in case["conns"] if c["ending"] in ("orderly", "abort-offset", "fin-offset")) >= 2:
        l.append("several-endings-in-one-event-round(multiplex)")
    for c in case["conns"]:
        l.append("ending:" + c["ending"])
        if c["track"] > c["untrack"]:
            l.append("has-tracked")
            if c.get("shape", "plain") != "plain":
                l.append("tracked-resource-close-raises" if c.get("shape") == "stale" else "tracked-resource-is-falsy")
            if c.get("dropped"):
                l.append("tracked-after-dropped-resources")
        if c["session"]:
            l.append("has-session")
            if not c.get("ctor_res", True) and c["track"] <= c["untrack"]:
                l.append("session-and-nothing-tracked-at-the-end")
        if c.get("streams"):
            l.append("has-open-stream" + (":linger0" if case.get("linger0") else ":linger"))
    return l


def SHARDS(tier):
    sh = [{"servertype": s, "commtimeout": t} for s in ("thread", "multiplex") for t in (0.0, 0.4)]
    if tier == "thorough":
        sh = sh * 3 + [{"servertype": s, "commtimeout": 0.0, "offsets": k} for s in ("thread", "multiplex") for k in ("abort-offset", "fin-offset")]
    else:
        sh = sh + [{"servertype": s, "commtimeout": 0.0} for s in ("thread", "multiplex")]
    return sh


def run(ctx):
    sh = ctx.shard
    st_, to = sh.get("servertype", "thread"), sh.get("commtimeout", 0.0)
    try:
        if sh.get("offsets"):
            # every byte offset of one INVOKE, with a tracked resource and a session instance, next to an open bystander
            for ser in ("marshal", "serpent", "json", "msgpack"):
                for off in range(0, 130):
                    case = {"conns": [{"track": 2, "untrack": 1, "session": True, "ending": sh["offsets"], "offset": off, "ser": ser},
                                      {"track": 1, "untrack": 0, "session": True, "ending": "stay-open", "offset": 0, "ser": "marshal"}], "order": [0, 1]}
                    ctx.observe(case, run_case(case, st_, to, keep=True), True, _labels(case) + ["offset-enumeration"])
            ctx.exhaustive = True
            return
        n = ctx.n(300, 1500) if to == 0 else ctx.n(40, 200)
        ctx.search(case_strategy(timeout_shard=to > 0), lambda c: run_case(c, st_, to, keep=True), n, nontrivial=_nontrivial, labels=_labels,
                   name="cleanup%s%s" % (st_, to), max_rounds=1, shrink_budget_s=20)   # one violation per shard: a failing case costs a hang ceiling
    finally:
        _teardown()
