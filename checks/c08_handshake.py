"""C08 - nothing is invoked on a connection before an accepted handshake.

A raw socket peer (reference codec, never Pyro's client) sends a generated first message - every message type, valid or
malformed, any serializer id, any handshake payload shape, known/unknown object - with INVOKE/PING messages pipelined
behind it in the same write, against scripted validators, on both server types (and on a thread server whose pool is
full: the denial path).  Oracle: the execution log of all registered objects stays empty unless the first message was a
well-formed CONNECT for a known object and the validator accepted; a failing handshake is answered with CONNECTFAIL
carrying a non-empty reason and the connection is closed; nothing the peer sends afterwards is executed.
"""
import threading

from hypothesis import strategies as st

from vlib.driver import Violation
from vlib import wire

PROPERTY = "C08"
LEVEL = "exploration"
RULE = ("a case = (first message: type 0..7/255, serializer id 0..255, flags, seq, payload shape {dict with/without the "
        "handshake/object keys, list, str, None, nested}, object id known/unknown/daemon/non-string, optional malformation "
        "{bad magic, bad version, bad tag, length mismatch, oversize, undecodable payload, truncation}; validator behaviour "
        "{accept, return value incl. unserialisable, raise one of several exception types}; 0..3 pipelined INVOKE/PING messages "
        "written in the same segment). Non-trivial: the handshake must fail and at least one INVOKE of an exposed method is "
        "pipelined behind it; distinct = distinct case JSON")
ASSUMPTIONS = ["a first message that is cut short (peer closes before the message is complete) needs no CONNECTFAIL: there was no message",
               "unknown serializer id on CONNECT: the code cannot encode a reason; only 'no execution, closed, never CONNECTOK' is demanded",
               "when bytes were pipelined behind a failing first message the kernel may turn the close into a reset: a missing CONNECTFAIL is tolerated only if a reset was observed",
               "validators raising BaseException-only classes (SystemExit, KeyboardInterrupt) are outside the domain"]

EXEC = []
ELOCK = threading.Lock()


def _log(*e):
    with ELOCK:
        EXEC.append(e)


def _classes():
    import Pyro5.api as api
    import Pyro5.server

    @api.expose
    class Target(object):
        def hit(self, x=None):
            _log("hit", x)
            return ["hit", x]

    @api.expose
    class Sess(object):
        def __init__(self):
            _log("Sess.__init__")

        def hit(self, x=None):
            _log("sess.hit", x)
            return ["sess", x]

    @api.expose
    class LoggingDaemonObject(Pyro5.server.DaemonObject):
        def ping(self):
            _log("daemon.ping")

        def registered(self):
            _log("daemon.registered")
            return super().registered()

        def info(self):
            _log("daemon.info")
            return super().info()
    return Target, Sess, LoggingDaemonObject


class NoTextError(Exception):
    """an exception that cannot be turned into text"""
    def __str__(self):
        raise RuntimeError("this exception has no text form")


class Unserialisable(object):
    def __getstate__(self):
        raise RuntimeError("this object cannot be serialised")


VALIDATOR_EXC = ["ValueError", "KeyError", "RuntimeError", "PyroError", "SecurityError", "CommunicationError", "TimeoutError", "ProtocolError",
                 "SerializeError", "NamingError", "ZeroDivisionError", "OSError", "Exception", "ConnectionClosedError", "NoTextError"]

first_kinds = st.sampled_from(["connect"] * 6 + ["invoke", "invoke", "ping", "result", "connectok", "connectfail", "type0", "type7", "type255"])
shapes = st.sampled_from(["ok", "ok", "ok", "ok", "no-handshake", "no-object", "empty-dict", "list", "str", "none", "nested", "int", "extra-keys"])
objects = st.sampled_from(["t", "t", "t", "sess", "Pyro.Daemon", "nope", "gone", "gone", "", "T", "t ", 5, None, ["t"], {"t": 1}, [], {}, 1.5, True])
mals = st.sampled_from([None] * 8 + ["magic", "version", "tag", "dlen+", "dlen-", "alen+", "oversize", "undecodable", "truncate-header", "truncate-body",
                                     "compressed-flag", "garbage"])
sers = st.sampled_from(["marshal", "marshal", "json", "serpent", "msgpack"])
bad_ser_ids = st.sampled_from([None] * 6 + [0, 5, 42, 99, 255])
pipeline_item = st.one_of(
    st.tuples(st.just("invoke"), st.sampled_from(["t", "sess", "Pyro.Daemon"]), st.integers(0, 99), sers),
    st.tuples(st.just("ping")),
).map(list)


@st.composite
def case_strategy(draw):
    branch = draw(st.integers(0, 11))
    if branch >= 10:
        # an otherwise perfect CONNECT for a registered object with exactly ONE thing wrong in its header / framing
        first = {"kind": "connect", "ser": draw(sers), "ser_id": None, "shape": draw(st.sampled_from(["ok", "ok", "nested", "extra-keys"])),
                 "object": draw(st.sampled_from(["t", "sess", "Pyro.Daemon"])), "mal": draw(mals.filter(lambda m: m is not None)),
                 "flags": 0, "seq": draw(st.sampled_from([0, 0, 1, 7, 65535]))}
    elif branch < 5:
        # a perfectly good first message: everything then depends on the validator / the pool (branch 4: ... and on the object named)
        first = {"kind": "connect", "ser": draw(sers), "ser_id": None, "shape": draw(st.sampled_from(["ok", "ok", "nested", "extra-keys"])),
                 "object": draw(st.sampled_from(["t", "sess", "Pyro.Daemon"]) if branch < 4 else objects), "mal": None,
                 "flags": draw(st.sampled_from([0, 0, 64, 1, 4, 8])), "seq": draw(st.sampled_from([0, 0, 1, 7, 65535]))}
    else:
        first = {"kind": draw(first_kinds), "ser": draw(sers), "ser_id": draw(bad_ser_ids), "shape": draw(shapes), "object": draw(objects),
                 "mal": draw(mals), "flags": draw(st.sampled_from([0, 0, 0, 64, 1, 4, 8, 16, 32, 0xfffd & ~2])), "seq": draw(st.sampled_from([0, 0, 1, 7, 65535]))}
    if first["shape"] == "extra-keys":
        first["xkey"] = draw(st.sampled_from(["extra", "meta", "meta", "metadata", "reconnect", "flags", "serializer", "annotations", "oneway", "validated"]))
        first["xval"] = draw(st.sampled_from([1, False, False, True, None, "", 0]))
    vmode = draw(st.sampled_from(["accept", "accept", "accept", "return", "return-unserialisable", "raise", "raise"]))
    validator = {"mode": vmode}
    if vmode == "return":
        validator["value"] = draw(st.sampled_from([None, 0, "", "ok", [1, 2], {"a": 1}, False]))
    if vmode == "raise":
        validator["exc"] = draw(st.sampled_from(VALIDATOR_EXC))
        validator["msg"] = draw(st.sampled_from(["denied!", "", "x" * 50, "ünï", "no user report-\udcff"]))      # (the last one: text that json/msgpack cannot encode)
    pipe = draw(st.lists(pipeline_item, max_size=3))
    return {"first": first, "validator": validator, "pipeline": pipe, "keep_open": draw(st.integers(0, 2)) == 0,
            "logwire": draw(st.integers(0, 2)) == 0}


@st.composite
def stalled_case_strategy(draw):
    """(COMMTIMEOUT shards) a first message of any kind of which only a proper prefix arrives, from a peer that then stays connected
    and silent: the daemon's own timeout ends the wait, and the peer - which is still there - must be told and dropped"""
    case = draw(case_strategy())
    if draw(st.integers(0, 3)) > 0:
        case["first"]["mal"] = draw(st.sampled_from([None, None, None, "undecodable", "compressed-flag", "dlen+", "alen+"]))
        case["stall_after"] = draw(st.one_of(st.integers(1, 45), st.integers(1, 400)))
        case["pipeline"] = []
    return case


# ------------------------------------------------------------------------------------------------

def build_first(first):
    """-> (bytes, wellformed_connect: bool, complete: bool, ser_id_known: bool)"""
    from vlib import live
    ser = first["ser"]
    ser_id = first["ser_id"] if first["ser_id"] is not None else live.SER_IDS[ser]
    kind = first["kind"]
    shape = first["shape"]
    obj = first["object"]
    if ser == "json" and isinstance(obj, (bytes,)):
        obj = "t"
    payload_value = {
        "ok": {"handshake": "hello", "object": obj},
        "no-handshake": {"object": obj},
        "no-object": {"handshake": "hello"},
        "empty-dict": {},
        "list": ["hello", obj],
        "str": "hello",
        "none": None,
        "nested": {"handshake": {"a": [1, {"b": 2}]}, "object": obj},
        "int": 5,
        # members a peer may add on its own (named after things the protocol knows: the daemon owes them nothing)
        "extra-keys": {"handshake": "hello", "object": obj, first.get("xkey", "extra"): first.get("xval", 1)},
    }[shape]
    mtype = {"connect": wire.CONNECT, "invoke": wire.INVOKE, "ping": wire.PING, "result": wire.RESULT, "connectok": wire.CONNECTOK,
             "connectfail": wire.CONNECTFAIL, "type0": 0, "type7": 7, "type255": 255}[kind]
    if kind == "invoke":
        payload = live.call_payload(ser, "t", "hit", (1000,), {})
    elif kind == "ping":
        payload = b"ping"
    else:
        payload = live.raw_dumps(ser, payload_value)
    mal = first["mal"]
    kw = {}
    flags = first["flags"]
    if mal == "undecodable":
        payload = b"\xff\xfe\x00garbage{{{" + payload[:3]
    if mal == "magic":
        kw["magic"] = 0x1234
    if mal == "version":
        kw["version"] = 501
    if mal == "tag":
        kw["tag"] = b"PYRX"
    if mal == "dlen+":
        kw["dlen"] = len(payload) + 7
    if mal == "dlen-":
        kw["dlen"] = max(0, len(payload) - 3)
    if mal == "alen+":
        kw["alen"] = 9
    if mal == "oversize":
        kw["dlen"] = 0x7fffffff
    if mal == "compressed-flag":
        flags |= wire.F_COMPRESSED
    raw = wire.ref_encode(mtype, flags, first["seq"], ser_id, payload, (), None, **kw)
    complete = True
    if mal == "truncate-header":
        raw = raw[:17]
        complete = False
    if mal == "truncate-body":
        raw = raw[:-1] if len(raw) > 40 else raw[:39]
        complete = False
    if mal == "garbage":
        raw = b"GET / HTTP/1.0\r\n\r\n" + b"\x00" * 40
    if mal in ("dlen+", "alen+", "oversize"):
        complete = False       # the header announces more bytes than will ever come
    wellformed = (mal is None and kind == "connect" and ser_id in (1, 2, 3, 4) and ser_id == live.SER_IDS[ser]
                  and shape in ("ok", "nested", "extra-keys") and not flags & wire.F_COMPRESSED)
    return raw, wellformed, complete, ser_id in (1, 2, 3, 4)


KNOWN_OBJECTS = ("t", "sess", "Pyro.Daemon")

_live = {}


STALL_TIMEOUT = 0.25      # COMMTIMEOUT of the "-timeout" variants (a stimulus: the daemon's own clock ends the wait, nothing is judged by ours)


def _setup(variant):
    from vlib import live
    if _live.get("variant") != variant:
        _teardown()
    if "served" in _live:
        return _live
    live.quiet_logs()
    threading.excepthook = lambda a: None
    Target, Sess, LDO = _classes()
    servertype = "multiplex" if variant.startswith("multiplex") else "thread"
    scope = None
    if variant == "thread-poolfull":
        scope = live.ConfigScope(THREADPOOL_SIZE=1, THREADPOOL_SIZE_MIN=1)
        scope.__enter__()
    if variant.endswith("-timeout"):
        scope = live.ConfigScope(COMMTIMEOUT=STALL_TIMEOUT)
        scope.__enter__()
    scope2 = live.ConfigScope(MAX_MESSAGE_SIZE=256 * 1024)
    scope2.__enter__()
    S = live.Served(servertype, daemon_kwargs={"interface": LDO})
    S.daemon.register(Target(), "t")
    S.daemon.register(Sess, "sess")
    # "gone": an id that WAS registered and connected to, and has been unregistered since: it is an unknown object now
    gone = Target()
    S.daemon.register(gone, "gone")
    pg = live.RawPeer(S.address())
    mg = pg.handshake("gone")
    assert isinstance(mg, dict) and mg["type"] == wire.CONNECTOK
    pg.call("gone", "hit", (0,), seq=2)
    pg.close()
    S.daemon.unregister("gone")
    live.wait_for(lambda: S.busy_workers() == 0, 20)
    del EXEC[:]
    _live.update(variant=variant, served=S, scopes=[s for s in (scope, scope2) if s])
    if variant == "thread-poolfull":
        w = live.RawPeer(S.address())
        m = w.handshake("t")
        assert isinstance(m, dict) and m["type"] == wire.CONNECTOK
        _live["witness"] = w
    _live["baseline"] = S.busy_workers()
    return _live


def _teardown():
    if "served" in _live:
        if "witness" in _live:
            _live["witness"].close()
        _live["served"].stop()
        for s in _live.get("scopes", []):
            s.__exit__()
    _live.clear()


def run_case(case, variant=None, keep=False):
    from vlib import live
    import Pyro5.errors
    variant = variant or case.get("variant", "thread")
    L = _setup(variant)
    S = L["served"]
    V = []

    def viol(sig, what):
        V.append(Violation("C08:" + sig, ("[%s] %s  case=%r" % (variant, what, case))[:900]))

    first = case["first"]
    raw, wellformed, complete, ser_known = build_first(first)
    val = case["validator"]
    stalled = False
    if case.get("stall_after") and variant.endswith("-timeout") and len(raw) > 1:
        # only a proper prefix of the first message arrives, then silence on an open connection
        raw = raw[:1 + (case["stall_after"] - 1) % (len(raw) - 1)]
        complete = wellformed = False
        stalled = True
    from Pyro5 import config as _config
    old_logwire = _config.LOGWIRE
    _config.LOGWIRE = bool(case.get("logwire"))      # the wire-log debugging switch must not change what a refused peer is told

    def validator(conn, data):
        if val["mode"] == "accept":
            return "hello"
        if val["mode"] == "return":
            return val["value"]
        if val["mode"] == "return-unserialisable":
            return Unserialisable()
        if val["exc"] == "NoTextError":
            raise NoTextError(val["msg"])
        cls = getattr(Pyro5.errors, val["exc"], None) or getattr(__import__("builtins"), val["exc"])
        raise cls(val["msg"])
    S.daemon.v_validator = validator
    obj = first["object"]
    accepted = (wellformed and variant != "thread-poolfull" and isinstance(obj, str) and obj in KNOWN_OBJECTS
                and val["mode"] in ("accept", "return"))
    # pipelined messages
    pipe = b""
    expect_replies = []
    seq = 100
    for item in case["pipeline"]:
        seq += 1
        if item[0] == "ping":
            pipe += wire.ref_encode(wire.PING, 0, seq, 42, b"ping")
            expect_replies.append(("ping", seq, None))
        else:
            _k, oid, x, ser = item
            method = "hit" if oid != "Pyro.Daemon" else "ping"
            args = (x,) if oid != "Pyro.Daemon" else ()
            pipe += wire.ref_encode(wire.INVOKE, 0, seq, live.SER_IDS[ser], live.call_payload(ser, oid, method, args, {}))
            expect_replies.append(("invoke", seq, (oid, x, ser)))
    if first["mal"] in ("dlen+", "alen+", "oversize", "truncate-header", "truncate-body"):
        # the header announces more bytes than the first message has (or the message was cut short): anything written behind it
        # would be read as part of that message (and e.g. marshal ignores trailing bytes), so it would not be malformed at all from the server's view
        pipe = b""
        expect_replies = []
    del EXEC[:]
    validated_before = validated_after = len(S.daemon.v_validated)
    peer = live.RawPeer(S.address())
    # a refused peer that keeps its socket OPEN (sends nothing more, does not hang up): the daemon must close the connection and
    # let go of it on its own.  Only when the first message is complete as sent (otherwise the daemon rightly waits for the rest).
    lingering = (bool(case.get("keep_open")) and not accepted and complete and first["mal"] not in ("dlen+", "alen+", "oversize")) or stalled
    try:
        peer.send(raw + pipe)
        if not lingering:
            peer.half_close()
        msgs, ended = peer.read_until_closed()
        validated_after = len(S.daemon.v_validated)      # (taken before the probe connection below consults the validator itself)
        if lingering:
            if ended[0] not in ("eof", "reset"):
                viol("not-closed", "refused peer that keeps its socket open: the daemon did not close the connection (%r)" % (ended,))
            elif not live.wait_for(lambda: S.busy_workers() == L["baseline"], 10):
                viol("refused-connection-not-released", "the peer saw the connection closed, but the daemon still holds it while the peer keeps its "
                     "socket open (busy=%d baseline=%d)" % (S.busy_workers(), L["baseline"]))
            elif variant != "thread-poolfull":
                # ... and the daemon is free to serve others meanwhile
                S.daemon.v_validator = None         # (the probe is an ordinary client: accepted)
                probe = live.RawPeer(S.address(), timeout=10.0)
                try:
                    pm = probe.handshake("t")
                    if not (isinstance(pm, dict) and pm["type"] == wire.CONNECTOK):
                        viol("daemon-unresponsive-after-refusal", "while a refused peer keeps its socket open a new client's handshake got %r" % (pm,))
                finally:
                    probe.close()
    finally:
        peer.close()
        _config.LOGWIRE = old_logwire
    # the server must have let go of the connection
    if not live.wait_for(lambda: S.busy_workers() == L["baseline"], 30):
        viol("connection-not-released", "worker/selector slot still occupied after the peer closed (busy=%d baseline=%d)" % (S.busy_workers(), L["baseline"]))
    with ELOCK:
        executed = list(EXEC)
    types = [m["type"] for m in msgs]
    if not accepted:
        if executed:
            viol("executed-before-handshake", "handshake must fail (%s) but registered objects ran %r" % (_why(first, val, variant, wellformed), executed))
        if wire.CONNECTOK in types:
            viol("connectok-for-bad-handshake", "CONNECTOK sent although the handshake must fail (%s)" % _why(first, val, variant, wellformed))
        if wire.RESULT in types:
            viol("result-after-failed-handshake", "RESULT message sent on a connection whose handshake failed: types %r" % types)
        if ended[0] not in ("eof", "reset"):
            viol("not-closed", "connection not closed after failed handshake: %r" % (ended,))
        # (a stalled message is answered in the default serializer: its header was not accepted; so is a connect that is turned away
        #  because every worker is busy - whatever serializer the peer named, the daemon can say why)
        need_fail = (complete and (ser_known or variant == "thread-poolfull")) or stalled
        if val["mode"] == "raise" and val.get("exc") == "ConnectionClosedError" and wellformed and variant != "thread-poolfull":
            need_fail = need_fail       # (kept: the statement demands the reason also here)
        if need_fail:
            if not msgs or msgs[0]["type"] != wire.CONNECTFAIL:
                if case["pipeline"] and peer.reset_seen and not msgs:
                    pass        # reset swallowed the reply (tolerated only with pipelined bytes)
                else:
                    consulted_ = validated_after > validated_before
                    feat = "validator-raises-" + val["exc"] if (val["mode"] == "raise" and (wellformed or consulted_) and variant != "thread-poolfull") else "first-message"
                    if stalled:
                        feat = "stalled-first-message"
                    elif feat.startswith("validator-raises-") and (val["exc"] == "NoTextError" or "\udcff" in val.get("msg", "")) and val["exc"] != "ConnectionClosedError":
                        feat = "reason-cannot-be-rendered"      # (one root cause whatever the class: the failure report itself fails)
                    viol("no-connectfail:" + feat, "no CONNECTFAIL as first reply (%s): got types %r, ended %r" % (_why(first, val, variant, wellformed), types, ended))
            else:
                try:
                    reason = live.reply_value(msgs[0])
                except Exception as x:
                    reason = x
                if not isinstance(reason, str) or not reason:
                    consulted = validated_after > validated_before
                    if not (val["mode"] == "raise" and val.get("msg") == "" and consulted):     # the validator's own (empty) text is the reason
                        viol("connectfail-without-reason", "CONNECTFAIL payload is %r" % (reason,))
                if len(msgs) > 1:
                    viol("messages-after-connectfail", "messages after CONNECTFAIL: types %r" % types[1:])
    else:
        if not msgs or msgs[0]["type"] != wire.CONNECTOK:
            viol("valid-handshake-refused", "well-formed CONNECT for %r with accepting validator answered with %r / %r" % (obj, types, ended))
        else:
            if msgs[0]["seq"] != first["seq"]:
                viol("connectok-seq", "CONNECTOK seq %d for CONNECT seq %d" % (msgs[0]["seq"], first["seq"]))
            want_exec = []
            ok = True
            for (kind, sq, info), m in zip(expect_replies, msgs[1:]):
                if kind == "ping":
                    if m["type"] != wire.PING or m["seq"] != sq:
                        viol("pipelined-reply", "ping %d answered with type %d seq %d" % (sq, m["type"], m["seq"]))
                else:
                    oid, x, ser = info
                    if m["type"] != wire.RESULT or m["seq"] != sq:
                        viol("pipelined-reply", "invoke %d answered with type %d seq %d" % (sq, m["type"], m["seq"]))
            for kind, sq, info in expect_replies:
                if kind == "invoke":
                    oid, x, ser = info
                    if oid == "t":
                        want_exec.append(("hit", x))
                    elif oid == "sess":
                        if ("Sess.__init__",) not in want_exec:
                            want_exec.append(("Sess.__init__",))
                        want_exec.append(("sess.hit", x))
                    else:
                        want_exec.append(("daemon.ping",))
            if len(msgs) - 1 != len(expect_replies):
                viol("pipelined-reply", "%d pipelined requests, %d replies (%r)" % (len(expect_replies), len(msgs) - 1, ended))
            if executed != want_exec:
                viol("pipelined-execution", "after an accepted handshake the pipelined requests must run in order: log %r, expected %r" % (executed, want_exec))
    if validated_after > validated_before and (first["kind"] != "connect" or variant == "thread-poolfull"):
        viol("validator-called-for-bad-message", "validator was consulted although the first message is no CONNECT / the pool is full")
    if not S.loop_alive():
        viol("loop-died", "request loop terminated")
    if not keep:
        _teardown()
    return V


def _why(first, val, variant, wellformed):
    if variant == "thread-poolfull":
        return "pool full"
    if not wellformed:
        return "first message kind=%s mal=%s shape=%s ser_id=%s" % (first["kind"], first["mal"], first["shape"], first["ser_id"])
    if not (isinstance(first["object"], str) and first["object"] in KNOWN_OBJECTS):
        return "unknown object %r" % (first["object"],)
    return "validator %s" % (val,)


def _nontrivial(case):
    raw, wellformed, complete, ser_known = build_first(case["first"])
    obj = case["first"]["object"]
    accepted = wellformed and isinstance(obj, str) and obj in KNOWN_OBJECTS and case["validator"]["mode"] in ("accept", "return")
    return (not accepted) and any(i[0] == "invoke" for i in case["pipeline"])


def _labels(case):
    raw, wellformed, complete, ser_known = build_first(case["first"])
    obj = case["first"]["object"]
    accepted = wellformed and isinstance(obj, str) and obj in KNOWN_OBJECTS and case["validator"]["mode"] in ("accept", "return")
    l = ["first:" + case["first"]["kind"], "validator:" + case["validator"]["mode"], "accepted" if accepted else "must-fail"]
    if case["first"]["mal"]:
        l.append("malformed:" + case["first"]["mal"])
    if case.get("logwire"):
        l.append("config:LOGWIRE")
    if case.get("stall_after"):
        l.append("first-message-stalls-after-a-proper-prefix")
    if not accepted and case["pipeline"]:
        l.append("must-fail+pipelined")
    if case.get("keep_open") and not accepted and complete and case["first"]["mal"] not in ("dlen+", "alen+", "oversize"):
        l.append("refused-peer-keeps-socket-open")
    return l


def SHARDS(tier):
    base = [{"variant": "thread"}, {"variant": "multiplex"}, {"variant": "thread-poolfull"}]
    return base * (2 if tier == "quick" else 5) + [{"variant": "thread-timeout"}, {"variant": "multiplex-timeout"}] * (1 if tier == "quick" else 3)


def run(ctx):
    variant = ctx.shard.get("variant", "thread")
    try:
        if variant.endswith("-timeout"):
            ctx.search(stalled_case_strategy(), lambda c: run_case(c, variant, keep=True), ctx.n(45, 400), nontrivial=lambda c: bool(c.get("stall_after")) or _nontrivial(c),
                       labels=_labels, name="handshake" + variant, max_rounds=2, shrink_budget_s=20)
            return
        ctx.search(case_strategy(), lambda c: run_case(c, variant, keep=True), ctx.n(800, 5000), nontrivial=_nontrivial, labels=_labels,
                   name="handshake" + variant, max_rounds=8)
    finally:
        _teardown()
