"""C10 - a remote iterator delivers exactly the server's items, once, in order; the server forgets streams when it should.

Domain : histories of <= 25 ops over <= 2 proxies (each its own connection) and <= 4 streams against ONE live daemon per shard
         (thread / multiplex server type x serpent / marshal / json / msgpack), with a per-case configuration
         ITER_STREAMING on/off, ITER_STREAM_LIFETIME in {0, 7, 30}, ITER_STREAM_LINGER in {0, 10, 40} and a VIRTUAL server
         clock (Pyro5.server.time is replaced inside the test process; only the harness advances it).
         ops: ["open", p]   proxy p calls make(token): the server builds a generator / iter(list) / custom iterator from the
                            next plan of the case (items = small core values wrapped as [token, index, value] so every item is
                            globally unique; optionally "raise class E in place of item i")
              ["next", s]   next() on the client iterator of stream s       ["close", s]  its close()
              ["drop", s]   drop the only reference + gc.collect()  (the __del__ path)
              ["disc", p]   proxy._pyroRelease()                             ["reco", p]   proxy._pyroReconnect()
              ["call", p]   an unrelated normal call on proxy p (makes the recorded sequence number of its streams diverge:
                            close() then takes the "temporary second proxy" path)
              ["hk"]        housekeeping from the harness thread: daemon._housekeeping() (thread server) / daemon.events([]), i.e. one
                            round of an application-driven event loop in which no socket was ready (multiplex server)
              ["adv", dt]   advance the virtual clock
              ["hkn", s]    next() on stream s from a helper thread; while the server-side generator is producing that item the
                            harness runs daemon._housekeeping() (thread server; s >= 4: the stream's lifetime has just run out)
         entity references are indices modulo the population: a stream reference 0..5 is taken modulo the LIVE population
         (client handle open, stream not known to be forgotten), 6.. modulo all streams opened so far (so ended streams are
         poked as well); an op without a target (no stream yet, fifth open) is skipped, so every op list is executable.
         Every case ends with an implicit tail: release both proxies, advance the clock beyond lifetime+linger, housekeeping.
Model  : per stream: source list, cursor, server state live / lingering(since) / forgotten(why), owning connection, creation
         time; client handle open / dead / dropped; per proxy: connected or not.
Oracle : every next() outcome equals the model's: the item source[cursor] (vlib.values.same), StopIteration exactly at the
         end, the plan's exception CLASS at its index, an error (any exception, never an item) when the model says forgotten
         or the proxy is released; after every op, at quiescence, the key set of daemon.streaming_responses is exactly the
         set of not-forgotten streams of the model.  Between the moment a stream has expired on the virtual clock and the
         next explicit housekeeping step the daemon's own background housekeeping may or may not have removed it: both
         outcomes are legal there and the model follows what was observed; a stream that has NOT expired must be present.
         ITER_STREAMING off: the call raises ProtocolError and nothing is registered.
Layer T (checks/c10_table.py, "table" shards): the daemon-internal operations on the stream table (housekeeping, next, close_stream,
         disconnect handling, registration of a new stream) run by 2-3 threads under the harness-owned scheduler, all schedules with
         <= 1 (quick) / <= 2 (thorough) deviations from run-to-block for a catalogue of operation pairs plus generated tables and
         operation sets; every fact all sequential orders of the same operations agree on must hold for every interleaving.
"""
import atexit
import contextlib
import gc
import threading
import time as _real_time
import weakref

from hypothesis import strategies as st

from vlib import values as V
from vlib import live
from vlib.driver import Violation

PROPERTY = "C10"
LEVEL = "exploration"
RULE = ("a case = {config: {streaming, lifetime in 0|7|30, linger in 0|10|40}, plans: <= 3 item plans (kind gen|list|custom, <= 6 "
        "(thorough, half of the shards: <= 30) small core values, optional exception class at an index), ops: 1-3 opens followed by "
        "<= 25 of open/next/close/drop/disc/reco/call/hk/adv (three op-weight profiles: mixed, next-heavy, clock-heavy)} generated "
        "by Hypothesis, executed against a live daemon (thread|multiplex x 4 serializers) with a virtual clock next to a reference model. "
        "Non-trivial: two streams received items in interleaved order, or a proxy with a registered stream was disconnected/"
        "reconnected, or a stream expired (lifetime or linger); distinct = distinct case JSON. Table layer: a case = (table of 1-3 streams attached/"
        "lingering/expired, 2-3 daemon-internal operations from hk|next|close|disc|open, lifetime, linger) x every schedule with <= 1 (thorough: 2) "
        "deviations from run-to-block at source-line granularity of server.py; oracle = facts common to all sequential orders")
ASSUMPTIONS = [
    "the virtual clock is advanced only by the harness, in whole seconds; lifetime/linger are whole numbers (no float rounding at the boundary)",
    "config items are constant during a case (ITER_STREAMING/ITER_STREAM_LIFETIME/ITER_STREAM_LINGER are read by the server at call time)",
    "'an error' for a forgotten stream is any exception, including the StopIteration a closed/exhausted client iterator raises locally",
    "close()/__del__ on an iterator whose proxy is released sends nothing (there is no connection): the server side then ends by linger expiry, which the model follows",
    "on thread servers the harness holds daemon.housekeeper_lock while one op is in flight, so the daemon's background housekeeping runs between ops only: "
    "the only overlap of housekeeping with request handling that is explored is the 'hkn' op (thread server): housekeeping called while a generator is producing its next item (the generator waits on an event of the harness), optionally with the clock moved beyond that stream's lifetime first",
    "the harness waits for the server side of a released connection to be closed and for a oneway close_stream to have run before it looks at the stream table "
    "(60 s ceiling as hang guard only)",
    "exceptions raised by the generator are compared by class only (content is C07's business); CommunicationError subclasses are not used (open C07 finding)",
]
BUDGET_S = {"quick": 30, "thorough": 600}      # running out ends the search early (evidence: budget_exhausted), never a verdict

CEILING = 60.0          # seconds; normal latency is below a millisecond - this only guards against a hang
CLOSE_CEILING = 20.0    # wait for a oneway close_stream to have run on the server (normally well below a millisecond)
CLOCK0 = 1000.0
DTS = [1, 2, 3, 5, 6, 7, 8, 9, 10, 11, 4, 20, 1, 29, 30, 31, 2, 40, 41, 5]
EXC = ["ValueError", "KeyError", "ZeroDivisionError", "NamingError", "DaemonError"]
KINDS = ["gen", "list", "custom"]
MAX_STREAMS = 4
SERIALIZERS = ["serpent", "marshal", "json", "msgpack"]

PLANS = {}              # token -> normalised plan, written by the harness before make(token) is called
CLOSE_CALLS = {}        # streamId -> number of close_stream invocations that have completed on the server
CLOSE_LOCK = threading.Lock()
HOLD = {}               # token -> (item index, Event "the generator is producing that item", Event "go on")


class _Stop(Exception):
    """a hang-type violation was recorded: the daemon may be stuck, start the next case on a fresh one"""


class VClock(object):
    """stands in for the `time` module inside Pyro5.server"""
    def __init__(self):
        self.now = CLOCK0

    def time(self):
        return self.now

    def sleep(self, s):
        _real_time.sleep(s)

    def __getattr__(self, name):
        return getattr(_real_time, name)


def exc_class(name):
    import Pyro5.errors
    return {"ValueError": ValueError, "KeyError": KeyError, "ZeroDivisionError": ZeroDivisionError,
            "NamingError": Pyro5.errors.NamingError, "DaemonError": Pyro5.errors.DaemonError}[name]


def norm_plan(plan, token):
    """-> (kind, items as sent, raise_at or None, exception name)"""
    items = [[token, i, v] for i, v in enumerate(plan["items"])]
    r = plan.get("raise")
    if r is None:
        return plan["kind"], items, None, None
    kind = "gen" if plan["kind"] == "list" else plan["kind"]       # iter(list) cannot raise
    return kind, items, r[0] % (len(items) + 1), r[1]


_cls = {}


def _classes():
    if _cls:
        return _cls["Target"], _cls["ODO"]
    import Pyro5.api as api
    import Pyro5.server

    class CustomIter(object):
        """plain iterator class; after raising the planned exception it would go on with the remaining items"""
        def __init__(self, items, raise_at, exc):
            self.items, self.raise_at, self.exc, self.i, self.raised = items, raise_at, exc, 0, False

        def __iter__(self):
            return self

        def __next__(self):
            if self.i == self.raise_at and not self.raised:
                self.raised = True
                raise self.exc("planned failure at %d" % self.i)
            if self.i >= len(self.items):
                raise StopIteration
            self.i += 1
            return self.items[self.i - 1]

    def generator(items, raise_at, exc, token=None):
        def maybe_hold(i):
            hold = HOLD.get(token)
            if hold is not None and hold[0] == i:
                # the harness wants this step (item, planned failure or the end) to be "in production" for a while
                # (housekeeping runs meanwhile)
                HOLD.pop(token, None)
                hold[1].set()
                hold[2].wait(CEILING)
        for i, x in enumerate(items):
            maybe_hold(i)
            if i == raise_at:
                raise exc("planned failure at %d" % i)
            yield x
        maybe_hold(len(items))
        if raise_at == len(items):
            raise exc("planned failure at %d" % raise_at)

    @api.expose
    class Target(object):
        def make(self, token):
            kind, items, raise_at, excname = PLANS[token]
            exc = exc_class(excname) if excname else None
            if kind == "list":
                return iter(list(items))
            if kind == "custom":
                return CustomIter(list(items), raise_at, exc)
            return generator(list(items), raise_at, exc, token)

        def ping(self, x):
            return x

    @api.expose
    class ObservedDaemonObject(Pyro5.server.DaemonObject):
        """close_stream arrives as a oneway call (own server thread): tell the harness when it has run"""
        def close_stream(self, streamId):
            try:
                return super(ObservedDaemonObject, self).close_stream(streamId)
            finally:
                with CLOSE_LOCK:
                    CLOSE_CALLS[streamId] = CLOSE_CALLS.get(streamId, 0) + 1

    _cls.update(Target=Target, ODO=ObservedDaemonObject)
    return Target, ObservedDaemonObject


_live = {"served": {}, "n": 0}
_atexit = []


def _setup(servertype):
    """one daemon per server type, reused by all cases of the process; the virtual clock is shared"""
    import Pyro5.server
    S = _live["served"].get(servertype)
    if S is not None and S.loop_alive():
        return S
    if S is not None:
        _drop(servertype)
    live.quiet_logs()
    threading.excepthook = lambda a: None
    if "clock" not in _live:
        _live["old_time"] = Pyro5.server.time
        _live["clock"] = VClock()
        Pyro5.server.time = _live["clock"]
    if not _atexit:
        atexit.register(_teardown)
        _atexit.append(1)
    Target, ODO = _classes()
    S = live.Served(servertype, daemon_kwargs={"interface": ODO})
    S.daemon.register(Target(), "c10")
    _live["served"][servertype] = S
    return S


def _drop(servertype):
    S = _live["served"].pop(servertype, None)
    if S is not None:
        S.stop()


def _teardown():
    for t in list(_live["served"]):
        _drop(t)
    if "old_time" in _live:
        import Pyro5.server
        Pyro5.server.time = _live.pop("old_time")
        _live.pop("clock", None)


class MStream(object):
    def __init__(self, idx, token, proxy, kind, items, raise_at, excname, owner, created):
        self.idx, self.token, self.proxy, self.kind = idx, token, proxy, kind
        self.items, self.raise_at, self.excname = items, raise_at, excname
        self.cursor = 0
        self.state = "live"         # server side: live | lingering | forgotten
        self.why = None
        self.owner = owner
        self.created = created
        self.since = None
        self.sid = None
        self.it = None              # the client iterator (the ONLY reference to it)
        self.handle = "open"        # client side: open | dead | dropped


_LAST = {"labels": (), "nontrivial": False}


def run_case(case, servertype=None, serializer=None):
    if case.get("layer") == "table":
        from checks import c10_table
        return c10_table.run_case(case)
    servertype = servertype or case.get("servertype", "thread")
    serializer = serializer or case.get("serializer", "serpent")
    S = _setup(servertype)
    run = _Run(S, case, servertype, serializer)
    stuck = False
    try:
        run.execute()
    except _Stop:
        stuck = True
    finally:
        try:
            run.cleanup()
        finally:
            if stuck:
                _drop(servertype)       # the daemon may be left with stuck connections: next case gets a fresh one
    _LAST["labels"] = sorted(run.labels)
    _LAST["nontrivial"] = bool(run.labels & NONTRIVIAL_LABELS)
    return run.V


NONTRIVIAL_LABELS = {"interleaved", "disconnect-with-streams", "reconnect-within-linger", "expired-by-lifetime", "expired-by-linger"}


class _Run(object):
    def __init__(self, S, case, servertype, serializer):
        self.case, self.servertype, self.serializer = case, servertype, serializer
        self.S = S
        self.D = S.daemon
        self.clock = _live["clock"]
        cfg = case["config"]
        self.streaming = bool(cfg["streaming"])
        self.LT = float(cfg["lifetime"])
        self.G = float(cfg["linger"])
        _live["n"] += 1
        self.caseno = _live["n"]
        self.V = []
        self.labels = set()
        self.streams = []
        self.P = []
        self.nconn = 0
        self.item_order = []        # condensed sequence of stream indices that received items
        self.scope = None
        self.guard = self.D.housekeeper_lock if servertype == "thread" else contextlib.nullcontext()

    # ---- helpers
    def viol(self, sig, what):
        self.V.append(Violation("C10:" + sig, ("[%s,%s] %s  case=%r" % (self.servertype, self.serializer, what, self.case))[:1200]))

    def expired_why(self, s):
        if s.state == "forgotten":
            return None
        if self.LT > 0 and self.clock.now - s.created > self.LT:
            return "lifetime"
        if s.state == "lingering" and self.clock.now - s.since > self.G:
            return "linger"
        return None

    def forget(self, s, why):
        if s.state != "forgotten":
            s.state, s.why, s.owner = "forgotten", why, None
            if why in ("lifetime", "linger"):
                self.labels.add("expired-by-" + why)

    def connect_model(self, p):
        if p["conn"] is None:
            self.nconn += 1
            p["conn"] = self.nconn

    def disconnect_model(self, p):
        c = p["conn"]
        if c is None:
            return
        for s in self.streams:
            if s.state == "live" and s.owner == c:
                self.labels.add("disconnect-with-streams")
                if self.G > 0:
                    s.state, s.since, s.owner = "lingering", self.clock.now, None
                else:
                    self.forget(s, "disconnect")
        p["conn"] = None

    def open_server_conns(self):
        with self.D.v_lock:
            conns = [c for c, _ in self.D.v_validated]
        return sum(1 for c in conns if c.sock.fileno() != -1)

    def settle(self):
        """quiescence: the server has finished with every connection the clients have closed"""
        want = sum(1 for p in self.P if p["conn"] is not None)
        if not live.wait_for(lambda: self.open_server_conns() == want, CEILING, step=0.0002):
            self.viol("hang:connection-count", "server side has %d open connections, the clients %d" % (self.open_server_conns(), want))
            raise _Stop()

    def close_count(self, sid):
        with CLOSE_LOCK:
            return CLOSE_CALLS.get(sid, 0)

    def check_table(self, after):
        keys = set(self.D.streaming_responses)
        known = set()
        for s in self.streams:
            if s.sid is None:
                continue
            known.add(s.sid)
            present = s.sid in keys
            if s.state == "forgotten":
                if present:
                    self.viol("table:not-forgotten:" + s.why, "stream %d (%s) is still registered after op %s although it is %s" % (
                        s.idx, s.token, after, s.why))
            elif self.expired_why(s):
                if not present:
                    self.forget(s, "background-expiry")      # the daemon's own housekeeping got there first: legal
            elif not present:
                self.viol("table:lost:%s:after-%s" % (s.state, after.split(" ")[0]),
                          "stream %d (%s, %s, age %s, lingering since %s, now %s) is no longer registered after op %s" % (
                              s.idx, s.token, s.state, self.clock.now - s.created, s.since, self.clock.now, after))
        if keys - known:
            self.viol("table:unknown-entry:streaming-%s" % ("on" if self.streaming else "off"),
                      "%d registered stream(s) that no client holds, after op %s" % (len(keys - known), after))

    # ---- execution
    def execute(self):
        case = self.case
        self.scope = live.ConfigScope(ITER_STREAMING=self.streaming, ITER_STREAM_LIFETIME=self.LT, ITER_STREAM_LINGER=self.G)
        self.scope.__enter__()
        self.clock.now = CLOCK0
        import Pyro5.api as _api
        import uuid as _uuid
        if case["config"].get("corr"):
            # the client gives all its requests of this case one correlation id (request tracing across several streams)
            _api.current_context.correlation_id = _uuid.UUID(int=0xC10C10 + self.caseno)
            self.labels.add("client-correlation-id")
        else:
            _api.current_context.correlation_id = None
        self.D.v_hook_raises = bool(case["config"].get("hook_raises"))       # an application disconnect hook that fails
        if self.D.v_hook_raises:
            self.labels.add("disconnect-hook-raises")
        if not self.streaming:
            self.labels.add("streaming-off")
        uri = self.S.uri("c10")
        for i in range(2):
            self.P.append({"proxy": live.proxy(uri, serializer=self.serializer, timeout=CEILING), "conn": None})
        if self.D.streaming_responses:
            self.viol("harness:table-not-empty-at-start", "stream table not empty at the start of a case")
            return
        for n, op in enumerate(case["ops"]):
            name = op[0]
            desc = "%s #%d" % (name, n)
            if name == "hk":
                self.op_hk()
            elif name == "hkn":
                self.op_hkn(int(op[1]))
                if self.V:
                    return
                with self.guard:
                    self.settle()
            elif name == "adv":
                self.clock.now += int(op[1])
            else:
                with self.guard:
                    getattr(self, "op_" + name)(int(op[1]))
                    if self.V:
                        return
                    self.settle()
            if not self.V:
                self.check_table(desc)
            if self.V:
                return
        # ---- implicit tail: everybody leaves, time passes, housekeeping: nothing may stay behind
        with self.guard:
            for p in self.P:
                p["proxy"]._pyroRelease()
                self.disconnect_model(p)
            self.settle()
        self.check_table("final-release")
        if self.V:
            return
        for s in self.streams:
            s.it = None
        self.clock.now += self.G + self.LT + 1
        self.op_hk()
        self.check_table("final-hk")
        if not self.S.loop_alive():
            self.viol("loop-died", "request loop terminated")

    def cleanup(self):
        for s in self.streams:
            s.it = None
        for p in self.P:
            try:
                p["proxy"]._pyroRelease()
            except Exception:
                pass
        self.P = []
        for s in self.streams:
            PLANS.pop(s.token, None)
            if s.sid:
                with CLOSE_LOCK:
                    CLOSE_CALLS.pop(s.sid, None)
        PLANS.pop("c%dfail" % self.caseno, None)
        if self.scope is not None:
            self.scope.__exit__()
        import Pyro5.api as _api
        _api.current_context.correlation_id = None
        self.D.v_hook_raises = False
        D = self.D
        live.wait_for(lambda: self.open_server_conns() == 0, 5.0, step=0.0005)
        with D.housekeeper_lock:
            D.streaming_responses.clear()
        with D.v_lock:
            del D.v_validated[:]
            del D.v_disconnects[:]

    # ---- ops
    def op_open(self, pi):
        import Pyro5.errors
        if len(self.streams) >= MAX_STREAMS:
            return
        p = self.P[pi % 2]
        k = len(self.streams)
        plans = self.case["plans"]
        plan = plans[k % len(plans)]
        token = "c%ds%d" % (self.caseno, k) if self.streaming else "c%dfail" % self.caseno
        kind, items, raise_at, excname = norm_plan(plan, token)
        PLANS[token] = (kind, items, raise_at, excname)
        self.connect_model(p)           # the call connects a released proxy by itself
        it = None
        try:
            it = p["proxy"].make(token)
        except Pyro5.errors.ProtocolError:
            if self.streaming:
                self.viol("open-failed:ProtocolError", "make() raised ProtocolError although streaming is enabled")
                return
            # streaming disabled: the documented refusal; the client releases its connection on this error class
            self.disconnect_model(p)
            return
        except Exception as x:
            self.viol("open-failed:" + type(x).__name__, "make() raised %s: %.100s" % (type(x).__name__, x))
            return
        if not self.streaming:
            self.viol("streaming-off:iterator-returned", "make() returned %.80r although ITER_STREAMING is off" % (it,))
            return
        sid = getattr(it, "streamId", None)
        if not isinstance(sid, str) or not sid:
            self.viol("open-failed:no-iterator", "make() returned %.80r instead of a stream iterator" % (it,))
            return
        s = MStream(k, token, pi % 2, kind, items, raise_at, excname, p["conn"], self.clock.now)
        s.sid = sid
        s.it = it
        del it
        self.streams.append(s)
        self.labels.add("kind:" + kind)
        if raise_at is not None:
            self.labels.add("plan-raises")
        if not items:
            self.labels.add("plan-empty")

    def expected(self, s):
        if s.raise_at is not None and s.cursor == s.raise_at:
            return ("raise", s.excname)
        if s.cursor >= len(s.items):
            return ("stop", None)
        return ("item", s.items[s.cursor])

    def observe_next(self, s):
        try:
            v = next(s.it)
        except StopIteration:
            return ("stop", None)
        except Exception as x:
            return ("error", type(x))
        return ("item", v)

    def classify_item(self, s, v):
        if any(V.same(v, x) for x in s.items[:s.cursor]):
            return "repeated"
        if any(V.same(v, x) for x in s.items[s.cursor + 1:]):
            return "skipped"
        if isinstance(v, list) and len(v) == 3 and any(o is not s and v[0] == o.token for o in self.streams):
            return "from-other-stream"
        return "altered"

    def pick(self, si):
        """stream reference: 0..5 -> index modulo the live population (client handle open, not known to be forgotten),
        6..7 (or nothing live) -> index modulo all streams opened so far, so that dead ones are poked as well"""
        if not self.streams:
            return None
        alive = [s for s in self.streams if s.handle == "open" and s.state != "forgotten"]
        if si < 6 and alive:
            return alive[si % len(alive)]
        s = self.streams[si % len(self.streams)]
        return None if s.handle == "dropped" else s

    def op_hkn(self, si):
        """housekeeping runs WHILE the server is producing the next item of a stream (thread server: the housekeeper is a thread of
        its own).  si >= 4: the clock is first moved beyond the stream's lifetime, so housekeeping finds the very stream expired
        whose generator is executing.  Whatever housekeeping decides, it must not fail, and what the generator was producing - the
        item, its planned exception or the end of the stream - is what the client gets."""
        s = self.pick(si % 6)
        suitable = (self.servertype == "thread" and s is not None and s.kind == "gen" and s.handle == "open" and s.state == "live"
                    and s.sid is not None and self.P[s.proxy]["conn"] is not None)
        if not suitable:
            with self.guard:
                self.op_next(si % 6)
            if not self.V:
                self.op_hk()
            return
        if si >= 4 and self.LT > 0 and not self.expired_why(s):
            self.clock.now = s.created + int(self.LT) + 1
        ev_in, ev_go = threading.Event(), threading.Event()
        HOLD[s.token] = (s.cursor, ev_in, ev_go)

        def observe(s_):
            box = []
            prox = self.P[s_.proxy]["proxy"]

            def client():
                prox._pyroClaimOwnership()      # a proxy belongs to one thread at a time
                box.append(self.observe_next(s_))
            t = threading.Thread(target=client, name="c10-inflight-next", daemon=True)
            t.start()
            live.wait_for(lambda: ev_in.is_set() or not t.is_alive(), CEILING, step=0.0002)
            try:
                if ev_in.is_set():
                    self.inflight_entered = True        # the server WAS inside this stream's next(): the outcome must be the stream's own
                    self.labels.add("housekeeping-during-next" + (":stream-expired" if self.expired_why(s_) else "") + ":" + self.expected(s_)[0])
                    try:
                        self.D._housekeeping()
                    except Exception as x:
                        self.viol("housekeeping-raises:during-next", "housekeeping raised %r while the next item of stream %d (%s) was being produced "
                                  "(in the daemon this ends the housekeeper thread: no stream expires any more)" % (x, s_.idx, s_.token))
            finally:
                HOLD.pop(s_.token, None)
                ev_go.set()
            t.join(CEILING)
            if not box:
                self.viol("hang:next", "next() on stream %d did not return" % s_.idx)
                raise _Stop()
            prox._pyroClaimOwnership()
            return box[0]
        self.inflight_entered = False
        try:
            self.op_next(si % 6, observe=observe, target=s)
        finally:
            self.inflight_entered = False
        if not self.V:
            for o in self.streams:
                why = self.expired_why(o)
                if why:
                    self.forget(o, why)

    def op_next(self, si, observe=None, target=None):
        s = target or self.pick(si)
        if s is None:
            return
        p = self.P[s.proxy]
        handle0 = s.handle
        obs = (observe or self.observe_next)(s)
        obs_txt = obs[0] if obs[0] != "error" else "error:" + obs[1].__name__
        if obs[0] == "stop":
            s.handle = "dead"           # the client iterator lets go of its proxy on StopIteration
        # closed/exhausted iterator, released proxy, or a stream the server must have forgotten: an error, never an item
        why = "dead-handle" if handle0 == "dead" else "released-proxy" if p["conn"] is None else s.why if s.state == "forgotten" else None
        if why is not None:
            if obs[0] == "item":
                self.viol("next:item-after-forgotten:" + why, "stream %d (%s) delivered %.80r although it is %s" % (s.idx, s.token, obs[1], why))
            elif why in ("lifetime", "linger", "background-expiry", "disconnect"):
                self.labels.add("next-after-" + why)
            return
        exp = self.expected(s)
        pending = self.expired_why(s)
        state0 = s.state
        if obs[0] == "item":
            if exp[0] != "item":
                self.viol("next:%s:expected-%s:got-item" % (state0, exp[0]), "stream %d (%s) at cursor %d: expected %s, got item %.80r" % (
                    s.idx, s.token, s.cursor, exp[0] if exp[0] == "stop" else exp[1], obs[1]))
                return
            if not V.same(obs[1], exp[1]):
                self.viol("next:%s:item-%s" % (state0, self.classify_item(s, obs[1])), "stream %d (%s) at cursor %d: expected %.80r, got %.80r" % (
                    s.idx, s.token, s.cursor, exp[1], obs[1]))
                return
            s.cursor += 1
            if s.state == "lingering":
                self.labels.add("revived-after-linger-expiry" if pending == "linger" else "reconnect-within-linger")
                s.state, s.since = "live", None
            s.owner = p["conn"]
            if not self.item_order or self.item_order[-1] != s.idx:
                if s.idx in self.item_order:
                    self.labels.add("interleaved")
                self.item_order.append(s.idx)
            return
        # an exception was observed
        matches = (exp[0] == "stop" and obs[0] == "stop") or (exp[0] == "raise" and obs[0] == "error" and obs[1] is exc_class(exp[1]))
        if matches:
            self.forget(s, "exhausted" if exp[0] == "stop" else "raised")
            if exp[0] == "raise":
                self.labels.add("raising-midway" if 0 < s.cursor else "raising-at-start")
            if state0 == "lingering":
                self.labels.add("reconnect-within-linger")
            return
        if pending and not getattr(self, "inflight_entered", False):
            self.forget(s, "background-expiry")
            return
        self.viol("next:%s:expected-%s:got-%s" % (state0 if not getattr(self, "inflight_entered", False) else "housekeeping-during-next", exp[0], obs_txt),
                  "stream %d (%s, %s) at cursor %d of %d: expected %s, got %s" % (
                      s.idx, s.token, state0, s.cursor, len(s.items), exp[0] if exp[0] == "stop" else exp[1], obs_txt))

    def _end_handle(self, s, how):
        """close() or dropping the last reference: both end in _StreamResultIterator.close()"""
        p = self.P[s.proxy]
        will_send = s.handle == "open" and p["conn"] is not None
        before = self.close_count(s.sid)
        it = s.it
        if will_send and it.proxy is not None and it.pyroseq != it.proxy._pyroSeq:
            self.labels.add(how + "-via-temp-proxy")        # label only (peeks at client internals)
        elif will_send:
            self.labels.add(how + "-via-own-proxy")
        if how == "close":
            try:
                it.close()
            except Exception as x:
                self.viol("close-raised:" + type(x).__name__, "close() of stream %d raised %s: %.100s" % (s.idx, type(x).__name__, x))
                return
            finally:
                del it
            s.handle = "dead"
        else:
            ref = weakref.ref(it)
            del it
            s.it = None             # the only reference: __del__ runs here
            if ref() is not None:
                gc.collect()
            if ref() is not None:
                self.viol("harness:iterator-still-referenced", "the dropped iterator is still alive")
                return
            s.handle = "dropped"
            self.labels.add("del-path")
        if will_send:
            if not live.wait_for(lambda: self.close_count(s.sid) > before, CLOSE_CEILING, step=0.0002):
                self.viol("close-not-delivered:" + how, "no close_stream call reached the server for stream %d after %s on a connected proxy" % (s.idx, how))
                raise _Stop()
            if s.state != "forgotten":
                self.labels.add("closed-early")
                self.forget(s, "closed")

    def op_close(self, si):
        s = self.pick(si)
        if s is None:
            return
        self._end_handle(s, "close")

    def op_drop(self, si):
        s = self.pick(si)
        if s is None:
            return
        self._end_handle(s, "drop")

    def op_disc(self, pi):
        p = self.P[pi % 2]
        p["proxy"]._pyroRelease()
        self.disconnect_model(p)

    def op_reco(self, pi):
        p = self.P[pi % 2]
        try:
            p["proxy"]._pyroReconnect(tries=3)
        except Exception as x:
            self.viol("reconnect-failed:" + type(x).__name__, "_pyroReconnect raised %s: %.100s" % (type(x).__name__, x))
            return
        self.disconnect_model(p)
        self.connect_model(p)
        self.labels.add("reconnect")

    def op_call(self, pi):
        p = self.P[pi % 2]
        self.connect_model(p)
        n = 7000 + len(self.item_order)
        try:
            r = p["proxy"].ping(n)
        except Exception as x:
            self.viol("call-failed:" + type(x).__name__, "an unrelated call between stream operations raised %s: %.100s" % (type(x).__name__, x))
            return
        if r != n:
            self.viol("call-wrong-result", "an unrelated call between stream operations returned %.80r instead of %r" % (r, n))

    def op_hk(self):
        try:
            if self.servertype == "multiplex":
                # an application that drives the daemon from its own event loop calls daemon.events(<ready sockets>): a round in
                # which nothing was ready is the multiplex server's documented way of getting its housekeeping done
                self.D.events([])
            else:
                self.D._housekeeping()
        except Exception as x:
            self.viol("housekeeping-raises", "housekeeping raised %r (in the daemon this ends the housekeeper thread / the multiplex request loop)" % (x,))
            raise _Stop()
        for s in self.streams:
            why = self.expired_why(s)
            if why:
                self.forget(s, why)


# ------------------------------------------------------------------------------------------------
# generation
# ------------------------------------------------------------------------------------------------
def _table(**w):
    t = [k for k, n in w.items() for _ in range(n)]
    assert len(t) == 100
    return t


# generation-only macros (expanded into plain ops): lapse = adv+hk, bounce = disc+adv(small)+reco, leave = disc+adv+hk
OPTABLES = {
    "mixed": _table(next=37, hkn=4, adv=10, hk=8, disc=6, reco=8, open=5, call=6, close=4, drop=4, lapse=3, bounce=3, leave=2),
    "nexty": _table(next=65, hkn=3, adv=3, hk=3, disc=2, reco=6, open=5, call=5, close=3, drop=3, bounce=2),
    "clocky": _table(next=27, hkn=5, adv=12, hk=8, disc=6, reco=8, open=2, call=4, close=2, drop=2, lapse=9, bounce=8, leave=7),
}

SPECIAL = [None, True, False, 0.0, -0.0, float("nan"), float("inf"), 2**70, -2**63, "", "\x00", "é\U0010ffff", [], {},
           [1, [2]], {"k": [None]}, "item stream terminated", 1e-7, "StopIteration"]


def decode_ops(nums, table):
    ops = []
    for n in nums:
        name, arg = table[n % 100], n // 100
        if name == "hk":
            ops.append(["hk"])
        elif name == "lapse":
            ops.extend([["adv", DTS[arg % len(DTS)]], ["hk"]])
        elif name == "bounce":
            ops.extend([["disc", arg % 2], ["adv", [1, 2, 5, 9][arg // 2]], ["reco", arg % 2]])
        elif name == "leave":
            ops.extend([["disc", arg % 2], ["adv", [11, 31, 41, 10][arg // 2]], ["hk"]])
        elif name == "adv":
            ops.append(["adv", DTS[arg % len(DTS)]])
        elif name in ("open", "disc", "reco", "call"):
            ops.append([name, arg % 2])
        else:
            ops.append([name, arg])
    return ops


@st.composite
def plan_strategy(draw, max_items):
    value = st.one_of(st.integers(-2, 2), st.sampled_from(SPECIAL), V.core_values(max_leaves=4))
    n = draw(st.sampled_from([0, 1, 2, 3, 3, 4, 5, 6] if max_items <= 6 else [0, 1, 3, 6, 12, 20, max_items]))
    items = draw(st.lists(value, min_size=n, max_size=n))
    rs = draw(st.sampled_from([None, None, None] + EXC))
    return {"kind": draw(st.sampled_from(KINDS)), "items": items,
            "raise": None if rs is None else [draw(st.integers(0, n)), rs]}


CONFIGS = [(0, 10), (0, 10), (30, 10), (7, 40), (30, 0), (0, 0), (0, 40), (7, 10), (30, 40)]


@st.composite
def case_strategy(draw, max_ops=25, max_items=6):
    streaming = draw(st.sampled_from([True] * 19 + [False]))
    lifetime, linger = draw(st.sampled_from(CONFIGS))
    plans = draw(st.lists(plan_strategy(max_items), min_size=1, max_size=3))
    opens = draw(st.sampled_from([[0], [0, 0], [0, 1], [1, 0, 0], [0, 1, 0]]))
    table = OPTABLES[draw(st.sampled_from(["mixed", "nexty", "clocky"]))]
    least = draw(st.sampled_from([3, 6, 10, 15, 20]))
    nums = draw(st.lists(st.integers(0, 799), min_size=least, max_size=max_ops - len(opens)))
    return {"config": {"streaming": streaming, "lifetime": lifetime, "linger": linger, "corr": draw(st.integers(0, 3)) == 0, "hook_raises": draw(st.integers(0, 4)) == 0}, "plans": plans,
            "ops": ([["open", p] for p in opens] + decode_ops(nums, table))[:max_ops + 1]}


def SHARDS(tier):
    reps = 2        # 16 shards = one wave on 16 cores in both tiers (the thorough tier runs longer, not wider)
    return [{"servertype": t, "serializer": s, "part": r} for r in range(reps) for t in ("thread", "multiplex") for s in SERIALIZERS] + \
        [{"part": "table", "k": k} for k in range(2 if tier == "quick" else 8)]


def run_table(ctx):
    """layer T: the stream table under concurrent server threads, harness-owned schedule (see checks/c10_table.py)"""
    from checks import c10_table as T
    k = ctx.shard.get("k", 0)
    if k % 2 == 0:
        cat = list(T.catalogue())
        for case in cat[k // 2::max(1, ctx.shard["count"] // 2) if ctx.tier != "quick" else 1]:
            case = dict(case, preemptions=1 if ctx.tier == "quick" else 2, limit=400 if ctx.tier == "quick" else 5000)
            v = T.run_case(case)
            ctx.notes["table_schedules_run"] = ctx.notes.get("table_schedules_run", 0) + case.pop("_schedules", 0)
            ctx.observe(case, v, True, T.labels(case) + ["catalogue"])
    else:
        def rc(case):
            case["limit"] = 150
            v = T.run_case(case)
            ctx.notes["table_schedules_run"] = ctx.notes.get("table_schedules_run", 0) + case.pop("_schedules", 0)
            return v
        ctx.search(T.table_case(), rc, ctx.n(60, 1500), nontrivial=lambda c: True, labels=T.labels, name="streamtable", max_rounds=4)


def run(ctx):
    sh = ctx.shard
    if sh.get("part") == "table":
        return run_table(ctx)
    servertype, serializer = sh.get("servertype", "thread"), sh.get("serializer", "serpent")
    try:
        strategy = case_strategy(max_ops=25, max_items=6 if ctx.tier == "quick" or sh.get("part", 0) % 2 == 0 else 30)
        strategy = strategy.map(lambda c: dict(c, servertype=servertype, serializer=serializer))
        ctx.search(strategy, run_case, ctx.n(500, 7000),
                   nontrivial=lambda c: _LAST["nontrivial"], labels=lambda c: _LAST["labels"],
                   name="streams-%s-%s-%s" % (servertype, serializer, sh.get("part", 0)), max_rounds=3, shrink_budget_s=ctx.n(25, 120))
    finally:
        _teardown()
