"""C10, layer T - the daemon's stream table under concurrent server threads (harness-owned schedule).

The thread-pool server serves every connection on a thread of its own, runs housekeeping on another one, and both server
types run close_stream (a oneway call) on yet another thread.  All of them work on Daemon.streaming_responses.  Here the
operations themselves (no network) are run by 2-3 threads under vlib.sched on a small generated table:
    hk                   Daemon._housekeeping()
    next(stream, conn)   DaemonObject.get_next_stream_item(id) on behalf of connection conn
    close(stream)        DaemonObject.close_stream(id)
    disc(conn)           Daemon._clientDisconnect(conn)
    open(conn)           Daemon._streamResponse(<new iterator>, conn)
Oracle: the same operations are first run sequentially in EVERY order on the same initial table (real code, one thread).  Every
fact on which all those orders agree is unconditional - "this stream is forgotten", "this stream is still there, attached to
connection B, and delivers item 1 next", "this next() yields item 0", "this one gets an error" - and must also hold for every
interleaving of the server threads.  Where the orders disagree (a client coming back while its stream is being forgotten) the
statement allows either and nothing is demanded.  All kinds of error count as "error" (which class a client gets for a vanished
stream is not part of the statement); an exception that escapes housekeeping or the disconnect handling is a violation in itself.
"""
import itertools
import types

from hypothesis import strategies as st

from vlib.driver import Violation
from vlib import sched as S

FILES = ("Pyro5/server.py",)
NOW = 1000000.0


class _Conn(object):
    def __init__(self, name):
        self.name = name
        self.pyroInstances = {}
        self.tracked_resources = set()

    def __repr__(self):
        return "<conn %s>" % self.name


class _WaitingIter(object):
    """an iterator whose next item only becomes available once everybody else is done (a generator waiting for data that depends on
    other clients): while it waits - inside next() - the daemon must be able to go on with everything else"""
    def __init__(self, inner, sch, results, others):
        self.inner, self.sch, self.results, self.others = inner, sch, results, others

    def __iter__(self):
        return self

    def __next__(self):
        if self.sch is not None:
            self.sch.block_until(lambda: all(self.results.get(k) is not None for k in self.others))
        return next(self.inner)


def _build(case, sch, results=None):
    """-> (daemon, daemonobject, conns, iterators) for the initial table of the case.  A real Daemon object (multiplex flavour: no
    threads of its own, its loop is never run); every lock it creates for itself is scheduler-aware when a scheduler is in charge"""
    import threading
    import Pyro5.server as server
    from Pyro5 import config
    shim = types.SimpleNamespace(**{k: getattr(threading, k) for k in dir(threading) if not k.startswith("__")})
    if sch is not None:
        shim.Lock = lambda: S.SLock(sch)
        shim.RLock = lambda: S.SRLock(sch)
    old_threading, old_type = server.threading, config.SERVERTYPE
    server.threading, config.SERVERTYPE = shim, "multiplex"
    try:
        d = server.Daemon(host="127.0.0.1", port=0)
    finally:
        server.threading, config.SERVERTYPE = old_threading, old_type
    conns = {n: _Conn(n) for n in ("A", "B")}
    its = {}
    for sid, spec in sorted(case["table"].items()):
        it = iter(["%s.%d" % (sid, i) for i in range(spec["items"])])
        waiters = [k for k, op in enumerate(case["ops"]) if op[0] == "slownext" and op[1] == sid]
        if waiters:
            it = _WaitingIter(it, sch, results if results is not None else {}, [k for k in range(len(case["ops"])) if k not in waiters])
        its[sid] = it
        owner = conns.get(spec["owner"])          # None = lingering (its connection has gone)
        d.streaming_responses[sid] = (owner, NOW - spec["age"], 0 if owner is not None else NOW - spec["gone"], it)
    return d, server.DaemonObject(d), conns, its


def _norm(fn):
    try:
        return ["item", fn()]
    except StopIteration:
        return ["stop"]
    except Exception:       # noqa
        return ["error"]


def _ops(case, d, dobj, conns, results, its):
    import Pyro5.server as server
    from Pyro5.callcontext import current_context
    fns = []
    for k, op in enumerate(case["ops"]):
        def fn(k=k, op=op):
            if op[0] == "hk":
                d._housekeeping()
                results[k] = ["done"]
            elif op[0] in ("next", "slownext"):
                current_context.client = conns[op[2]]
                results[k] = _norm(lambda: dobj.get_next_stream_item(op[1]))
            elif op[0] == "close":
                _norm(lambda: dobj.close_stream(op[1]))       # (a oneway request: whatever it raises, no client ever sees it)
                results[k] = ["done"]
            elif op[0] == "disc":
                d._clientDisconnect(conns[op[1]])
                results[k] = ["done"]
            elif op[0] == "open":
                it = iter(["new%d.%d" % (k, i) for i in range(2)])
                is_stream, sid = d._streamResponse(it, conns[op[1]])
                its[sid] = it
                results[k] = ["opened", sid]
        fns.append(fn)
    return fns


def _final(d, its):
    out = {}
    for sid, info in sorted(d.streaming_responses.items()):
        owner, ts, linger_ts, it = info
        out[sid] = [getattr(owner, "name", None), bool(linger_ts)]
    # what each existing stream would deliver next (consumes the iterators: the trial is over)
    for sid in out:
        out[sid].append(next(getattr(its[sid], "inner", its[sid]), None) if sid in its else "?")
    return out


class _Env(object):
    def __init__(self, case):
        import Pyro5.server as server
        from Pyro5 import config
        self.server, self.config = server, config
        self.old = (server.time, server.uuid, config.ITER_STREAM_LIFETIME, config.ITER_STREAM_LINGER, config.ITER_STREAMING)
        self.case = case

    def __enter__(self):
        counter = itertools.count(1)
        self.server.time = types.SimpleNamespace(time=lambda: NOW, sleep=lambda s: None)
        self.server.uuid = types.SimpleNamespace(uuid4=lambda: "new-stream-%d" % next(counter))
        self.config.ITER_STREAM_LIFETIME, self.config.ITER_STREAM_LINGER = self.case["lifetime"], self.case["linger"]
        self.config.ITER_STREAMING = True
        return self

    def __exit__(self, *a):
        self.server.time, self.server.uuid, self.config.ITER_STREAM_LIFETIME, self.config.ITER_STREAM_LINGER, self.config.ITER_STREAMING = self.old


def sequential_outcomes(case):
    outs = []
    n = len(case["ops"])
    for perm in itertools.permutations(range(n)):
        with _Env(case):
            results = {}
            d, dobj, conns, its = _build(case, None, results)
            fns = _ops(case, d, dobj, conns, results, its)
            try:
                for k in perm:
                    fns[k]()
                out = ([results.get(k) for k in range(n)], _final(d, its))
            finally:
                d.close()
        if out not in outs:
            outs.append(out)
    return outs


def run_trial(case, preempt=None, choices=None):
    with _Env(case):
        sch = S.Sched(FILES, preempt=preempt, choices=choices, max_steps=3000)
        results = {}
        d, dobj, conns, its = _build(case, sch, results)
        for k, fn in enumerate(_ops(case, d, dobj, conns, results, its)):
            sch.spawn(fn, "op%d" % k)
        try:
            sch.run()
            out = ([results.get(k) for k in range(len(case["ops"]))], _final(d, its))
        finally:
            d.close()
    return sch, out


def check_trial(case, sch, out, allowed):
    V = []
    desc = "ops=%r table=%r lifetime=%s linger=%s schedule=%r" % (case["ops"], case["table"], case["lifetime"], case["linger"], sch.preempt or sch.choices)
    kinds = "+".join(sorted(op[0] for op in case["ops"]))
    if sch.deadlock or sch.overrun:
        V.append(Violation("C10:table:stuck:" + kinds, ("the operations never finish (deadlock=%s overrun=%s)  %s" % (sch.deadlock, sch.overrun, desc))[:900]))
        return V
    errs = sch.errors()
    if errs:
        V.append(Violation("C10:table:exception:" + kinds, ("an exception escaped a daemon-internal operation: %r  %s" % (errs, desc))[:900]))
        return V
    if out in allowed:
        return V
    results, table = out
    # facts all sequential orders agree on
    for k, op in enumerate(case["ops"]):
        want = allowed[0][0][k]
        if all(o[0][k] == want for o in allowed) and results[k] != want and not (want[0] == "opened" and results[k][0] == "opened"):
            V.append(Violation("C10:table:result:%s:%s" % (op[0], kinds), ("concurrent server threads: %r gave %r; in every sequential order of the same operations it "
                                                                           "gives %r  %s" % (op, results[k], want, desc))[:1000]))
            return V
    sids = set(table)
    for o in allowed:
        sids |= set(o[1])
    for sid in sorted(sids):
        if sid.startswith("new-stream"):
            continue            # (ids of streams opened during the trial: judged below by count)
        present = [sid in o[1] for o in allowed]
        if all(present) and sid not in table:
            V.append(Violation("C10:table:stream-lost:" + kinds, ("concurrent server threads: stream %s is gone afterwards; it survives every sequential order of the same "
                                                                  "operations  %s" % (sid, desc))[:1000]))
            return V
        if not any(present) and sid in table:
            V.append(Violation("C10:table:stream-not-forgotten:" + kinds, ("concurrent server threads: stream %s still exists afterwards (%r); it is forgotten in every sequential "
                                                                           "order of the same operations  %s" % (sid, table[sid], desc))[:1000]))
            return V
        if all(present) and sid in table:
            for idx, what in ((0, "attached to"), (1, "lingering"), (2, "next item")):
                want = allowed[0][1][sid][idx]
                if all(o[1][sid][idx] == want for o in allowed) and table[sid][idx] != want:
                    V.append(Violation("C10:table:stream-state:%s:%s" % (what.replace(" ", "-"), kinds), (
                        "concurrent server threads: stream %s afterwards: %s = %r; every sequential order of the same operations gives %r  %s" % (
                            sid, what, table[sid][idx], want, desc))[:1000]))
                    return V
    nnew = [sum(1 for s_ in o[1] if s_.startswith("new-stream")) for o in allowed]
    got_new = sum(1 for s_ in table if s_.startswith("new-stream"))
    if all(n == nnew[0] for n in nnew) and got_new != nnew[0]:
        V.append(Violation("C10:table:opened-stream-lost:" + kinds, ("concurrent server threads: %d of the streams opened meanwhile exist afterwards, %d in every sequential order  %s" % (
            got_new, nnew[0], desc))[:1000]))
    return V


def run_case(case):
    allowed = sequential_outcomes(case)
    if "preempt" in case or "choices" in case:
        sch, out = run_trial(case, preempt={int(k): v for k, v in case.get("preempt", {}).items()} or None, choices=case.get("choices"))
        return check_trial(case, sch, out, allowed)
    found = []

    def run_with(preempt):
        sch, out = run_trial(case, preempt=preempt or None)
        sch._out = out
        return sch
    n = 0
    for preempt, sch in S.enumerate_schedules(run_with, case.get("preemptions", 1), limit=case.get("limit", 400)):
        n += 1
        v = check_trial(case, sch, sch._out, allowed)
        if v:
            found = v
            case["preempt"] = {str(k): v_ for k, v_ in preempt.items()}      # the failing schedule becomes part of the replay
            break
    case["_schedules"] = n
    return found


# ------------------------------------------------------------------------------------------------
stream_spec = st.fixed_dictionaries({"owner": st.sampled_from(["A", "A", "B", None]), "items": st.integers(0, 3),
                                     "age": st.sampled_from([0, 5, 50]), "gone": st.sampled_from([1, 50])})


@st.composite
def table_case(draw):
    nstreams = draw(st.integers(1, 3))
    table = {"s%d" % i: draw(stream_spec) for i in range(nstreams)}
    sids = sorted(table)
    op = st.one_of(st.just(["hk"]), st.just(["hk"]),
                   st.tuples(st.just("next"), st.sampled_from(sids), st.sampled_from(["A", "B"])).map(list),
                   st.tuples(st.just("close"), st.sampled_from(sids)).map(list),
                   st.tuples(st.just("disc"), st.sampled_from(["A", "B"])).map(list),
                   st.tuples(st.just("open"), st.sampled_from(["A", "B"])).map(list))
    ops = draw(st.lists(op, min_size=2, max_size=3))
    return {"layer": "table", "table": table, "ops": ops, "lifetime": draw(st.sampled_from([0, 0, 10])), "linger": draw(st.sampled_from([0, 30, 30]))}


def catalogue():
    """housekeeping against every other operation, for a table with an attached, a lingering and an expired stream"""
    table = {"s0": {"owner": "A", "items": 2, "age": 5, "gone": 1}, "s1": {"owner": None, "items": 2, "age": 5, "gone": 1},
             "s2": {"owner": None, "items": 2, "age": 50, "gone": 50}}
    table = dict(table, s3={"owner": "A", "items": 2, "age": 50, "gone": 1})        # attached and (with a lifetime configured) past its lifetime
    others = [["next", "s0", "A"], ["next", "s1", "B"], ["next", "s2", "B"], ["close", "s0"], ["close", "s1"], ["disc", "A"], ["open", "B"], ["next", "s3", "A"], ["close", "s3"]]
    for lifetime, linger in ((0, 30), (10, 30), (10, 0)):
        for o in others:
            yield {"layer": "table", "table": table, "ops": [["hk"], o], "lifetime": lifetime, "linger": linger}
            yield {"layer": "table", "table": table, "ops": [o, ["hk"]], "lifetime": lifetime, "linger": linger}
        for o in (["disc", "B"], ["close", "s1"], ["open", "B"], ["next", "s1", "B"], ["hk"]):
            # a stream whose next item takes its time (it is produced only after the other operation is through)
            yield {"layer": "table", "table": table, "ops": [["slownext", "s0", "A"], o], "lifetime": lifetime, "linger": linger}
        for a, b in itertools.permutations(others, 2):
            if a[0] == b[0] == "next" and a[1] == b[1]:
                continue
            yield {"layer": "table", "table": table, "ops": [a, b], "lifetime": lifetime, "linger": linger}


def labels(case):
    return ["table-layer", "ops:" + "+".join(sorted(op[0] for op in case["ops"])), "threads:%d" % len(case["ops"])]
