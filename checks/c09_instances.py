"""C09 - instance modes: one per daemon, one per connection, or one per call.

H (histories, live daemon): generated histories of connections opening, calling and closing against a freshly generated
  class per case with mode single / session / percall, instance shapes truthy / falsy via __len__ or __bool__ / custom
  __eq__+__hash__, with or without an instance creator (which may fail, return the wrong type or an instance of a SUBCLASS on scripted
  attempts), with an application disconnect hook that may raise; the class may be taken out of the daemon and registered again
  (or registered once more with force) in the middle of a history; a second daemon serving the same single-mode class may be
  shut down while a connection to it is still open.
  Every instance takes a serial number in __init__; every call returns it.  A reference model says which serial each
  call must report.  Steps may also be ONEWAY calls (the method records, under a token, which instance served it; the
  first call of a connection / of the daemon may be one, so the instance is created on behalf of a oneway call), the
  constructor may take a moment ("slowinit"), and a creator may fail with a TypeError of its own.
S (schedules): N in {2,3} threads perform the first call on a 'single' class through Daemon._getInstance under the
  harness-owned scheduler (vlib.sched), all schedules with <= 2 deviations from run-to-block plus random ones.
"""
import gc
import itertools
import time
import threading
import weakref

from hypothesis import strategies as st

from vlib.driver import Violation
from vlib import sched as S

PROPERTY = "C09"
LEVEL = "exploration"
RULE = ("H: a case = (mode, instance shape, creator script incl. creators returning a subclass instance, raising disconnect hook yes/no, history of <= 14 open/call/oneway-call/close/abort steps over <= 3 connections); S: a case = "
        "(2-3 racing first calls on a single-mode class, shape, creator yes/no, schedule = choices at numbered decisions, one per executed "
        "line of server.py). Non-trivial: H - at least 2 connections with >= 2 calls on one of them, or a falsy shape, or a failing creator; "
        "S - the schedule preempts inside _getInstance at least once. distinct = distinct case JSON")
ASSUMPTIONS = ["a fresh class object per case (the daemon is reused across cases)",
               "whether a oneway call is carried out at all is not judged, only which instance served it; before a connection with an unanswered oneway call "
               "is closed (and at the end) a synchronous ping to the daemon's own object on the same connection makes sure the server has taken the request up", "session instances must be unreachable once the server has run its disconnect handling (awaited through the disconnect hook)",
               "scheduler granularity = one source line of server.py; the single-instance lock is replaced by a scheduler-aware lock"]

SERIAL = itertools.count(1)
LOCK = threading.Lock()
FACTS = {}      # case id -> {"inits": [...serials], "creator_calls": n, "refs": {serial: weakref}}


def make_class(cid, shape, mode, creator_script, via_subclass=False):
    import Pyro5.api as api
    facts = FACTS[cid] = {"inits": [], "creator_calls": 0, "refs": {}, "notes": {}}

    def __init__(self):
        if shape == "slowinit":
            time.sleep(0.02)        # construction takes a moment (stimulus only: nothing is judged by the clock)
        with LOCK:
            self.serial = next(SERIAL)
            facts["inits"].append(self.serial)
            facts["refs"][self.serial] = weakref.ref(self)

    def who(self):
        return self.serial

    def note(self, token):
        with LOCK:
            facts["notes"][token] = self.serial
    def smeth():
        return "static"

    def cmeth(cls):
        return "classmethod"
    # (a static or class method of a registered class is still a call on "the object": the instance rules apply to it)
    ns = {"__init__": __init__, "who": who, "note": api.oneway(note), "smeth": staticmethod(smeth), "cmeth": classmethod(cmeth)}
    if shape in ("len0", "len0+bool"):
        ns["__len__"] = lambda self: 0
    if shape in ("boolfalse", "len0+bool"):
        ns["__bool__"] = lambda self: False
    if shape == "eqhash":
        ns["__eq__"] = lambda self, other: True
        ns["__hash__"] = lambda self: 7
    C = type("Inst%d" % cid, (object,), ns)
    C = api.expose(C)
    creator = None
    if creator_script is not None:
        def creator(clazz=None):
            with LOCK:
                facts["creator_calls"] += 1
                n = facts["creator_calls"]
            act = creator_script[(n - 1) % len(creator_script)] if creator_script else "ok"
            if act == "raise":
                raise RuntimeError("creator fails on attempt %d" % n)
            if act == "typeerror":
                raise TypeError("creator fails on attempt %d with a TypeError of its own" % n)
            if act == "wrongtype":
                return object()
            if act == "subclass":
                # a creator is free to hand out a specialisation of the registered class: it still is THE instance
                base = clazz if clazz is not None else C
                return type("Special" + base.__name__, (base,), {})()
            return (clazz if clazz is not None else C)()
    C = api.behavior(instance_mode=mode, instance_creator=creator)(C)
    if via_subclass:
        # what gets registered is a subclass that adds nothing of its own: it inherits the declared instance mode and creator
        C = type("Derived" + C.__name__, (C,), {})
    return C


# ------------------------------------------------------------------------------------------------
# H: histories
# ------------------------------------------------------------------------------------------------
step = st.one_of(st.tuples(st.just("call"), st.integers(0, 2)), st.tuples(st.just("call"), st.integers(0, 2)), st.tuples(st.just("oneway"), st.integers(0, 2)),
                 st.tuples(st.sampled_from(["scall", "ccall"]), st.integers(0, 2)),
                 st.tuples(st.just("close"), st.integers(0, 2)), st.tuples(st.just("abort"), st.integers(0, 2)),
                 st.tuples(st.just("open"), st.integers(0, 2)),
                 st.tuples(st.sampled_from(["rereg", "rereg-force"]), st.integers(0, 2))).map(list)


def h_case():
    return st.fixed_dictionaries({
        "kind": st.just("H"),
        "mode": st.sampled_from(["single", "session", "percall"]),
        "shape": st.sampled_from(["truthy", "truthy", "len0", "boolfalse", "len0+bool", "eqhash", "slowinit"]),
        "creator": st.one_of(st.none(), st.just(["ok"]), st.just(["subclass"]),
                            st.lists(st.sampled_from(["ok", "ok", "subclass", "raise", "wrongtype", "typeerror"]), min_size=1, max_size=4)),
        "hook_raises": st.integers(0, 4).map(lambda n: n == 0),
        "close2": st.integers(0, 5).map(lambda n: n == 0),
        "via_subclass": st.integers(0, 4).map(lambda n: n == 0),
        "steps": st.lists(step, min_size=1, max_size=14),
        "ser": st.sampled_from(["serpent", "marshal", "json", "msgpack"]),
    })


_live = {}


def _setup(servertype):
    from vlib import live
    if _live.get("servertype") != servertype:
        _teardown()
    if "served" not in _live:
        live.quiet_logs()
        _live.update(served=live.Served(servertype), servertype=servertype, n=0)
    return _live


def _teardown():
    if "served" in _live:
        _live["served"].stop()
    if _live.get("served2") is not None:
        _live["served2"].stop()
    _live.clear()


def run_h(case, servertype, keep):
    from vlib import live
    L = _setup(servertype)
    srv = L["served"]
    L["n"] += 1
    cid = next(SERIAL)
    V = []

    def viol(sig, what):
        V.append(Violation("C09:" + sig, ("[%s] %s  case=%r" % (servertype, what, case))[:900]))
    C = make_class(cid, case["shape"], case["mode"], case["creator"], via_subclass=bool(case.get("via_subclass")))
    facts = FACTS[cid]
    srv.daemon.v_hook_raises = bool(case.get("hook_raises"))      # an application disconnect hook that fails must not keep session instances alive
    oid = "inst%d" % cid
    srv.daemon.register(C, oid)
    mode = case["mode"]
    script = case["creator"]
    conns = {}          # index -> proxy
    model = {"single": None, "session": {}, "seen": set(), "attempts": 0, "created": 0}
    falsy = case["shape"] in ("len0", "boolfalse", "len0+bool")
    ended_sessions = []
    pending_ended = []
    dirty = set()           # connections whose last request was a oneway call: the client does not know yet whether the server has seen it

    def barrier(p):
        """a synchronous request on the same connection (to the daemon's own object): when it returns, the server has taken
        up every earlier request of that connection"""
        try:
            p._pyroInvoke("ping", [], {}, objectId="Pyro.Daemon")
        except Exception:
            pass
    oneway_expect = []      # (token, serial | ("pending", token) | "fresh")
    resolved = {}           # token of a creating oneway call -> serial seen by the next synchronous call
    try:
        for n, (op, i) in enumerate(case["steps"]):
            if op in ("rereg", "rereg-force"):
                # the application takes the class out of the daemon and registers it again under the same id (or registers it
                # once more with force): the class keeps its declared instance mode and creator, and every instance that exists stays in use
                for j in sorted(dirty):
                    barrier(conns[j])
                dirty.clear()
                try:
                    if op == "rereg":
                        srv.daemon.unregister(C if i % 2 else oid)
                        srv.daemon.register(C, oid)
                    else:
                        srv.daemon.register(C, oid, force=True)
                except Exception as x:
                    viol("harness:reregister", "re-registering the class failed: %r" % (x,))
                    break
            elif op == "open":
                if i not in conns:
                    conns[i] = live.proxy(srv.uri(oid), serializer=case["ser"])
                    conns[i]._pyroBind()
            elif op in ("close", "abort"):
                if i in conns:
                    if i in dirty:
                        barrier(conns[i])
                        dirty.discard(i)
                    before = srv.daemon.v_disconnect_count()
                    had_conn = conns[i]._pyroConnection is not None
                    if op == "abort" and had_conn:
                        # the connection ends with a TCP reset instead of an orderly shutdown
                        import socket as _s
                        import struct as _st
                        try:
                            conns[i]._pyroConnection.sock.setsockopt(_s.SOL_SOCKET, _s.SO_LINGER, _st.pack("ii", 1, 0))
                            conns[i]._pyroConnection.sock.close()
                        except OSError:
                            pass
                    conns[i]._pyroRelease()
                    del conns[i]
                    if had_conn:
                        live.wait_for(lambda: srv.daemon.v_disconnect_count() > before, 20)
                    serial = model["session"].pop(i, None)
                    if type(serial) is tuple:
                        pending_ended.append(serial[1])
                    elif serial is not None:
                        ended_sessions.append(serial)
            else:
                if i not in conns:
                    conns[i] = live.proxy(srv.uri(oid), serializer=case["ser"])
                p = conns[i]
                # what the model expects
                need_creation = (mode == "percall" or (mode == "single" and model["single"] is None)
                                 or (mode == "session" and i not in model["session"]))
                expect_fail = False
                if need_creation:
                    model["attempts"] += 1
                    if script is not None:
                        act = script[(model["attempts"] - 1) % len(script)] if script else "ok"
                        expect_fail = act not in ("ok", "subclass")
                label = "step %d %s on connection %d" % (n, op, i)
                if op == "oneway":
                    # nothing comes back; which instance served it is recorded by the method itself under this token
                    token = "n%d" % n
                    dirty.add(i)
                    try:
                        p.note(token)
                    except Exception as x:
                        viol("call-failed", "%s failed with %r" % (label, x))
                        break
                    if script is not None and need_creation:
                        # the scripted creator counts its attempts: keep their order across connections the one the model assumes
                        barrier(p)
                        dirty.discard(i)
                    if expect_fail:
                        continue
                    if need_creation:
                        model["created"] += 1
                        if mode == "single":
                            model["single"] = ("pending", token)
                        elif mode == "session":
                            model["session"][i] = ("pending", token)
                        oneway_expect.append((token, ("pending", token) if mode != "percall" else "fresh"))
                    else:
                        oneway_expect.append((token, model["single"] if mode == "single" else model["session"][i]))
                    continue
                dirty.discard(i)
                if op in ("scall", "ccall"):
                    # a call that does not reveal which instance served it; the instance rules apply all the same
                    try:
                        got = ("ok", p.smeth() if op == "scall" else p.cmeth())
                    except Exception as x:
                        got = ("err", x)
                    if expect_fail:
                        if got[0] == "ok":
                            viol("failed-creation-served", "%s: the creator failed/returned a wrong type but the call returned %r" % (label, got[1]))
                        continue
                    if got != ("ok", "static" if op == "scall" else "classmethod"):
                        viol("call-failed", "%s gave %r" % (label, got[1]))
                        break
                    if need_creation:
                        model["created"] += 1
                        if mode == "single":
                            model["single"] = ("pending", "n%d" % n)
                        elif mode == "session":
                            model["session"][i] = ("pending", "n%d" % n)
                    continue
                try:
                    got = ("ok", p.who())
                except Exception as x:
                    got = ("err", x)
                if expect_fail:
                    if got[0] == "ok":
                        viol("failed-creation-served", "%s: the creator failed/returned a wrong type but the call returned %r" % (label, got[1]))
                    continue
                if got[0] != "ok":
                    viol("call-failed", "%s failed with %r" % (label, got[1]))
                    break
                serial = got[1]
                if need_creation:
                    model["created"] += 1
                    if serial in model["seen"]:
                        sig = "instance-not-fresh:" + mode
                        viol(sig, "%s: expected a newly created instance, got serial %r seen before" % (label, serial))
                    model["seen"].add(serial)
                    if mode == "single":
                        model["single"] = serial
                    elif mode == "session":
                        model["session"][i] = serial
                else:
                    want = model["single"] if mode == "single" else model["session"][i]
                    if type(want) is tuple:
                        # the instance was created by a oneway call: this is the first time its serial becomes visible
                        if serial in model["seen"]:
                            viol("instance-not-fresh:" + mode, "%s: the instance created by the preceding oneway call has serial %r seen before" % (label, serial))
                        model["seen"].add(serial)
                        resolved[want[1]] = serial
                        want = serial
                        if mode == "single":
                            model["single"] = serial
                        else:
                            model["session"][i] = serial
                    if serial != want:
                        sig = ("falsy-instance-recreated" if falsy and serial not in model["seen"] else "wrong-instance:" + mode)
                        viol(sig, "%s: served by instance %r, the %s instance is %r" % (label, serial, mode, want))
                        model["seen"].add(serial)
                        break
        # 'single' means one instance per DAEMON: a second daemon of the same process serving the same class has its own
        if not V and mode == "single" and model["created"] >= 1 and (script is None or all(a in ("ok", "subclass") for a in script)):
            srv2 = L.get("served2")
            if srv2 is None or not srv2.loop_alive():
                srv2 = L["served2"] = live.Served(servertype)
            srv2.daemon.register(C, oid)
            try:
                with live.proxy(srv2.uri(oid), serializer=case["ser"]) as p2:
                    got2 = p2.who()
                    model["attempts"] += 1
                    model["created"] += 1
                    if got2 in model["seen"] or got2 == model["single"]:
                        viol("single-instance-shared-between-daemons", "a second daemon serving the same 'single' class answered with instance %r, "
                             "which is the first daemon's" % (got2,))
                    model["seen"].add(got2)
                    if case.get("close2") and servertype == "thread":
                        p2._pyroTimeout = 5.0        # (hang guard only: no answer at all is "no service any more", which is fine)
                        if p2._pyroConnection is not None:
                            p2._pyroConnection.sock.settimeout(5.0)
                        # the application shuts that daemon down while this connection is still open: whatever is still served on it
                        # afterwards (the thread-pool server lets the worker of an established connection finish) is served by THE instance
                        srv2.stop()
                        L["served2"] = None
                        try:
                            got3 = ("ok", p2.who())
                        except Exception as x:      # noqa  (no service any more: fine)
                            got3 = ("err", x)
                        if got3[0] == "ok" and got3[1] != got2:
                            viol("single-instance-recreated-after-daemon-shutdown", "after daemon.shutdown() a call on a connection that was still open was served by "
                                 "instance %r; the daemon's single instance is %r" % (got3[1], got2))
                        if got3[0] == "ok":
                            with LOCK:
                                extra = len(facts["inits"]) - model["created"]
                            if extra > 0:
                                model["created"] += extra       # (reported above; keep the global accounting from repeating it)
            except Exception as x:
                viol("call-failed", "call on the second daemon failed with %r" % (x,))
            finally:
                try:
                    srv2.daemon.unregister(oid)
                except Exception:
                    pass
                try:
                    srv2.daemon._pyroInstances.pop(C, None)
                except Exception:
                    pass
        # global accounting
        if not V:
            for i in sorted(dirty):
                barrier(conns[i])
            if oneway_expect:
                live.join_oneway_threads(30)
            with LOCK:
                notes = dict(facts["notes"])
            fresh_seen = set()
            pending_serial = {}
            for token, want in oneway_expect:
                got_serial = notes.get(token)
                if got_serial is None:
                    continue            # (whether a oneway call is carried out at all is not this property)
                if type(want) is tuple:
                    creating_token = want[1]
                    want = resolved.get(creating_token)
                    if want is None:
                        # no synchronous call ever showed this instance: the oneway calls that used it must agree among themselves
                        if creating_token in pending_serial:
                            want = pending_serial[creating_token]
                        else:
                            if got_serial in model["seen"]:
                                viol("instance-not-fresh:" + mode, "oneway call %s that had to create its instance was served by %r seen before" % (token, got_serial))
                            model["seen"].add(got_serial)
                            pending_serial[creating_token] = got_serial
                            if creating_token in pending_ended:
                                ended_sessions.append(got_serial)
                            continue
                if want == "fresh":
                    if got_serial in model["seen"] or got_serial in fresh_seen:
                        viol("instance-not-fresh:" + mode, "oneway call %s in percall mode was served by instance %r that served another call" % (token, got_serial))
                    fresh_seen.add(got_serial)
                elif got_serial != want:
                    viol("wrong-instance:oneway:" + mode, "oneway call %s was served by instance %r, the %s instance is %r" % (token, got_serial, mode, want))
        if not V:
            with LOCK:
                inits = list(facts["inits"])
                ccalls = facts["creator_calls"]
            if script is not None:
                if ccalls != model["attempts"]:
                    viol("creator-call-count", "instance creator called %d times for %d creation attempts" % (ccalls, model["attempts"]))
            if len(inits) != model["created"]:
                sig = "falsy-instance-recreated" if falsy and len(inits) > model["created"] else "instances-created-count"
                viol(sig, "%d instances were constructed, the model counts %d creations (mode %s)" % (len(inits), model["created"], mode))
            # session instances of closed connections must be gone
            if mode == "session" and ended_sessions:
                gc.collect()
                for serial in ended_sessions:
                    ref = facts["refs"].get(serial)
                    if ref is not None and ref() is not None:
                        live.wait_for(lambda: (gc.collect(), ref() is None)[1], 10)
                    if ref is not None and ref() is not None:
                        viol("session-instance-kept", "session instance %r is still alive after its connection ended" % serial)
                        break
            if mode == "percall":
                gc.collect()
    finally:
        srv.daemon.v_hook_raises = False
        for p in conns.values():
            try:
                p._pyroRelease()
            except Exception:
                pass
        try:
            srv.daemon.unregister(oid)
        except Exception:
            pass
        srv.daemon._pyroInstances.pop(C, None)
        FACTS.pop(cid, None)
        del srv.daemon.v_disconnects[:]
        del srv.daemon.v_validated[:]
        if not keep:
            _teardown()
    return V


# ------------------------------------------------------------------------------------------------
# S: racing first calls on a single-mode class
# ------------------------------------------------------------------------------------------------
FILES = ("Pyro5/server.py",)


class _Conn(object):
    def __init__(self):
        self.pyroInstances = {}


def run_s_trial(cfg, preempt=None, choices=None):
    import Pyro5.server as server
    sch = S.Sched(FILES, preempt=preempt, choices=choices, max_steps=4000)
    cid = next(SERIAL)
    C = make_class(cid, cfg["shape"], cfg.get("mode", "single"), ["ok"] if cfg["creator"] else None)
    d = server.Daemon.__new__(server.Daemon)
    d._pyroInstances = {}
    real_lock_is_reentrant = False
    d.create_single_instance_lock = S.SLock(sch)
    results = {}

    def worker(k):
        def body():
            conn = _Conn()
            for _ in range(cfg.get("calls", 1)):
                inst = d._getInstance(C, conn)
                results.setdefault(k, []).append(inst.serial)
        return body
    for k in range(cfg["threads"]):
        sch.spawn(worker(k), "t%d" % k)
    sch.run()
    facts = FACTS.pop(cid)
    return sch, results, facts


def check_s(cfg, sch, results, facts):
    V = []
    desc = "cfg=%r schedule=%r" % (cfg, sch.preempt or sch.choices)

    def viol(sig, what):
        V.append(Violation("C09:" + sig, (what + "  " + desc)[:800]))
    if sch.deadlock:
        viol("deadlock", "racing first calls deadlock")
        return V
    errs = sch.errors()
    if errs:
        viol("race:exception", "exception in a racing call: %r" % (errs,))
        return V
    serials = set(s for v in results.values() for s in v)
    if len(serials) != 1:
        viol("single-mode-two-instances", "racing first calls on a 'single' class were served by %d different instances %r" % (len(serials), sorted(serials)))
    if len(facts["inits"]) != 1:
        viol("single-mode-two-instances", "%d instances were constructed for a 'single' class" % len(facts["inits"]))
    if cfg["creator"] and facts["creator_calls"] != 1:
        viol("creator-call-count", "instance creator called %d times for one instance" % facts["creator_calls"])
    return V


def s_catalogue():
    out = []
    for threads in (2, 3):
        for shape in ("truthy", "len0"):
            for creator in (False, True):
                out.append({"threads": threads, "shape": shape, "creator": creator, "calls": 1})
    out.append({"threads": 2, "shape": "truthy", "creator": False, "calls": 2})
    return out


@st.composite
def s_case(draw):
    cfg = {"threads": draw(st.integers(2, 3)), "shape": draw(st.sampled_from(["truthy", "len0", "boolfalse", "eqhash"])),
           "creator": draw(st.booleans()), "calls": draw(st.integers(1, 2))}
    return {"kind": "S", "cfg": cfg, "choices": draw(st.lists(st.integers(0, 2), max_size=50))}


# ------------------------------------------------------------------------------------------------
# E: a daemon serving ONE connection the application handed to it (socket pair): the instance rules hold there too
# ------------------------------------------------------------------------------------------------
def run_e(case):
    """steps: 'who' | 'bad' (a request the daemon refuses with an error reply) | 'cb' (a @callback member that raises: the daemon reports
    it and re-raises it in its own loop) - all on the one connection this daemon serves; it stays in service throughout"""
    import socket as _socket
    import Pyro5.api as api
    import Pyro5.server
    from vlib import live
    live.quiet_logs()
    V = []

    def viol(sig, what):
        V.append(Violation("C09:existing-connection:" + sig, ("%s  case=%r" % (what, case))[:700]))
    cid = next(SERIAL)
    mode = case["mode"]
    made = []

    @api.behavior(instance_mode=mode)
    @api.expose
    class Inst(object):
        def __init__(self):
            made.append(len(made) + 1)
            self.serial = made[-1]

        def who(self):
            return self.serial

        @api.callback
        def cb(self):
            raise ValueError("a callback member fails")
    s1, s2 = _socket.socketpair()
    d = Pyro5.server.Daemon(connected_socket=s1)
    d.register(Inst, "e%d" % cid)
    t = threading.Thread(target=d.requestLoop, daemon=True)
    t.start()
    p = api.Proxy("e%d" % cid, connected_socket=s2)
    p._pyroTimeout = 10.0
    seen = []
    try:
        for n, op in enumerate(case["steps"]):
            try:
                if op == "who":
                    seen.append(p.who())
                elif op == "bad":
                    p._pyroInvoke("no_such_member", (), {})
                else:
                    p.cb()
            except (AttributeError, ValueError):
                pass
            except Exception as x:
                viol("call-failed", "step %d %s failed with %r" % (n, op, x))
                break
        if not V and seen:
            if mode == "percall":
                if len(set(seen)) != len(seen):
                    viol("instance-not-fresh:percall", "percall: serials %r" % (seen,))
            elif len(set(seen)) != 1:
                viol("wrong-instance:" + mode, "one connection, mode %s: calls were served by instances %r" % (mode, seen))
    finally:
        try:
            p._pyroRelease()
        except Exception:
            pass
        try:
            s2.close()          # the peer goes away: the daemon's loop sees the end of the connection
        except OSError:
            pass
        t.join(0.5)
        try:
            d.shutdown()
        except Exception:
            pass
        try:
            s1.close()
        except OSError:
            pass
        t.join(2)
    return V


def e_case():
    return st.fixed_dictionaries({"kind": st.just("E"), "mode": st.sampled_from(["session", "session", "single", "percall"]),
                                  "steps": st.lists(st.sampled_from(["who", "who", "bad", "cb"]), min_size=2, max_size=8)})


def run_case(case, servertype=None, keep=False):
    if case["kind"] == "E":
        return run_e(case)
    if case["kind"] == "S":
        sch, results, facts = run_s_trial(case["cfg"], preempt={int(k): v for k, v in case.get("preempt", {}).items()} or None,
                                          choices=case.get("choices"))
        return check_s(case["cfg"], sch, results, facts)
    return run_h(case, servertype or case.get("servertype", "thread"), keep)


def _h_nontrivial(case):
    calls = {}
    for op, i in case["steps"]:
        if op in ("call", "oneway", "scall", "ccall"):
            calls[i] = calls.get(i, 0) + 1
    multi = len(calls) >= 2 and max(calls.values()) >= 2
    return multi or case["shape"] in ("len0", "boolfalse", "len0+bool") or bool(case["creator"] and any(a != "ok" for a in case["creator"]))


def _h_labels(case):
    return ["H", "mode:" + case["mode"], "shape:" + case["shape"],
            "creator:" + ("none" if case["creator"] is None else "failing" if any(a not in ("ok", "subclass") for a in case["creator"]) else "ok")] + (
                ["creator-returns-subclass-instance"] if case["creator"] and "subclass" in case["creator"] else []) + (["disconnect-hook-raises"] if case.get("hook_raises") else []) + (["registered-class-inherits-its-behavior"] if case.get("via_subclass") else [])


def SHARDS(tier):
    sh = [{"part": "H", "servertype": t} for t in ("thread", "multiplex")] * (3 if tier == "quick" else 6)
    sh += [{"part": "S-enum", "cat": i, "preemptions": 2} for i in range(len(s_catalogue()))]
    sh += [{"part": "S-random"} for _ in range(2 if tier == "quick" else 4)]
    sh += [{"part": "E"}]
    return sh


def run(ctx):
    sh = ctx.shard
    part = sh.get("part", "H")
    if part == "H":
        st_ = sh.get("servertype", "thread")
        try:
            ctx.search(h_case(), lambda c: run_h(c, st_, True), ctx.n(250, 3000), nontrivial=_h_nontrivial, labels=_h_labels,
                       name="instances" + st_, max_rounds=5)
        finally:
            _teardown()
    elif part == "E":
        for mode in ("session", "single", "percall"):
            for steps in (["who", "cb", "who"], ["who", "bad", "who"], ["who", "who", "cb", "bad", "who", "cb", "who"]):
                case = {"kind": "E", "mode": mode, "steps": steps}
                ctx.observe(case, run_case(case), True, ["E", "mode:" + mode])
        ctx.search(e_case(), run_case, ctx.n(40, 400), nontrivial=lambda c: "who" in c["steps"][1:], labels=lambda c: ["E", "mode:" + c["mode"]], name="existingconn", max_rounds=2)
    elif part == "S-enum":
        cfg = s_catalogue()[sh["cat"]]

        def run_with(preempt):
            sch, results, facts = run_s_trial(cfg, preempt=preempt or None)
            sch._r = (results, facts)
            return sch
        n = 0
        for preempt, sch in S.enumerate_schedules(run_with, sh["preemptions"]):
            case = {"kind": "S", "cfg": cfg, "preempt": {str(k): v for k, v in preempt.items()}}
            ctx.observe(case, check_s(cfg, sch, *sch._r), nontrivial=sch.preempted_in_files > 0, labels=["S-enum", "preemptions:%d" % len(preempt)])
            n += 1
        ctx.exhaustive = True
        ctx.notes["schedules_enumerated"] = n
    else:
        ctx.search(s_case(), run_case, ctx.n(400, 4000), nontrivial=lambda c: len(c["choices"]) > 0, labels=lambda c: ["S-random"], name="instrace", max_rounds=3)
