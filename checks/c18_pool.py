"""C18 - thread pool: each connection served once or refused; workers stay bounded.

Layer 1 (scheduler): Pool / Worker of svr_threads.py are driven under the harness-owned scheduler (vlib.sched).  The
module's `threading` and `time` names are replaced by scheduler-aware shims and Worker.start/join are routed through
the scheduler, so every interleaving at source-line granularity of the accept loop (submitter), the workers finishing
jobs and pool.close() can be produced.  Scenarios:
  A  instant jobs, njobs <= THREADPOOL_SIZE          -> nothing may be refused
  B  jobs that block until the submitter is done, njobs > THREADPOOL_SIZE -> exactly THREADPOOL_SIZE accepted, rest refused
  C  instant jobs, njobs > THREADPOOL_SIZE            -> every job ran exactly once or was refused
  each optionally with close() racing with completions (close is called right after the last submission).
Invariants: a job never runs twice; accepted jobs run exactly once unless close() began before they started; live worker
threads <= THREADPOOL_SIZE; idle and busy are disjoint; no deadlock; after close() every worker thread exits.
Layer 1b (histories, same scheduler): connections arrive and end in several phases (fill up, refusals, drain, shrink to
the minimum size, grow again); reference model: an arrival is accepted iff fewer than THREADPOOL_SIZE connections are being
served at that moment.
Layer 2 (live): a real thread-pool server with THREADPOOL_SIZE 1..2; a connection arriving while all workers are busy
gets CONNECTFAIL whose text mentions the pool, nothing is executed for it, and it is closed.
"""
import itertools
import threading
import types

from hypothesis import strategies as st

from vlib.driver import Violation
from vlib import sched as S

PROPERTY = "C18"
LEVEL = "exploration"
RULE = ("a case = (pool min/max size 1..3, njobs 1..5, job kind instant|blocking, close racing or not, schedule = explicit choices at "
        "numbered scheduling decisions, one decision per executed source line of svr_threads.py). Enumerated part: for each "
        "configuration of a fixed catalogue ALL schedules with <= 1 (quick) / <= 2 (thorough) deviations from run-to-block; generated "
        "part: Hypothesis configurations with random choice lists; history part: generated arrive/end sequences of up to 16 steps in several "
        "phases judged against an occupancy model; live part: real connections against a full pool. Non-trivial: the "
        "schedule preempts a thread inside svr_threads.py at least once (scheduler part) / the pool is full (live part); distinct = "
        "distinct (configuration, schedule)")
ASSUMPTIONS = ["preemption granularity is one source line of svr_threads.py", "threading.Event/Lock and time.sleep used by svr_threads are replaced by scheduler-aware equivalents; Worker.start/join go through the scheduler",
               "a job that was accepted but had not started when close() began may be dropped ('starts no further job')"]

FILES = ("Pyro5/svr_threads.py",)
_orig = {}


def run_trial(cfg, preempt=None, choices=None):
    """cfg: {size, minsize, njobs, blocking, close_race} -> (sched, facts)"""
    import Pyro5.svr_threads as T
    from Pyro5 import config
    size, minsize, njobs = cfg["size"], cfg["minsize"], cfg["njobs"]
    old_cfg = (config.THREADPOOL_SIZE, config.THREADPOOL_SIZE_MIN)
    config.THREADPOOL_SIZE, config.THREADPOOL_SIZE_MIN = size, minsize
    sch = S.Sched(FILES, preempt=preempt, choices=choices, max_steps=6000)
    shim = types.SimpleNamespace(Event=lambda: S.SEvent(sch), Lock=lambda: S.SLock(sch), RLock=lambda: S.SRLock(sch),
                                 Thread=threading.Thread, current_thread=threading.current_thread)
    real_threading, real_time, real_worker = T.threading, T.time, T.Worker
    T.threading = shim
    T.time = types.SimpleNamespace(sleep=lambda x: sch.yield_point(), time=real_time.time)
    workers = []
    counter = itertools.count()
    facts = {"ran": {}, "refused": [], "accepted": [], "max_live": 0, "live": 0, "overlap": False, "started_after_close": [],
             "close_begun": None, "close_returned": None, "error": None, "pool_error": None, "refused_closed": []}

    class W(real_worker):
        def __init__(self, pool):
            # (Worker.__init__ uses super(Worker, self) with the module-global name, which now points here: set the fields directly)
            threading.Thread.__init__(self)
            self.daemon = True
            self.job_available = S.SEvent(sch)
            self.job = None
            self.pool = pool
            self.name = "w%d" % next(counter)
            workers.append(self)
            self._st = None

        def start(self):
            facts["live"] += 1
            facts["max_live"] = max(facts["max_live"], facts["live"])

            def body():
                try:
                    real_worker.run(self)
                finally:
                    facts["live"] -= 1
            self._st = sch.spawn(body, self.name)

        def join(self, timeout=None):
            st = self._st
            if st is not None:
                sch.block_until(lambda: st["done"])

        def is_alive(self):
            return self._st is not None and not self._st["done"]
    T.Worker = W
    release = S.SEvent(sch)

    def job(i):
        def j():
            if facts["close_returned"] is not None:
                facts["started_after_close"].append(i)
            facts["ran"][i] = facts["ran"].get(i, 0) + 1
            if cfg["blocking"]:
                release.wait()
            else:
                sch.yield_point()
        return j

    def submitter():
        try:
            pool = T.Pool()
        except Exception as x:
            facts["pool_error"] = x
            return
        facts["pool"] = pool
        for i in range(njobs):
            try:
                pool.process(job(i))
                facts["accepted"].append(i)
            except T.NoFreeWorkersError:
                facts["refused"].append(i)
            except T.PoolError as x:
                if facts["close_begun"] is not None:
                    facts["refused_closed"].append(i)       # the pool was closed by the other thread meanwhile: legitimate
                else:
                    facts["error"] = ("process", i, x)
            except Exception as x:
                facts["error"] = ("process", i, x)
            if pool.idle & pool.busy:
                facts["overlap"] = True
        release.set()
        if cfg.get("closer"):
            sch.block_until(lambda: facts["close_returned"] is not None)
            try:
                pool.process(job(njobs))
                facts["late_accepted"] = True
            except Exception:
                facts["late_accepted"] = False
            return
        if not cfg["close_race"]:
            # wait until every accepted job has finished before closing
            sch.block_until(lambda: all(facts["ran"].get(i, 0) >= 1 for i in facts["accepted"]) and not pool.busy)
        facts["close_begun"] = sch.step
        try:
            pool.close()
        except Exception as x:
            facts["error"] = ("close", x)
        facts["close_returned"] = sch.step
        if pool.idle & pool.busy:
            facts["overlap"] = True
        # a closed pool starts no further job
        try:
            pool.process(job(njobs))
            facts["late_accepted"] = True
        except Exception:
            facts["late_accepted"] = False
    def closer():
        # another thread (daemon shutdown) closes the pool while the accept loop is still submitting
        sch.block_until(lambda: "pool" in facts)
        facts["close_begun"] = sch.step
        try:
            facts["pool"].close()
        except Exception as x:
            facts["error"] = ("close", x)
        facts["close_returned"] = sch.step
    sch.spawn(submitter, "main")
    if cfg.get("closer"):
        sch.spawn(closer, "closer")
    try:
        sch.run()
    finally:
        T.threading, T.time, T.Worker = real_threading, real_time, real_worker
        config.THREADPOOL_SIZE, config.THREADPOOL_SIZE_MIN = old_cfg
    facts["workers_done"] = [w._st is None or w._st["done"] for w in workers]
    facts["worker_names"] = [w.name for w in workers]
    return sch, facts


def check_trial(cfg, sch, f):
    V = []
    desc = "cfg=%r schedule=%r" % (cfg, sch.preempt or sch.choices)

    def viol(sig, what):
        V.append(Violation("C18:" + sig, (what + "  " + desc)[:900]))
    if f["pool_error"] is not None:
        viol("harness:pool-init", "Pool() raised %r" % (f["pool_error"],))
        return V
    if sch.overrun:
        viol("livelock", "more than %d scheduling steps" % sch.max_steps)
        return V
    if sch.deadlock:
        stuck = list(getattr(sch, "stuck", [])) or [n for n, s in sch.threads.items() if not s["done"]]
        if f["close_begun"] is not None and "main" not in stuck:
            viol("worker-never-exits", "pool.close() returned but worker thread(s) %r wait for a job forever" % (stuck,))
        elif f["close_begun"] is not None:
            viol("close-deadlocks", "pool.close() never returns; stuck threads %r" % (stuck,))
        else:
            viol("deadlock", "no thread can run before close() was even called; stuck threads %r" % (stuck,))
        return V
    errs = {n: e for n, e in sch.errors().items()}
    if errs:
        viol("thread-exception", "exception escaped a pool thread: %r" % (errs,))
    if f["error"]:
        viol("pool-raises", "pool operation raised %r" % (f["error"],))
    size = cfg["size"]
    twice = [i for i, n in f["ran"].items() if n > 1]
    if twice:
        viol("job-ran-twice", "jobs %r ran more than once" % twice)
    unknown = set(range(cfg["njobs"])) - set(f["accepted"]) - set(f["refused"]) - set(f["refused_closed"])
    if unknown and not f["error"]:
        viol("job-lost", "jobs %r neither accepted nor refused" % sorted(unknown))
    ran_refused = [i for i in f["refused"] if f["ran"].get(i)]
    if ran_refused:
        viol("refused-job-ran", "jobs %r were refused but ran" % ran_refused)
    never = [i for i in f["accepted"] if not f["ran"].get(i)]
    if never and not cfg["close_race"] and not cfg.get("closer"):
        viol("accepted-job-never-ran", "jobs %r were accepted but never ran (no close race)" % never)
    if f.get("late_accepted"):
        viol("closed-pool-accepts-job", "process() on a closed pool accepted a job")
    if f["started_after_close"]:
        viol("job-started-after-close", "jobs %r started after close() had returned" % f["started_after_close"])
    if f["max_live"] > size:
        viol("too-many-workers", "%d worker threads alive at once, THREADPOOL_SIZE=%d" % (f["max_live"], size))
    if f["overlap"]:
        viol("idle-busy-overlap", "a worker is in the idle and the busy set at once")
    if not cfg["blocking"] and cfg["njobs"] <= size and f["refused"]:
        viol("refused-with-free-capacity", "%d instant jobs, THREADPOOL_SIZE=%d, yet %r refused" % (cfg["njobs"], size, f["refused"]))
    if cfg["blocking"] and not cfg.get("closer"):
        want = min(cfg["njobs"], size)
        if len(f["accepted"]) != want:
            viol("blocking-accept-count", "jobs block until submission is over: expected exactly %d accepted, got %r (refused %r)" % (want, f["accepted"], f["refused"]))
    if not all(f["workers_done"]):
        viol("worker-never-exits", "worker threads still alive after close: %r" % [n for n, d in zip(f["worker_names"], f["workers_done"]) if not d])
    return V


# ------------------------------------------------------------------------------------------------
# histories: connections arriving and finishing in several phases (the pool fills up, refuses, drains, shrinks, grows again)
# ------------------------------------------------------------------------------------------------
def run_history(cfg, ops, choices=None, fail_starts=(), preempt=None):
    """ops: ["sub"] = a connection arrives (its job blocks until released) | ["rel", k] = the k-th still running job ends and the
    harness waits until its worker has been handed back.  Reference model: occupancy = jobs accepted and not yet ended; an
    arrival must be accepted iff occupancy < THREADPOOL_SIZE."""
    import Pyro5.svr_threads as T
    from Pyro5 import config
    size, minsize = cfg["size"], cfg["minsize"]
    old_cfg = (config.THREADPOOL_SIZE, config.THREADPOOL_SIZE_MIN)
    config.THREADPOOL_SIZE, config.THREADPOOL_SIZE_MIN = size, minsize
    sch = S.Sched(FILES, choices=choices, preempt=preempt, max_steps=20000)
    shim = types.SimpleNamespace(Event=lambda: S.SEvent(sch), Lock=lambda: S.SLock(sch), RLock=lambda: S.SRLock(sch),
                                 Thread=threading.Thread, current_thread=threading.current_thread)
    real_threading, real_time, real_worker = T.threading, T.time, T.Worker
    T.threading = shim
    T.time = types.SimpleNamespace(sleep=lambda x: sch.yield_point(), time=real_time.time)
    workers = []
    counter = itertools.count()
    f = {"ran": {}, "live": 0, "max_live": 0, "events": [], "error": None, "wrong": [], "overlap": False}
    fail_starts = set(fail_starts)

    class W(real_worker):
        def __init__(self, pool):
            threading.Thread.__init__(self)
            self.daemon = True
            self.job_available = S.SEvent(sch)
            self.job = None
            self.pool = pool
            self.name = "w%d" % next(counter)
            workers.append(self)
            self._st = None

        def start(self):
            if f.get("pool_ready"):
                f["starts"] = f.get("starts", 0) + 1
                if f["starts"] in fail_starts:
                    # the operating system has no thread left for us right now
                    f["start_failed_now"] = True
                    raise RuntimeError("can't start new thread")
            f["live"] += 1
            f["max_live"] = max(f["max_live"], f["live"])
            # the pool's own books at this moment (this worker included, wherever it is entered)
            f["max_books"] = max(f.get("max_books", 0), len(self.pool.idle | self.pool.busy | {self}))

            def body():
                try:
                    real_worker.run(self)
                finally:
                    f["live"] -= 1
            self._st = sch.spawn(body, self.name)

        def join(self, timeout=None):
            st = self._st
            if st is not None:
                sch.block_until(lambda: st["done"])

        def is_alive(self):
            return self._st is not None and not self._st["done"]
    T.Worker = W
    gates = {}
    ended = set()

    def job(i, how=None):
        gates[i] = S.SEvent(sch)

        def j():
            f["ran"][i] = f["ran"].get(i, 0) + 1
            gates[i].wait()
            ended.add(i)
            if how == "err":
                raise ValueError("the connection's job ends with an exception")
            if how == "exit":
                f["exits"] = f.get("exits", 0) + 1
                raise SystemExit(0)         # (e.g. a served method that calls sys.exit(): not an Exception)
        return j

    def main():
        try:
            pool = T.Pool()
        except Exception as x:
            f["error"] = ("Pool()", x)
            return
        f["pool_ready"] = True
        running = []      # accepted, not yet released
        n = 0
        for op in ops:
            if op[0] == "sub":
                occupancy = len(running)
                i = n
                n += 1
                try:
                    pool.process(job(i, op[1] if len(op) > 1 else None))
                    accepted = True
                except T.NoFreeWorkersError:
                    accepted = False
                except Exception as x:
                    if f.pop("start_failed_now", False):
                        # no thread could be started for this connection: it is not served (the caller sees the error); the pool's
                        # books must still be right for everybody who comes later
                        f["events"].append(("sub", i, occupancy, "start-failed"))
                        continue
                    f["error"] = ("process", i, x)
                    break
                f.pop("start_failed_now", None)
                f["events"].append(("sub", i, occupancy, accepted))
                if accepted and occupancy >= size:
                    f["wrong"].append("connection %d accepted while %d of %d workers were serving" % (i, occupancy, size))
                if not accepted and occupancy < size:
                    f["wrong"].append("connection %d refused while only %d of %d workers were serving (events so far: %r)" % (i, occupancy, size, f["events"]))
                if accepted:
                    running.append(i)
            elif running:
                i = running.pop(op[1] % len(running))
                gates[i].set()
                want = len(running)
                # the connection has ended: wait until its worker has been handed back (or retired)
                sch.block_until(lambda: i in ended and len(pool.busy) == want)
                f["events"].append(("rel", i))
            if pool.idle & pool.busy:
                f["overlap"] = True
        for i in running:
            gates[i].set()
        sch.block_until(lambda: all(i in ended for i in running) and not pool.busy)
        try:
            pool.close()
        except Exception as x:
            f["error"] = ("close", x)
    sch.spawn(main, "main")
    try:
        sch.run()
    finally:
        T.threading, T.time, T.Worker = real_threading, real_time, real_worker
        config.THREADPOOL_SIZE, config.THREADPOOL_SIZE_MIN = old_cfg
    f["workers_done"] = [w._st is None or w._st["done"] for w in workers]
    f["worker_names"] = [w.name for w in workers]
    return sch, f


def check_history(case, sch, f):
    V = []
    desc = "case=%r" % (case,)

    def viol(sig, what):
        V.append(Violation("C18:history:" + sig, (what + "  " + desc)[:900]))
    if sch.overrun:
        viol("livelock", "more than %d scheduling steps" % sch.max_steps)
        return V
    if f["error"]:
        viol("pool-raises", "pool operation raised %r" % (f["error"],))
    if f["wrong"]:
        sig = "refused-with-free-capacity" if "refused" in f["wrong"][0] else "accepted-beyond-capacity"
        viol(sig, f["wrong"][0])
    if sch.deadlock and not f["wrong"] and not f["error"]:
        stuck = list(getattr(sch, "stuck", [])) or [n for n, s in sch.threads.items() if not s["done"]]
        if f.get("exits") and "main" in stuck and not any(e[0] == "sub" and e[3] is True and not f["ran"].get(e[1]) for e in f["events"]):
            # every accepted connection was served; the harness waits in vain for the slot of the worker whose job ended with SystemExit
            viol("worker-slot-lost:job-ended-with-baseexception", "a connection's job ended with SystemExit: its worker thread is gone but the pool still counts it as busy "
                 "(events %r)" % (f["events"],))
        else:
            viol("stuck", "no thread can run any more; stuck threads %r, events %r" % (stuck, f["events"]))
        return V
    errs = {n: e for n, e in sch.errors().items() if not (isinstance(e, SystemExit) and f.get("exits"))}
    if errs:
        viol("thread-exception", "exception escaped a pool thread: %r" % (errs,))
    twice = [i for i, n in f["ran"].items() if n > 1]
    if twice:
        viol("job-ran-twice", "jobs %r ran more than once" % twice)
    never = [e[1] for e in f["events"] if e[0] == "sub" and e[3] is True and not f["ran"].get(e[1])]
    if never and not sch.deadlock:
        viol("accepted-job-never-ran", "connections %r were accepted but never served" % never)
    ran_refused = [e[1] for e in f["events"] if e[0] == "sub" and e[3] is not True and f["ran"].get(e[1])]
    if ran_refused:
        viol("refused-job-ran", "connections %r were refused but served" % ran_refused)
    if f["max_live"] > case["cfg"]["size"]:
        if f.get("max_books", 0) <= case["cfg"]["size"]:
            # the pool's books never exceed the limit: the surplus is a worker that was retired (told to stop) and whose thread
            # has not left its loop yet when the pool grows again
            viol("too-many-workers:retired-worker-still-exiting", "%d worker threads alive at once, THREADPOOL_SIZE=%d (a retired worker has not "
                 "exited yet when a new one is started)" % (f["max_live"], case["cfg"]["size"]))
        else:
            viol("too-many-workers", "%d worker threads alive at once, THREADPOOL_SIZE=%d" % (f["max_live"], case["cfg"]["size"]))
    if f["overlap"]:
        viol("idle-busy-overlap", "a worker is in the idle and the busy set at once")
    if not sch.deadlock and not all(f["workers_done"]):
        viol("worker-never-exits", "worker threads still alive after close: %r" % [n for n, d in zip(f["worker_names"], f["workers_done"]) if not d])
    return V


@st.composite
def history_case(draw):
    size = draw(st.integers(1, 3))
    cfg = {"size": size, "minsize": draw(st.integers(1, size))}
    ops = draw(st.lists(st.one_of(st.just(["sub"]), st.just(["sub"]), st.just(["sub"]), st.just(["sub", "err"]), st.tuples(st.just("rel"), st.integers(0, 3)).map(list),
                                  st.tuples(st.just("rel"), st.integers(0, 3)).map(list)), min_size=2, max_size=16))
    if draw(st.integers(0, 7)) == 0:
        ops = [(["sub", "exit"] if (o == ["sub"] and k % 2) else o) for k, o in enumerate(ops)]
    case = {"layer": "history", "cfg": cfg, "ops": ops, "choices": draw(st.one_of(st.just([]), st.lists(st.integers(0, 3), max_size=60)))}
    if draw(st.integers(0, 3)) == 0:
        case["fail_starts"] = sorted(set(draw(st.lists(st.integers(1, 4), min_size=1, max_size=2))))     # which thread starts (after the pool exists) fail
    return case


def history_catalogue():
    """fill the pool, be refused r times, drain it completely (it shrinks to its minimum), fill it again"""
    for size, minsize in ((1, 1), (2, 1), (2, 2), (3, 1), (3, 2)):
        for r in (1, 2, 3):
            ops = [["sub"]] * (size + r) + [["rel", 0]] * size + [["sub"]] * (size + 1) + [["rel", 0]] + [["sub"]]
            yield {"layer": "history", "cfg": {"size": size, "minsize": minsize}, "ops": ops, "choices": []}


def _history_labels(case):
    ops = case["ops"]
    l = ["history", "size:%d" % case["cfg"]["size"], "default-schedule" if not case["choices"] else "random-schedule"]
    if case["cfg"]["minsize"] < case["cfg"]["size"]:
        l.append("pool-can-shrink")
    if case.get("fail_starts"):
        l.append("fault:thread-start-fails")
    if any(len(o) > 1 and o[0] == "sub" and o[1] == "err" for o in ops):
        l.append("job-ends-with-exception")
    if any(len(o) > 1 and o[0] == "sub" and o[1] == "exit" for o in ops):
        l.append("job-ends-with-SystemExit")
    return l


def _history_nontrivial(case):
    # an arrival after at least one refusal-sized burst and one ended connection
    subs = rels = 0
    for op in case["ops"]:
        if op[0] == "sub":
            subs += 1
            if rels and subs > case["cfg"]["size"]:
                return True
        else:
            rels += 1
    return False


def run_case(case):
    if case.get("layer") == "live":
        return run_live(case)
    if case.get("layer") == "history":
        sch, f = run_history(case["cfg"], case["ops"], case.get("choices") or None, case.get("fail_starts") or (),
                             preempt={int(k): v for k, v in case.get("preempt", {}).items()} or None)
        return check_history(case, sch, f)
    cfg = case["cfg"]
    sch, f = run_trial(cfg, preempt={int(k): v for k, v in case.get("preempt", {}).items()} or None, choices=case.get("choices"))
    return check_trial(cfg, sch, f)


def catalogue():
    out = []
    for size, minsize in ((1, 1), (2, 1), (2, 2), (3, 1)):
        for njobs in (1, 2, 3):
            for blocking in (False, True):
                for close_race in (False, True):
                    if blocking and njobs <= size and not close_race:
                        continue
                    out.append({"size": size, "minsize": minsize, "njobs": njobs, "blocking": blocking, "close_race": close_race})
    for size, minsize, njobs in ((1, 1, 1), (1, 1, 2), (2, 1, 2), (2, 2, 3)):
        out.append({"size": size, "minsize": minsize, "njobs": njobs, "blocking": False, "close_race": True, "closer": True})
    return out


@st.composite
def random_case(draw):
    size = draw(st.integers(1, 3))
    cfg = {"size": size, "minsize": draw(st.integers(1, size)), "njobs": draw(st.integers(1, 5)), "blocking": draw(st.booleans()),
           "close_race": draw(st.booleans())}
    if draw(st.integers(0, 3)) == 0:
        cfg.update(closer=True, close_race=True, blocking=False)
    return {"cfg": cfg, "choices": draw(st.lists(st.integers(0, 3), max_size=80))}


# ------------------------------------------------------------------------------------------------
# live layer: the refusal reply
# ------------------------------------------------------------------------------------------------
EXEC = []


def run_live(case):
    from vlib import live, wire
    import Pyro5.api as api
    V = []
    size = case["size"]

    def viol(sig, what):
        V.append(Violation("C18:live:" + sig, ("%s  case=%r" % (what, case))[:700]))
    live.quiet_logs()

    @api.expose
    class T(object):
        def hit(self, x):
            EXEC.append(x)
            return x
    del EXEC[:]
    with live.ConfigScope(THREADPOOL_SIZE=size, THREADPOOL_SIZE_MIN=min(case["minsize"], size)):
        srv = live.Served("thread")
        try:
            srv.daemon.register(T(), "t")
            holders = []
            for i in range(size):
                p = live.RawPeer(srv.address())
                m = p.handshake("t")
                if not isinstance(m, dict) or m["type"] != wire.CONNECTOK:
                    viol("refused-with-free-capacity", "connection %d of %d refused although workers are free: %r" % (i + 1, size, m))
                holders.append(p)
            for k in range(case["extra"]):
                p = live.RawPeer(srv.address())
                first = p.connect_msg("t")
                if k % 2 == 1:
                    # a peer that names a serializer this daemon does not have: turned away for lack of workers all the same, and told so
                    first = wire.ref_encode(wire.CONNECT, 0, 1, 99, live.raw_dumps("marshal", {"handshake": "hello", "object": "t"}))
                p.send(first + p.invoke_msg("t", "hit", (k,), {}, seq=5))
                p.half_close()
                msgs, ended = p.read_until_closed()
                p.close()
                if not msgs or msgs[0]["type"] != wire.CONNECTFAIL:
                    if not (p.reset_seen and not msgs):
                        viol("no-connectfail", "all %d workers busy: expected CONNECTFAIL, got %r / %r" % (size, [m["type"] for m in msgs], ended))
                else:
                    reason = live.reply_value(msgs[0])
                    if not isinstance(reason, str) or "worker" not in reason.lower():
                        viol("connectfail-reason", "refusal does not say that the pool is full: %r" % (reason,))
                if ended[0] not in ("eof", "reset"):
                    viol("refused-connection-left-open", "refused connection not closed: %r" % (ended,))
            if EXEC:
                viol("refused-connection-served", "requests of refused connections were executed: %r" % EXEC)
            # the held connections still work, and once one is gone a new client is accepted
            m = holders[0].call("t", "hit", (99,), seq=2)
            if not isinstance(m, dict) or m["type"] != wire.RESULT:
                viol("held-connection-disturbed", "a served connection broke while others were refused: %r" % (m,))
            holders[0].close()
            if not live.wait_for(lambda: srv.busy_workers() == size - 1, 20):
                viol("worker-stranded", "worker not released after its connection closed")
            else:
                p = live.RawPeer(srv.address())
                m = p.handshake("t")
                if not isinstance(m, dict) or m["type"] != wire.CONNECTOK:
                    viol("refused-with-free-capacity", "a worker is free again but the next connection was refused: %r" % (m,))
                p.close()
            for h in holders:
                h.close()
        finally:
            srv.stop()
    return V


def SHARDS(tier):
    cat = catalogue()
    # quick: every single deviation from run-to-block for all configurations, and every pair of deviations for the small ones
    sh = [{"part": "enum", "cat": i, "preemptions": 2 if (tier != "quick" or (c["njobs"] <= 2 and c["size"] <= 2 and not c["blocking"] and not c.get("closer"))) else 1}
          for i, c in enumerate(cat)]
    sh += [{"part": "random"} for _ in range(4 if tier == "quick" else 8)]
    sh += [{"part": "history", "h": j, "hn": (2 if tier == "quick" else 6)} for j in range(2 if tier == "quick" else 6)]
    sh += [{"part": "live"}]
    return sh


def run(ctx):
    sh = ctx.shard
    if sh.get("part") == "enum":
        cfg = catalogue()[sh["cat"]]

        def run_with(preempt):
            sch, f = run_trial(cfg, preempt=preempt or None)
            sch._facts = f
            return sch
        n = 0
        for preempt, sch in S.enumerate_schedules(run_with, sh["preemptions"]):
            case = {"cfg": cfg, "preempt": {str(k): v for k, v in preempt.items()}}
            ctx.observe(case, check_trial(cfg, sch, sch._facts), nontrivial=sch.preempted_in_files > 0,
                        labels=["enum", "preemptions:%d" % len(preempt), "close-race" if cfg["close_race"] else "close-after", "blocking" if cfg["blocking"] else "instant"])
            n += 1
        ctx.exhaustive = True
        ctx.notes["schedules_enumerated"] = n
    elif sh.get("part") == "history":
        if sh.get("h", sh["index"]) % 2 == 0:
            for case in history_catalogue():
                ctx.observe(case, run_case(case), True, _history_labels(case) + ["catalogue"])
        else:
            # every single deviation from run-to-block for the short catalogue histories of pools that can shrink (a worker that is
            # being retired is held back while the accept loop goes on submitting)
            n = 0
            k_shard, n_shards = sh.get("h", 1) // 2, max(1, sh.get("hn", 2) // 2)        # (the enumerating history shards share the catalogue)
            for ci, case in enumerate(history_catalogue()):
                if case["cfg"]["minsize"] == case["cfg"]["size"] or (ctx.tier == "quick" and (case["cfg"]["size"] > 2 or len(case["ops"]) > 12)):
                    continue
                if ctx.tier != "quick" and ci % n_shards != k_shard % n_shards:
                    continue

                def run_with(preempt, case=case):
                    sch, f = run_history(case["cfg"], case["ops"], None, (), preempt=preempt or None)
                    sch._f = f
                    return sch
                for preempt, sch in S.enumerate_schedules(run_with, 1 if ctx.tier == "quick" else 2, limit=3000 if ctx.tier == "quick" else 8000):
                    c2 = dict(case, preempt={str(k): v for k, v in preempt.items()})
                    ctx.observe(c2, check_history(c2, sch, sch._f), sch.preempted_in_files > 0, _history_labels(case) + ["history-schedule-enumeration"])
                    n += 1
            ctx.notes["history_schedules_enumerated"] = n
        ctx.search(history_case(), run_case, ctx.n(400, 5000), nontrivial=_history_nontrivial, labels=_history_labels, name="poolhistory", max_rounds=4)
    elif sh.get("part") == "live":
        for size in (1, 2):
            for minsize in (1, 2):
                for extra in (1, 3):
                    case = {"layer": "live", "size": size, "minsize": minsize, "extra": extra}
                    ctx.observe(case, run_live(case), True, ["live"])
    else:
        ctx.search(random_case(), run_case, ctx.n(300, 6000), nontrivial=lambda c: len(c["choices"]) > 0,
                   labels=lambda c: ["random", "size:%d" % c["cfg"]["size"]], name="pool", max_rounds=4)
