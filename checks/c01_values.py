"""C01 - values cross the wire unchanged, identically for arguments and results.

L1 (serializer level): M_arg(v) via dumpsCall/loadsCall (positional and keyword), M_res(v) via dumps/loads.
L2 (live daemon, both server types): echo object behind a real daemon; positions: positional arg, keyword arg (generated
    keyword names), nested, plain result, batch result, streamed item; compression on/off with payload sizes around the
    100 byte threshold.
Oracles (vlib.values.same, type-strict): symmetry M_arg == M_res; idempotence M(M(v)) == M(v); lossless core M(v) == v;
explicit reference mapping expected(ser, v) for the extra types; keyword names arrive unchanged.
"""
import base64
import datetime
import decimal
import math
import uuid

from hypothesis import strategies as st

from vlib.driver import Violation
from vlib import values as V

PROPERTY = "C01"
LEVEL = "exploration"
RULE = ("a case = (serializer, value, keyword name, padding, compression on/off, layer). Values are drawn recursively from "
        "the lossless core (None, bools, boundary-biased ints up to 2^300, floats incl. inf/nan/-0.0/subnormals, all valid "
        "unicode, lists, str-keyed dicts without '__class__') or from the serializer's extra types (bytes, bytearray, complex, "
        "tuples, sets, frozensets, uuid, Decimal, date, naive datetime). Layer L1 = serializer functions, L2 = live daemon "
        "(positional/keyword/nested argument, result, batch result, streamed item). Non-trivial: container depth >= 2, or int "
        "beyond 64 bit, or non-finite float, or non-ascii text, or a non-core type; distinct = distinct case JSON")
ASSUMPTIONS = ["reference mapping table expected(ser, v) written from the property statement and the serializers' documented behaviour",
               "msgpack datetimes restricted to values that survive Python's own float timestamp round trip; TZ pinned to UTC",
               "dict keys are str (the statement's 'string-keyed dicts'); '__class__' is reserved and excluded; lone surrogates excluded",
               "set elements restricted to hashable leaves (ints, text, finite floats, bools, tuples of those); serpent: no None in sets, no signed-zero parts in complex",
               "marshal: uuid excluded (only converted at top level); keyword name 'self' excluded (Python callable protocol)"]

SERS = ["serpent", "json", "marshal", "msgpack"]


class Unordered(object):
    """expected value: a list whose order is unspecified (a set that travelled as a list)"""
    def __init__(self, items):
        self.items = list(items)

    def __repr__(self):
        return "Unordered(%r)" % (self.items,)


class Unsupported(Exception):
    pass


def expected(ser, v):
    """the serializer's fixed, documented type mapping (reference table)"""
    t = type(v)
    if v is None or t in (bool, int, float, str):
        return v
    if t in (bytes, bytearray):
        if ser == "serpent":
            return {"data": base64.b64encode(bytes(v)).decode("ascii"), "encoding": "base64"}
        if ser in ("marshal", "msgpack"):
            return bytes(v)
        raise Unsupported(t)
    if t is complex:
        if ser == "json":
            raise Unsupported(t)
        return v
    if t is uuid.UUID:
        if ser == "marshal":
            raise Unsupported(t)      # marshal converts only top-level objects; uuid inside a container is not supported
        return str(v)
    if t is decimal.Decimal:
        if ser == "marshal":
            raise Unsupported(t)
        return str(v)
    if t is datetime.datetime:
        if ser in ("serpent", "json"):
            return v.isoformat()
        if ser == "msgpack":
            return v
        raise Unsupported(t)
    if t is datetime.date:
        if ser in ("serpent", "json"):
            return v.isoformat()
        if ser == "msgpack":
            return v
        raise Unsupported(t)
    if t is list:
        return [expected(ser, x) for x in v]
    if t is tuple:
        if ser in ("serpent", "marshal"):
            return tuple(expected(ser, x) for x in v)
        return [expected(ser, x) for x in v]
    if t in (set, frozenset) and ser == "serpent" and not v:
        return ()        # serpent has no literal for the empty set: it is written (and read back) as an empty tuple
    if t is set:
        if ser in ("serpent", "marshal"):
            return set(expected(ser, x) for x in v)
        return Unordered(expected(ser, x) for x in v)
    if t is frozenset:
        if ser == "serpent":
            return set(expected(ser, x) for x in v)
        if ser == "marshal":
            return frozenset(expected(ser, x) for x in v)
        raise Unsupported(t)
    if t is dict:
        return {k: expected(ser, x) for k, x in v.items()}
    raise Unsupported(t)


def matches(actual, exp):
    """same(), but an Unordered expectation matches a list with the same elements in any order"""
    if isinstance(exp, Unordered):
        if type(actual) is not list or len(actual) != len(exp.items):
            return False
        rest = list(exp.items)
        for a in actual:
            for i, e in enumerate(rest):
                if matches(a, e):
                    del rest[i]
                    break
            else:
                return False
        return True
    te = type(exp)
    if te in (list, tuple):
        return type(actual) is te and len(actual) == len(exp) and all(matches(a, e) for a, e in zip(actual, exp))
    if te is dict:
        if type(actual) is not dict or len(actual) != len(exp):
            return False
        for k, e in exp.items():
            if k not in actual or type([kk for kk in actual if kk == k][0]) is not type(k) or not matches(actual[k], e):
                return False
        return True
    return V.same(actual, exp)


def canon(x):
    """order-insensitive canonical form for comparing two ACTUAL values where sets may have become lists"""
    return x


# ------------------------------------------------------------------------------------------------
# strategies
# ------------------------------------------------------------------------------------------------
hashable_leaf = st.one_of(st.integers(-5, 5), st.sampled_from([2**64, -2**70]), st.text(max_size=4),
                          st.floats(allow_nan=False, allow_infinity=False, width=32), st.booleans())
finite = st.floats(allow_nan=False, allow_infinity=False)


def _dt_ok(d):
    try:
        return datetime.datetime.fromtimestamp(d.timestamp()) == d
    except (OverflowError, OSError, ValueError):
        return False


datetimes = st.datetimes(min_value=datetime.datetime(1971, 1, 1), max_value=datetime.datetime(2200, 1, 1)).filter(_dt_ok)


def ext_leaves(ser):
    opts = [st.uuids()] if ser != "marshal" else []
    if ser != "json":
        cx = st.one_of(st.builds(complex, finite, finite), st.sampled_from([complex(0.0, -0.0), complex(-0.0, 1.0), complex(1e308, -1e308), 1j, complex(2**53, 0.1)]))
        if ser == "serpent":
            # serpent writes complex numbers as a literal "(re+imj)": the sign of a zero part is not representable there
            cx = cx.map(lambda c: complex(c.real + 0.0, c.imag + 0.0))
        opts += [st.binary(max_size=12), st.binary(max_size=12).map(bytearray), cx]
    if ser != "marshal":
        opts += [st.decimals(allow_nan=False, allow_infinity=False, places=3), st.sampled_from([decimal.Decimal("1E+10"), decimal.Decimal("-0.00")]),
                 st.dates(), datetimes]
    return st.one_of(*opts)


def ext_values(ser):
    leaf = st.one_of(V.core_leaves(), ext_leaves(ser), ext_leaves(ser))
    hsets = st.sets(st.one_of(hashable_leaf, st.tuples(hashable_leaf, hashable_leaf)), max_size=4)

    def extend(ch):
        opts = [st.lists(ch, max_size=4), st.dictionaries(V.keys, ch, max_size=3), st.lists(ch, max_size=3).map(tuple), hsets]
        if ser in ("serpent", "marshal"):
            opts.append(hsets.map(frozenset))
        return st.one_of(*opts)
    return st.recursive(st.one_of(leaf, hsets), extend, max_leaves=12)


# ("self" cannot be passed as a keyword through any Python callable object's __call__: a language limit, not Pyro's)
kwnames = st.one_of(st.sampled_from(["k", "x", "args", "token", "kwargs", "é", "漢字", "a b", "", "1", "__x", "class", "\x00", "k\U0001f600"]),
                    V.keys.filter(lambda k: k != "self"))


@st.composite
def l1_case(draw, ser=None):
    ser = ser or draw(st.sampled_from(SERS))
    core = draw(st.booleans())
    v = draw(V.core_values(15) if core else ext_values(ser))
    return {"layer": 1, "ser": ser, "v": v, "kw": draw(kwnames)}


@st.composite
def l2_case(draw, ser):
    core = draw(st.integers(0, 2)) != 0
    v = draw(V.core_values(10) if core else ext_values(ser))
    return {"layer": 2, "ser": ser, "v": v, "kw": draw(kwnames), "pad": draw(st.sampled_from([0, 0, 40, 90, 101, 300, 0, 40, 90, 101, 300, 59990, 70000, 130000])),
            "compress": draw(st.booleans()), "ann": draw(st.sampled_from([0, 0, 1, 2, 3]))}


# ------------------------------------------------------------------------------------------------
# L1
# ------------------------------------------------------------------------------------------------

def run_l1(case):
    from Pyro5 import serializers
    name, v, kw = case["ser"], case["v"], case["kw"]
    ser = serializers.serializers[name]
    out = []

    def viol(sig, what):
        out.append(Violation("C01:%s:%s" % (name, sig), ("%s: %s (value %r)" % (name, what, v))[:500]))

    try:
        exp = expected(name, v)
    except Unsupported:
        return out
    try:
        res = ser.loads(ser.dumps(v))
    except Exception as x:
        viol("result-raises", "result path raised %r" % (x,))
        return out
    try:
        o, m, va, kwa = ser.loadsCall(ser.dumpsCall("obj", "meth", (v, [v]), {kw: v}))
    except Exception as x:
        viol("arg-raises", "argument path raised %r although the result path works" % (x,))
        return out
    if o != "obj" or m != "meth":
        viol("call-header", "object/method came back as %r/%r" % (o, m))
    if list(kwa.keys()) != [kw] or type(list(kwa.keys())[0]) is not str:
        viol("kwarg-name", "keyword name %r arrived as %r" % (kw, list(kwa.keys())))
        return out
    if len(va) != 2:
        viol("arg-count", "2 positional arguments arrived as %d" % len(va))
        return out
    if V.is_core(v) and not V.same(res, v):
        viol("core-not-lossless", "result path changed a lossless-core value: %s" % V.describe_diff(v, res))
    if not matches(res, exp):
        viol("result-mapping", "result path gives %r, documented mapping gives %r" % (res, exp))
    for label, got in (("positional", va[0]), ("keyword", kwa[kw])):
        if not matches(got, exp):
            sig = "arg-ext-type" if "ExtType" in repr(got) else "arg-mapping"
            viol(sig, "%s argument arrives as %r, result path gives %r, documented mapping %r" % (label, got, res, exp))
    nested = va[1]
    if not (type(nested) is list and len(nested) == 1 and matches(nested[0], exp)):
        viol("nested-arg-mapping", "argument nested in a list arrives as %r, expected [%r]" % (nested, exp))
    # idempotence: applying the mapping to an already mapped value changes nothing
    try:
        again = ser.loads(ser.dumps(res))
        exp2 = expected(name, res)
        if not matches(again, exp2) or not _same_modulo_order(again, res, exp):
            viol("not-idempotent", "mapping applied twice: %r -> %r -> %r" % (v, res, again))
    except Unsupported:
        pass
    except Exception as x:
        viol("not-idempotent", "re-sending the mapped value raised %r" % (x,))
    return out


def _same_modulo_order(a, b, exp):
    """a and b are two actual values that both match exp's shape; equal up to the order of Unordered lists"""
    if isinstance(exp, Unordered):
        return matches(a, Unordered(b))
    if type(exp) in (list, tuple) and type(a) in (list, tuple) and type(b) in (list, tuple) and len(a) == len(b) == len(exp):
        return type(a) is type(b) and all(_same_modulo_order(x, y, e) for x, y, e in zip(a, b, exp))
    if type(exp) is dict and type(a) is dict and type(b) is dict and a.keys() == b.keys() and set(a.keys()) == set(exp.keys()):
        return all(_same_modulo_order(a[k], b[k], exp[k]) for k in exp)
    return V.same(a, b)


# ------------------------------------------------------------------------------------------------
# L2 (live)
# ------------------------------------------------------------------------------------------------
ORIGINALS = {}
RECEIVED = {}
ONEWAY_EVENTS = {}
_live = {}


def _echo_class():
    import Pyro5.api as api

    @api.expose
    class Echo(object):
        def echo(self, token, /, *args, **kwargs):
            RECEIVED[token] = (args, kwargs)
            return ORIGINALS[token]

        @api.oneway
        def note(self, token, /, *args, **kwargs):
            # a fire-and-forget call takes arguments like any other call
            RECEIVED[("oneway", token)] = (args, kwargs)
            ev = ONEWAY_EVENTS.get(token)
            if ev is not None:
                ev.set()

        def echo_padded(self, token, n, /, *args, **kwargs):
            # a reply that is as long as the request: both directions cross the transport's chunk size
            RECEIVED[token] = (args, kwargs)
            return [ORIGINALS[token], "r" * n]

        def stream(self, token):
            v = ORIGINALS[token]
            yield v
            yield [v]
            yield {"k": v}
    return Echo


def _setup_live(servertype):
    if "served" in _live:
        return _live
    import os
    import time
    from vlib import live
    os.environ["TZ"] = "UTC"
    time.tzset()
    live.quiet_logs()
    if _live.get("commtimeout"):
        # sockets with a timeout take the non-blocking code paths of the transport (stimulus only: 30 s is never reached)
        _live["scope"] = live.ConfigScope(COMMTIMEOUT=_live["commtimeout"])
        _live["scope"].__enter__()
    if _live.get("unix"):
        _live["unix_path"] = live.unix_socket_path()       # the same daemon behind a Unix domain socket
        s = live.Served(servertype, unixsocket=_live["unix_path"])
    else:
        s = live.Served(servertype)
    s.daemon.register(_echo_class()(), "echo")
    _live["served"] = s
    _live["proxies"] = {}
    _live["counter"] = [0]
    return _live


def _teardown_live():
    if "served" in _live:
        for p in list(_live["proxies"].values()) + list(_live.get("proxies2", {}).values()):
            try:
                p._pyroRelease()
            except Exception:
                pass
        _live["served"].stop()
        if _live.get("scope") is not None:
            _live["scope"].__exit__()
        if _live.get("unix_path"):
            import os
            import shutil
            shutil.rmtree(os.path.dirname(_live["unix_path"]), ignore_errors=True)
        _live.clear()


def run_l2(case):
    from vlib import live
    import Pyro5.api as api
    from Pyro5 import config
    L = _setup_live(case.get("servertype", _live.get("servertype", "thread")))
    name, v, kw = case["ser"], case["v"], case["kw"]
    out = []

    def viol(sig, what):
        out.append(Violation("C01:%s:%s" % (name, sig), ("%s live: %s (value %r)" % (name, what, v))[:500]))

    try:
        exp = expected(name, v)
    except Unsupported:
        return out
    p = L["proxies"].get(name)
    if p is None:
        p = L["proxies"][name] = live.proxy(L["served"].uri("echo"), serializer=name)
        p._pyroSeq = 0xffd0 + 7 * len(L["proxies"])      # the 16-bit sequence number wraps within every shard
    L["counter"][0] += 1
    token = L["counter"][0]
    ORIGINALS[token] = v
    pad = "p" * case.get("pad", 0)
    oldc = config.COMPRESSION
    config.COMPRESSION = bool(case.get("compress"))
    # annotation chunks on the carrying messages (request: client context; reply: daemon.annotations()) must not matter
    ann = case.get("ann", 0)
    api.current_context.annotations = {"VCLI": b"client annotation \x00\xff" * (1 + token % 3)} if ann & 1 else {}
    L["served"].daemon.v_annotations = (lambda: {"VSRV": b"server annotation", "VSR2": b""}) if ann & 2 else None
    try:
        try:
            if len(pad) >= 1000:
                res = p.echo_padded(token, len(pad), v, [v, pad], **{kw: v})
                if type(res) is list and len(res) == 2 and res[1] == "r" * len(pad):
                    res = res[0]
                else:
                    viol("padding", "long reply arrived as %.120r" % (res,))
                    return out
            else:
                res = p.echo(token, v, [v, pad], **{kw: v})
        except Exception as x:
            viol("call-raises", "remote call raised %r" % (x,))
            return out
        args, kwargs = RECEIVED.pop(token, (None, None))
        if args is None:
            viol("not-delivered", "server method did not run")
            return out
        if list(kwargs.keys()) != [kw]:
            viol("kwarg-name", "keyword name %r arrived as %r" % (kw, list(kwargs.keys())))
            return out
        checks = [("positional argument", args[0] if len(args) > 0 else "<missing>"), ("keyword argument", kwargs[kw]), ("result", res)]
        if len(args) > 1 and type(args[1]) is list and len(args[1]) == 2:
            checks.append(("nested argument", args[1][0]))
            if args[1][1] != pad:
                viol("padding", "padding string changed")
        else:
            viol("nested-arg-mapping", "nested argument arrived as %r" % (args[1:],))
        # the same arguments to a method flagged @oneway (nothing comes back; what the method received is looked up afterwards)
        import threading
        ev = ONEWAY_EVENTS[token] = threading.Event()
        try:
            p.note(token, v, **{kw: v})
            if not ev.wait(20):
                viol("oneway-not-delivered", "a @oneway method called with a positional and a keyword argument did not run within 20 s")
            else:
                oargs, okw = RECEIVED.pop(("oneway", token), ((), {}))
                if list(okw.keys()) != [kw]:
                    viol("kwarg-name", "@oneway call: keyword argument %r arrived as %r" % (kw, list(okw.keys())))
                else:
                    checks += [("positional argument of a oneway call", oargs[0] if oargs else "<missing>"), ("keyword argument of a oneway call", okw[kw])]
        except Exception as x:
            viol("call-raises", "@oneway call raised %r" % (x,))
        finally:
            ONEWAY_EVENTS.pop(token, None)
        # batch result and batch argument
        b = api.BatchProxy(p)
        b.echo(token, v)
        b.echo(token, [v])
        try:
            r1 = b()            # (read further down: the same BatchProxy is used for a second batch first - supported usage)
            bargs, _bk = RECEIVED.pop(token, ((None, None), None))
            if type(bargs[0]) is list and len(bargs[0]) == 1:
                checks.append(("batch argument", bargs[0][0]))
            b.echo(token, {"k": v})
            r2 = b()
            br, br2 = list(r1), list(r2)
            if len(br) == 2:
                checks.append(("batch result", br[0]))
            else:
                viol("batch-shape", "first of two batches through one BatchProxy: 2 calls, results %.200r" % (br,))
            if len(br2) == 1:
                checks.append(("batch result (second batch, same BatchProxy)", br2[0]))
            else:
                viol("batch-shape", "second of two batches through one BatchProxy: 1 call, results %.200r" % (br2,))
        except Exception as x:
            viol("batch-raises", "batch raised %r" % (x,))
        # streamed items
        try:
            # (another client of the same daemon has a stream of its own open at the same time and reads it in between)
            p2 = L.setdefault("proxies2", {}).get(name)
            if p2 is None:
                p2 = L["proxies2"][name] = live.proxy(L["served"].uri("echo"), serializer=name)
            L["counter"][0] += 1
            token2 = L["counter"][0]
            decoy = ["another client's stream", token2]
            ORIGINALS[token2] = decoy
            it1, it2 = p.stream(token), p2.stream(token2)
            items, items2 = [], []
            for _ in range(4):
                for it, acc in ((it1, items), (it2, items2)):
                    try:
                        acc.append(next(it))
                    except StopIteration:
                        pass
            ORIGINALS.pop(token2, None)
            if items2 != [decoy, [decoy], {"k": decoy}]:
                viol("stream-of-another-client", "two clients read a stream each at the same time: the second one received %.200r, its method produced %.200r" % (items2, [decoy, [decoy], {"k": decoy}]))
            if len(items) == 3 and type(items[1]) is list and len(items[1]) == 1 and type(items[2]) is dict and list(items[2]) == ["k"]:
                checks += [("streamed item", items[0]), ("streamed nested item", items[1][0]), ("streamed dict item", items[2]["k"])]
            else:
                viol("stream-shape", "stream delivered %r" % (items,))
        except Exception as x:
            viol("stream-raises", "stream raised %r" % (x,))
        for label, got in checks:
            if V.is_core(v) and not V.same(got, v):
                viol("core-not-lossless", "%s: lossless-core value changed: %s" % (label, V.describe_diff(v, got)))
            elif not matches(got, exp):
                kind = "arg" if "argument" in label else "result"
                sig = "arg-ext-type" if "ExtType" in repr(got) else kind + "-mapping"
                viol(sig, "%s arrives as %r, documented mapping gives %r" % (label, got, exp))
    finally:
        config.COMPRESSION = oldc
        api.current_context.annotations = {}
        L["served"].daemon.v_annotations = None
        ORIGINALS.pop(token, None)
        RECEIVED.pop(token, None)
    return out


# ------------------------------------------------------------------------------------------------
# L3: several clients at once (each its own proxy and connection) - values must not get mixed up between calls
# ------------------------------------------------------------------------------------------------

def _l3_values(ser, i):
    vals = [2**70 + i, -(2**64) - i, [2**80 + i, "x"], {"k": 2**65 + i}, {"a%d" % i: [i, None, 1.5]}, "text-%d-\u00e9" % i, i, [i, [i, [i]]]]
    if ser != "json":
        vals += [complex(i, -i), {i, i + 1, 2**66}, (i, (2**70, "t"))]
    if ser != "marshal":
        vals += [decimal.Decimal(i) / 8, uuid.UUID(int=i + 1), datetime.date(2000 + i % 50, 1 + i % 12, 1 + i % 28)]
    return vals


def run_l3(case):
    import sys
    import threading
    from vlib import live
    L = _setup_live(case.get("servertype", "thread"))
    out = []
    lock = threading.Lock()
    old = sys.getswitchinterval()
    sys.setswitchinterval(1e-6)
    base = L["counter"][0]
    L["counter"][0] += 1000000

    def viol(sig, what):
        with lock:
            if len(out) < 5:
                out.append(Violation("C01:%s" % sig, ("concurrent clients: " + what)[:500]))

    def client(t, ser):
        p = live.proxy(L["served"].uri("echo"), serializer=ser)
        try:
            n = 0
            for rnd in range(case["rounds"]):
                for v in _l3_values(ser, rnd * 7 + t):
                    n += 1
                    token = base + t * 100000 + n
                    ORIGINALS[token] = v
                    try:
                        exp = expected(ser, v)
                        res = p.echo(token, v, kw=v)
                        args, kwargs = RECEIVED.pop(token, (None, None))
                        if args is None or len(args) != 1 or list(kwargs) != ["kw"]:
                            viol(ser + ":concurrent-delivery", "call %r: server received args=%r kwargs=%r" % (v, args, kwargs))
                        else:
                            for label, got in (("positional argument", args[0]), ("keyword argument", kwargs["kw"]), ("result", res)):
                                if not matches(got, exp):
                                    viol(ser + ":concurrent-value-mixup", "%s of call %r arrived as %r (expected %r)" % (label, v, got, exp))
                    except Exception as x:
                        viol(ser + ":concurrent-call-raises", "call %r raised %r" % (v, x))
                    finally:
                        ORIGINALS.pop(token, None)
                    if out:
                        return
        finally:
            p._pyroRelease()
    threads = [threading.Thread(target=client, args=(t, ser)) for t, ser in enumerate(case["sers"])]
    try:
        for th in threads:
            th.start()
        for th in threads:
            th.join()
    finally:
        sys.setswitchinterval(old)
    return out


def run_case(case):
    if case["layer"] == 3:
        try:
            return run_l3(case)
        finally:
            if not _live.get("keep"):
                _teardown_live()
    if case["layer"] == 1:
        return run_l1(case)
    try:
        return run_l2(case)
    finally:
        if case.get("standalone", True) and not _live.get("keep"):
            _teardown_live()


def _nontrivial(case):
    if case["layer"] == 3:
        return True
    return V.interesting(case["v"])


def _labels(case):
    if case["layer"] == 3:
        return ["L3-concurrent"]
    v = case["v"]
    l = ["L%d" % case["layer"], "ser:" + case["ser"], "core" if V.is_core(v) else "ext"]
    if case["layer"] == 2 and case.get("compress"):
        l.append("compressed")
    if case["layer"] == 2 and case.get("pad", 0) >= 1000:
        l.append("message-longer-than-transport-chunk")
    if case["layer"] == 2 and case.get("ann"):
        l.append("annotations:" + {1: "request", 2: "reply", 3: "both"}[case["ann"]])
    for x in V.leaves(v):
        if type(x) is int and not -2**63 <= x < 2**64:
            l.append("bigint")
            break
    return l


def SHARDS(tier):
    sh = [{"layer": 1, "ser": s} for s in SERS] + [{"layer": 1, "ser": s} for s in SERS]
    sh += [{"layer": 2, "ser": s, "servertype": t, "commtimeout": 30.0 if (i + j) % 2 else 0.0, "unix": (i + 2 * j) % 4 == 3}
           for i, s in enumerate(SERS) for j, t in enumerate(("thread", "multiplex"))]
    sh += [{"layer": 3, "servertype": "thread", "sers": ["msgpack", "msgpack", "msgpack"]}, {"layer": 3, "servertype": "thread", "sers": ["serpent", "json", "marshal", "msgpack"]}]
    return sh


def run(ctx):
    sh = ctx.shard
    if sh.get("layer") == 3:
        _live["keep"] = True
        _live["servertype"] = sh["servertype"]
        try:
            for rep in range(ctx.n(6, 60)):
                case = {"layer": 3, "servertype": sh["servertype"], "sers": sh["sers"], "rounds": 12, "rep": rep}
                viols = run_l3(case)
                ctx.observe(case, viols, True, ["L3-concurrent", "sers:" + "+".join(sh["sers"])])
                if viols:
                    break
        finally:
            _live["keep"] = False
            _teardown_live()
        return
    if sh.get("layer", 1) == 1:
        ctx.search(l1_case(sh.get("ser")), run_case, ctx.n(700, 12000), nontrivial=_nontrivial, labels=_labels, name="l1" + sh.get("ser", ""))
    else:
        _live["keep"] = True
        _live["servertype"] = sh["servertype"]
        _live["commtimeout"] = sh.get("commtimeout", 0.0)
        _live["unix"] = bool(sh.get("unix"))
        try:
            def rc(case):
                case = dict(case, servertype=sh["servertype"])
                return run_l2(case)
            ctx.search(l2_case(sh["ser"]), rc, ctx.n(250, 4000), nontrivial=_nontrivial,
                       labels=lambda c: _labels(c) + ["server:" + sh["servertype"]] + (["commtimeout-set"] if sh.get("commtimeout") else []) + (["unix-socket"] if sh.get("unix") else []), name="l2" + sh["ser"])
        finally:
            _live["keep"] = False
            _teardown_live()
