"""C20 - The HTTP gateway forwards only authorised requests, and forwards them faithfully.

Code under test : Pyro5/utils/httpgateway.py  (pyro_app and everything below it)

Environment (one per process, reused by all cases of a shard because daemon shutdown has fixed sleeps):
  * a real name-server daemon (NameServerDaemon subclass with handshake/disconnect hooks) on 127.0.0.1:0
  * a real object daemon (vlib.live.Served) with seven instances of one test class; every method/property body appends
    (label, member, kwargs) to a log; registered in the name server under names with near-misses of each other
  * the gateway finds the name server through core.locate_ns(): NS_HOST/NS_PORT point at OUR daemon (no broadcast)
  * every message any daemon of this process RECEIVES is recorded at the moment recv_stub returns it (a delegating shim
    object replaces the name `protocol` inside Pyro5.server only): (daemon, message type, object id, method).  This is
    exact - counting Daemon.handleRequest entries is not: a worker thread re-enters handleRequest (and would be counted)
    some time AFTER the reply of the previous request reached the client.
  * "no Pyro traffic" = no message record and no validated handshake on either daemon between the snapshot (taken
    after warming the gateway's cached name-server proxy) and quiescence after the HTTP request.
  * quiescence = all gateway connections on both daemons are gone again (worker pool back at its baseline) and no
    oneway-call thread is alive; polled with a generous ceiling that only guards against a hang (HarnessError, never a
    verdict).  Oneway executions are therefore complete when the log is read - no sleeping and hoping.
  * hang guards (diagnostic / inconclusive only, never a verdict): the gateway runs with comm_timeout = 30 s (latency is
    ~1 ms); a Pyro TimeoutError behind the gateway becomes a HarnessError; run() arms faulthandler to dump all threads
    if a shard is still running 90 s after its budget.
  * known findings (open, see known_findings.d/C20.json): member names that client.Proxy itself defines are executed on
    the gateway's proxy object; a member name is cut at a newline; two $key parameters without key header crash pyro_app.

Oracle (judge(), a function of the case and the observation only; pattern meaning computed WITHOUT the re module):
  path p = PATH_INFO without leading '/':
    ""                        -> root redirect: no traffic, status 302 (or a refusal)
    not startswith "pyro/"    -> refusal: status 403/404/405 (200 for OPTIONS), no traffic
    "pyro/"                   -> index page (the keyless exception): GET/POST -> 200 and the table lists exactly the
                                 registered names matching the pattern (or 403); other methods -> refusal
    "pyro/<rest>"             -> splits = every way to cut rest at one '/' into non-empty (object, member)
       no split               -> refusal
       exactly one '/'        -> THE call request form of the statement: authorised <=> method in {GET, POST} and the key
                                 verdict is ok and the object name matches the pattern.  Not authorised -> refusal.
                                 Authorised -> faithful forwarding (below).
       several '/'            -> a member (attribute name) cannot contain '/', a Pyro object name can: when the text behind
                                 the last slash is non-empty, (everything before it, it) is THE (object, member) and the
                                 request is judged exactly like the one-slash form.  Paths ending in '/' or containing a
                                 newline name no possible member: only the safety half is demanded (refusal is mandatory
                                 when the key is bad or NO split has an object matching the pattern; otherwise either a
                                 clean refusal or an outcome that is faithful for one split whose object matches).
  key verdict: no key configured (None or b"", what main() sets without -g) -> ok.  Otherwise header / $key parameter
    are each absent, right or wrong: right in one place and absent (or right) in the other -> ok; nothing right -> bad;
    one right and one wrong -> EITHER outcome is accepted (clean 403 or faithful forwarding).
  faithful forwarding of (object, member), kwargs = parse_qs(query) with single-value lists unwrapped, minus "$key" when
    a key is configured:
      object not registered            -> 500 + JSON error, nothing executed
      $meta                            -> 200, methods/attributes == the object's real exposed members, nothing executed
      exposed method                   -> exactly one log entry (that object, that member, those kwargs); 200 and body ==
                                          JSON of the value the method returns for those kwargs (computed by the same
                                          pure function the method uses), or 500 + JSON error when it raises / the
                                          kwargs do not bind (then nothing executed)
      exposed property, no query       -> 200, its value, one log entry
      oneway option / @oneway method   -> 200, empty body, exactly one execution (after quiescence)
      anything else (unknown, private, dunder, unexposed) -> 500 + JSON error, nothing executed
    and every message the object daemon received is addressed to exactly the named object's id.
"""
import array
import atexit
import fcntl
import io
import json
import os
import termios
import threading
import time
import urllib.parse

from hypothesis import strategies as st

from vlib.driver import Violation, HarnessError
from vlib import live

PROPERTY = "C20"
LEVEL = "exploration"
RULE = ("a case is one WSGI request (REQUEST_METHOD, PATH_INFO, QUERY_STRING, key header, options header, correlation id) "
        "plus one gateway configuration (gateway_key, ns_regex); Hypothesis builds them from weighted pools (registered "
        "names and their prefix/suffix/case near-misses, members incl. $meta/property/private/dunder, 0-5 query pairs in "
        "five encodings, key in header and/or $key parameter absent/wrong/right/repeated) and a deterministic cross "
        "product sweep covers method x path x key setting x header x parameter x pattern; a case is non-trivial when a "
        "key is configured, or the object or member name is a near-miss (prefix/suffix/case) of a registered/exposed one, "
        "or the query has a multi-valued key; distinct = distinct case JSON")
ASSUMPTIONS = ["urllib.parse.parse_qs defines what 'the query parameters' of a query string are",
               "the expose patterns are taken from a five-member family whose meaning is computed with startswith/equality",
               "object names in PATH_INFO contain no newline (only member names do)",
               "QUERY_STRING is always present in the environ (wsgiref always sets it)",
               "messages received by the daemons are observed by replacing the name 'protocol' inside Pyro5.server by a delegating object",
               "a path with several slashes whose last segment is non-empty names (everything before the last slash, last segment): a member "
               "is an attribute name and cannot contain a slash, a Pyro object name can",
               "the gateway process is stateless: a case may run an earlier request (other options / member / query / wrong key) first; "
               "the judged request is held to the same oracle as without it",
               "member 'drop' runs and then shuts its own connection down, so the gateway loses the connection to the object after the call was made (a fault, outside the "
               "statement's quantifier): for it only 'invoked exactly once' is judged, not what the HTTP client is told (on the pinned tree pyro_app then raises TypeError "
               "from its error handler: the ConnectionClosedError's bytearray attribute is not JSON serialisable - recorded in DESIGN.md as an observation, not as a finding)",
               "quiescence: all gateway connections are gone, or (a gateway that keeps connections) every serving thread is back waiting "
               "for a message with an empty receive queue, observed twice 0.25 s after the request with no message recorded in between"]
BUDGET_S = {"quick": 34, "thorough": 780}
COMM_TIMEOUT = 30.0

# ------------------------------------------------------------------------------------------------
# the world behind the gateway
# ------------------------------------------------------------------------------------------------
NS_NAME = "Pyro.NameServer"
OBJECT_NAMES = ["http.calc", "http.calc2", "http.Calc", "xhttp.calc", "http", "other.obj", "http.dir/leaf"]
EXPOSED_METHODS = {"echo", "add", "boom", "fire", "fire_ow", "drop"}
EXPOSED_ATTRS = {"prop"}

PATTERNS = [r"http\.", r"^http\.calc$", r"http\.calc|other\.obj", "", r"Pyro\."]


def literal_match(pattern, name):
    """meaning of the pattern family, computed without re"""
    if pattern == "":
        return True
    if pattern == r"http\.":
        return name.startswith("http.")
    if pattern == r"^http\.calc$":
        return name == "http.calc"
    if pattern == r"http\.calc|other\.obj":
        return name.startswith("http.calc") or name.startswith("other.obj")
    if pattern == r"Pyro\.":
        return name.startswith("Pyro.")
    raise HarnessError("pattern outside the family: %r" % (pattern,))


def objid_for(name):
    return "o." + name.replace("/", "_")


# pure functions: what the methods return for given kwargs (used by the served objects AND by the oracle)
def _m_echo(label, /, **kw):
    return {"obj": label, "member": "echo", "kwargs": kw}


def _m_add(label, /, a, b=None):
    return [label, a, b]


def _m_boom(label, /, **kw):
    raise ValueError("boom:" + label + ":" + json.dumps(kw, sort_keys=True))


def _m_fire(label, /, **kw):
    return "fired:%s:%d" % (label, len(kw))


def _m_fire_ow(label, /, **kw):
    return None


MODEL = {"echo": _m_echo, "add": _m_add, "boom": _m_boom, "fire": _m_fire, "fire_ow": _m_fire_ow}


def _prop_value(label):
    return "prop-of-" + label


_target_cls = None


def target_class():
    global _target_cls
    if _target_cls is not None:
        return _target_cls
    from Pyro5.api import expose, oneway

    class Target(object):
        def __init__(self, label, log, lock):
            self.label = label
            self.v_log = log
            self.v_lock = lock
            self.fired = threading.Event()

        def _rec(self, member, kw):
            with self.v_lock:
                self.v_log.append((self.label, member, kw))

        @expose
        def echo(_s, /, **kw):
            _s._rec("echo", kw)
            return _m_echo(_s.label, **kw)

        @expose
        def add(_s, /, a, b=None):
            kw = {"a": a}
            if b is not None:          # query values are strings or lists, never None
                kw["b"] = b
            _s._rec("add", kw)
            return _m_add(_s.label, a, b)

        @expose
        def boom(_s, /, **kw):
            _s._rec("boom", kw)
            return _m_boom(_s.label, **kw)

        @expose
        def fire(_s, /, **kw):
            _s._rec("fire", kw)
            _s.fired.set()
            return _m_fire(_s.label, **kw)

        @expose
        @oneway
        def fire_ow(_s, /, **kw):
            _s._rec("fire_ow", kw)
            _s.fired.set()

        @expose
        def drop(_s, /, **kw):
            # runs, and then its connection dies before the reply can leave: the caller cannot get an answer - but the call HAS run
            _s._rec("drop", kw)
            import socket
            from Pyro5.callcontext import current_context
            try:
                current_context.client.sock.shutdown(socket.SHUT_RDWR)
            except Exception:
                pass
            return "never arrives"

        @expose
        @property
        def prop(_s):
            _s._rec("prop", {})
            return _prop_value(_s.label)

        def hidden(_s, /, **kw):          # public but not exposed
            _s._rec("hidden", kw)
            return "hidden"

        def _secret(_s, /, **kw):
            _s._rec("_secret", kw)
            return "secret"

    _target_cls = Target
    return Target


class _ProtocolShim(object):
    """stands in for the module object `protocol` inside Pyro5.server: delegates everything, records received messages"""

    def __init__(self, real, record):
        self.__dict__["_real"] = real
        self.__dict__["_record"] = record
        self.__dict__["_waiting"] = {}          # id(connection) -> connection a server thread is currently waiting on for a message
        self.__dict__["_wlock"] = threading.Lock()

    def __getattr__(self, name):
        return getattr(self._real, name)

    def waiting_idle(self):
        """-> number of server threads blocked waiting for a message on a connection with nothing in its receive queue, or
        None when one of them has unread bytes (a request that is about to be taken up)"""
        with self._wlock:
            conns = list(self._waiting.values())
        n = 0
        for c in conns:
            try:
                buf = array.array("i", [0])
                fcntl.ioctl(c.sock.fileno(), termios.FIONREAD, buf)
                if buf[0] != 0:
                    return None
            except Exception:
                return None
            n += 1
        return n

    def recv_stub(self, connection, accepted_msgtypes=None):
        with self._wlock:
            self._waiting[id(connection)] = connection
        try:
            msg = self._real.recv_stub(connection, accepted_msgtypes)
        finally:
            with self._wlock:
                self._waiting.pop(id(connection), None)
        try:
            self._record(connection, msg)
        except Exception:       # observation must never disturb the daemon
            pass
        return msg


class _Env(object):
    def __init__(self, storage=None):
        self.storage = storage
        self.tmpdir = None
        import Pyro5.api  # noqa
        import Pyro5.server
        import Pyro5.nameserver
        import Pyro5.client
        import Pyro5.protocol
        from Pyro5 import config, serializers
        from Pyro5.utils import httpgateway
        live.quiet_logs()
        self.hg = httpgateway
        self.config = config
        self.traffic = []
        self.tlock = threading.Lock()
        self.log = []
        self.loglock = threading.Lock()
        self.ports = {}
        self._serializers = serializers
        self._protocol = Pyro5.protocol
        self._server = Pyro5.server
        self._real_protocol = Pyro5.server.protocol
        Pyro5.server.protocol = _ProtocolShim(self._real_protocol, self._record)

        env = self

        class NSD(Pyro5.nameserver.NameServerDaemon):
            def __init__(self, *a, **k):
                self.v_lock = threading.Lock()
                self.v_validated = []
                self.v_disconnects = []
                super().__init__(*a, **k)

            def validateHandshake(self, conn, data):
                with self.v_lock:
                    self.v_validated.append((conn, data))
                return "hello"

            def clientDisconnect(self, conn):
                with self.v_lock:
                    self.v_disconnects.append(conn)

        old = config.SERVERTYPE
        config.SERVERTYPE = "thread"
        try:
            if storage == "sql":
                # the same name server with its sqlite back-end (what `pyro5-ns -s sql:<file>` runs)
                import tempfile
                self.tmpdir = tempfile.mkdtemp(prefix="c20ns_", dir="/var/tmp")
                self.nsd = NSD("127.0.0.1", 0, storage="sql:" + os.path.join(self.tmpdir, "ns.sqlite"))
            else:
                self.nsd = NSD("127.0.0.1", 0)
        finally:
            config.SERVERTYPE = old
        self.ns_port = self.nsd.sock.getsockname()[1]
        self.ns_thread = threading.Thread(target=self.nsd.requestLoop, name="verif-ns-loop", daemon=True)
        self.ns_thread.start()
        self.served = live.Served("thread")
        self.obj_port = self.served.address()[1]
        self.ports = {self.ns_port: "ns", self.obj_port: "obj"}
        self.location = self.served.location
        Target = target_class()
        self.targets = {}
        self.uris = {}
        for name in OBJECT_NAMES:
            t = Target(name, self.log, self.loglock)
            uri = self.served.daemon.register(t, objid_for(name))
            self.nsd.nameserver.register(name, uri)
            self.targets[name] = t
            self.uris[name] = str(uri)
        self.uris[NS_NAME] = str(self.nsd.uriFor(self.nsd.nameserver))
        config.NS_HOST = "127.0.0.1"
        config.NS_PORT = self.ns_port
        config.NS_BCPORT = self.ns_port     # never used: the direct attempt on 127.0.0.1 succeeds
        # hang guard only: every blocking socket operation of the gateway's proxies gives up after COMM_TIMEOUT seconds
        # (normal latency is ~1 ms); perform() turns such a timeout into a HarnessError (inconclusive), never a verdict
        config.COMMTIMEOUT = COMM_TIMEOUT
        httpgateway._nameserver = None
        # facts the oracle may use: registered names and the real exposed members (asked directly, not via the gateway)
        self.meta = {}
        for name, uri in self.uris.items():
            with Pyro5.client.Proxy(uri) as p:
                p._pyroBind()
                self.meta[name] = (set(p._pyroMethods), set(p._pyroAttrs))
        for name in OBJECT_NAMES:
            if self.meta[name] != (EXPOSED_METHODS, EXPOSED_ATTRS):
                raise HarnessError("test object exposes %r" % (self.meta[name],))
        self.facts = {"names": dict([(n, n) for n in OBJECT_NAMES] + [(NS_NAME, "NS")]),
                      "objids": dict([(n, objid_for(n)) for n in OBJECT_NAMES] + [(NS_NAME, NS_NAME)]),
                      "meta": self.meta, "uris": self.uris, "count": len(OBJECT_NAMES) + 1}
        self.closed = False

    # -- observation
    def _record(self, conn, msg):
        try:
            port = conn.sock.getsockname()[1]
        except Exception:
            port = None
        which = self.ports.get(port, "?")
        objid = method = None
        P = self._protocol
        try:
            ser = self._serializers.serializers_by_id[msg.serializer_id]
            if msg.type == P.MSG_CONNECT:
                d = ser.loads(msg.data)
                objid = d.get("object")
            elif msg.type == P.MSG_INVOKE:
                objid, method, _va, _kw = ser.loadsCall(msg.data)
        except Exception:
            pass
        kind = {P.MSG_CONNECT: "CONNECT", P.MSG_INVOKE: "INVOKE", P.MSG_PING: "PING"}.get(msg.type, "type%d" % msg.type)
        with self.tlock:
            self.traffic.append((which, kind, objid, method))

    def _busy(self):
        return len(self.served.daemon.transportServer.pool.busy), len(self.nsd.transportServer.pool.busy)

    def _ns_baseline(self):
        ns = self.hg._nameserver
        try:
            return 1 if (ns is not None and ns._pyroConnection is not None) else 0
        except Exception:
            return 0

    def quiesce(self):
        base = self._ns_baseline()

        def oneway_running():
            return any(t.name == "oneway-call" and t.is_alive() for t in threading.enumerate())

        def gone():
            a, b = self._busy()
            return a == 0 and b <= base and not oneway_running()        # every gateway connection is gone again

        def parked():
            """a gateway may keep its connections open: then every server thread serving one must be back waiting for the next
            message with nothing unread on its socket (loopback delivery is synchronous: what was sent is in the queue)"""
            with self.tlock:
                n0 = len(self.traffic)
            a, b = self._busy()
            w = self._server.protocol.waiting_idle()
            if w is None or w != a + b or (a, b) != self._busy() or oneway_running():
                return None
            with self.tlock:
                return n0 if n0 == len(self.traffic) else None
        t0 = time.time()
        delay = 0.0001
        last = None
        while not gone():
            waited = time.time() - t0
            if waited > 0.25:
                # only reached when connections outlive the request (never with a gateway that uses a new proxy per request)
                now = parked()
                if now is not None and now == last:
                    self.persistent_connections = True
                    return
                last = now
            if waited > 60.0:
                raise HarnessError("daemons did not become idle again after a gateway request (busy=%r, baseline=%d)" % (self._busy(), base))
            time.sleep(delay)
            if delay < 0.01:
                delay *= 2

    def handshakes(self):
        with self.served.daemon.v_lock:
            a = len(self.served.daemon.v_validated)
        with self.nsd.v_lock:
            b = len(self.nsd.v_validated)
        return a + b

    def perform(self, case):
        hg = self.hg
        if self.closed:
            raise HarnessError("environment used after shutdown")
        self.config.NS_HOST = "127.0.0.1"
        self.config.NS_PORT = self.ns_port
        # warm the gateway's cached name server proxy with NO restrictions in force, then snapshot
        try:
            hg.get_nameserver()
        except Exception as x:
            raise HarnessError("cannot warm the gateway's name server proxy: %r" % (x,))
        hg.pyro_app.gateway_key = case["gateway_key"]
        hg.pyro_app.ns_regex = case["ns_regex"]
        hg.pyro_app.cors = "*"
        hg.pyro_app.comm_timeout = COMM_TIMEOUT
        self.quiesce()
        with self.loglock:
            del self.log[:]
        for t in self.targets.values():
            t.fired.clear()
        with self.tlock:
            t0 = len(self.traffic)
        h0 = self.handshakes()
        errors_stream = io.StringIO()
        environ = {
            "REQUEST_METHOD": case["method"], "SCRIPT_NAME": "", "PATH_INFO": case["path"],
            "QUERY_STRING": case["query"].replace("OBJLOC", self.location),
            "SERVER_NAME": "127.0.0.1", "SERVER_PORT": "8080", "SERVER_PROTOCOL": "HTTP/1.1",
            "wsgi.version": (1, 0), "wsgi.url_scheme": "http", "wsgi.input": io.BytesIO(b""), "wsgi.errors": errors_stream,
            "wsgi.multithread": False, "wsgi.multiprocess": False, "wsgi.run_once": False,
        }
        if case.get("hdr_key") is not None:
            environ["HTTP_X_PYRO_GATEWAY_KEY"] = case["hdr_key"]
        if case.get("options") is not None:
            environ["HTTP_X_PYRO_OPTIONS"] = case["options"]
        if case.get("corr") is not None:
            environ["HTTP_X_PYRO_CORRELATION_ID"] = case["corr"]
        started = []

        def start_response(status, headers, exc_info=None):
            started.append((status, list(headers)))
        obs = {"exc": None, "status": None, "code": None, "body": None, "headers": None}
        try:
            body = b"".join(hg.pyro_app(environ, start_response))
            obs["body"] = body
        except Exception as x:
            obs["exc"] = "%s: %s" % (type(x).__name__, x)
        if started:
            obs["status"], obs["headers"] = started[-1]
            try:
                obs["code"] = int(obs["status"].split()[0])
            except Exception:
                obs["code"] = -1
        timed_out = "TimeoutError" in (obs["exc"] or "")
        if obs["code"] == 500:
            ok, j = _is_error_json(obs["body"])
            timed_out = timed_out or (ok and j["__class__"].endswith("TimeoutError"))
        if timed_out:
            raise HarnessError("a Pyro call behind the gateway got no answer within %.0f s (case %r): inconclusive" % (COMM_TIMEOUT, case))
        self.quiesce()
        with self.tlock:
            obs["traffic"] = list(self.traffic[t0:])
        obs["handshakes"] = self.handshakes() - h0
        with self.loglock:
            obs["log"] = list(self.log)
        obs["query"] = environ["QUERY_STRING"]
        return obs

    def shutdown(self):
        if self.closed:
            return
        self.closed = True
        try:
            ns = self.hg._nameserver
            self.hg._nameserver = None
            if ns is not None:
                ns._pyroRelease()
        except Exception:
            pass
        self.served.stop()
        try:
            self.served.daemon.close()
        except Exception:
            pass
        try:
            self.nsd.shutdown()
        except Exception:
            pass
        self.ns_thread.join(5)
        try:
            self.nsd.close()
        except Exception:
            pass
        self._server.protocol = self._real_protocol
        if self.tmpdir:
            import shutil
            shutil.rmtree(self.tmpdir, ignore_errors=True)


_ENV = None


def _env(storage=None):
    global _ENV
    if _ENV is not None and not _ENV.closed and _ENV.storage != storage:
        _ENV.shutdown()
    if _ENV is None or _ENV.closed:
        _ENV = _Env(storage)
        atexit.register(_shutdown_env)
    return _ENV


def _shutdown_env():
    global _ENV
    if _ENV is not None:
        _ENV.shutdown()
        _ENV = None


# ------------------------------------------------------------------------------------------------
# oracle
# ------------------------------------------------------------------------------------------------
REFUSALS = (403, 404, 405)


def parse_query(query, key_configured):
    """-> (expected kwargs, list of presented $key values)"""
    params = urllib.parse.parse_qs(query)
    keys = params.get("$key", [])
    kw = {k: (v[0] if len(v) == 1 else v) for k, v in params.items()}
    if key_configured:
        kw.pop("$key", None)
    return kw, keys


def key_verdict(case, presented_params):
    """'ok' | 'bad' | 'either'"""
    cfg = case["gateway_key"]
    if not cfg:
        return "ok"
    right = cfg.decode("utf-8")
    hdr = case.get("hdr_key")
    if hdr is None:
        h = "absent"
    elif hdr == "":
        h = "empty"
    else:
        h = "right" if hdr == right else "wrong"
    if not presented_params:
        p = "absent"
    elif all(x == right for x in presented_params):
        p = "right" if len(presented_params) == 1 else "multi-right"
    elif any(x == right for x in presented_params):
        p = "mixed"
    else:
        p = "wrong"
    if h == "right":
        return "ok" if p in ("absent", "right") else "either"
    if h == "absent":
        return {"absent": "bad", "wrong": "bad", "right": "ok", "multi-right": "either", "mixed": "either"}[p]
    # wrong or empty header
    return "bad" if p in ("absent", "wrong") else "either"


def classify(case):
    """static analysis of the request: everything the oracle derives from the case alone"""
    p = case["path"].lstrip("/")
    c = {"p": p, "splits": [], "method_ok": case["method"] in ("GET", "POST")}
    if p == "":
        c["kind"] = "root"
    elif not p.startswith("pyro/"):
        c["kind"] = "foreign"
    else:
        rest = p[5:]
        if rest == "":
            c["kind"] = "index"
        else:
            c["splits"] = [(rest[:i], rest[i + 1:]) for i in range(1, len(rest) - 1) if rest[i] == "/"]
            if not c["splits"]:
                c["kind"] = "nosplit"
            elif rest.count("/") == 1:
                c["kind"] = "two"
            else:
                c["kind"] = "multi"
    return c


def expectation(case, query=None):
    """-> (verdict, reason): verdict in refuse | root | index | forward | either | multi"""
    c = classify(case)
    kw, keys = parse_query(case["query"] if query is None else query, bool(case["gateway_key"]))
    kv = key_verdict(case, keys)
    kind = c["kind"]
    if kind == "root":
        return "root", "path", c, kw, kv
    if kind in ("foreign", "nosplit"):
        return "refuse", "path", c, kw, kv
    if not c["method_ok"]:
        return "refuse", "method", c, kw, kv
    if kind == "index":
        return "index", None, c, kw, kv
    if kv == "bad":
        return "refuse", "key", c, kw, kv
    if kind == "multi" and "\n" not in c["p"] and "/" not in c["splits"][-1][1]:
        # several slashes: a member (a Python attribute name) can never contain a slash while a Pyro object name can, so the only
        # split that can name a member at all is the one at the LAST slash: that is THE (object, member) of this request
        c["splits"] = [c["splits"][-1]]
        c["canonical"] = True
        kind = "two"
    matching = [s for s in c["splits"] if literal_match(case["ns_regex"], s[0])]
    if not matching:
        return "refuse", "pattern", c, kw, kv
    c["matching"] = matching
    if kind == "multi":
        return "multi", None, c, kw, kv
    return ("forward" if kv == "ok" else "either"), None, c, kw, kv


def _short(x, n=160):
    s = repr(x)
    return s if len(s) <= n else s[:n] + "..."


def _json_body(body):
    try:
        return True, json.loads(body.decode("utf-8"))
    except Exception:
        return False, None


def _is_error_json(body):
    ok, j = _json_body(body or b"")
    return ok and isinstance(j, dict) and bool(j.get("__exception__")) and isinstance(j.get("__class__"), str), j


def faithful(case, obs, facts, obj, member, kw, newline=False):
    """violations of the forwarding half for the split (obj, member); [] when the observation is a faithful forwarding"""
    out = []
    internal = member.startswith("_")
    newline = newline or "\n" in member

    def bad(sig, what):
        if newline:
            sig = "C20:member:truncated-at-newline"
        elif internal:
            sig = "C20:member:resolved-on-gateway-proxy"
        out.append(Violation(sig, what))

    opts = (case.get("options") or "").split(",")
    oneway = "oneway" in opts
    code, body, log = obs["code"], obs["body"], obs["log"]
    target = facts["names"].get(obj)
    desc = "%s %r?%s (key=%r pattern=%r options=%r)" % (case["method"], case["path"], _short(obs["query"], 80), case["gateway_key"], case["ns_regex"], case.get("options"))
    obj_traffic = [t for t in obs["traffic"] if t[0] == "obj"]

    def expect_log(entries):
        if log == entries:
            return
        if len(log) > len(entries) and all(e in entries for e in log) and entries:
            return bad("C20:forward:executed-more-than-once", "%s: executed %d times: %s" % (desc, len(log), _short(log)))
        if not entries:
            return bad("C20:forward:unexpected-execution", "%s: nothing may execute, but %s ran" % (desc, _short(log)))
        if not log:
            return bad("C20:forward:not-executed", "%s: %s never ran" % (desc, _short(entries[0])))
        if len(log) != len(entries):
            return bad("C20:forward:executed-more-than-once", "%s: executed %s, expected %s" % (desc, _short(log), _short(entries)))
        (gl, gm, gk), (el, em, ek) = log[0], entries[0]
        if gl != el:
            return bad("C20:forward:wrong-object", "%s: ran on %r instead of %r" % (desc, gl, el))
        if gm != em:
            return bad("C20:forward:wrong-member", "%s: ran %r instead of %r" % (desc, gm, em))
        if case["gateway_key"] and "$key" in gk:
            return bad("C20:forward:key-parameter-forwarded", "%s: the $key parameter reached the object: kwargs %s" % (desc, _short(gk)))
        if any(isinstance(v, list) and k in gk and not isinstance(gk[k], list) for k, v in ek.items()):
            return bad("C20:forward:multi-value-collapsed", "%s: kwargs %s, expected %s" % (desc, _short(gk), _short(ek)))
        return bad("C20:forward:wrong-kwargs", "%s: kwargs %s, expected %s" % (desc, _short(gk), _short(ek)))

    def expect_error(cls_suffix=None, arg0=None):
        if code != 500:
            return bad("C20:forward:wrong-status", "%s: status %r, expected 500 with the error (body %s)" % (desc, obs["status"], _short(body, 100)))
        ok, j = _is_error_json(body)
        if not ok:
            return bad("C20:forward:wrong-body", "%s: 500 body is not a JSON error description: %s" % (desc, _short(body, 100)))
        if cls_suffix and not j["__class__"].endswith(cls_suffix):
            return bad("C20:forward:wrong-body", "%s: error class %r, expected %s" % (desc, j["__class__"], cls_suffix))
        if arg0 is not None and (not j.get("args") or j["args"][0] != arg0):
            return bad("C20:forward:wrong-body", "%s: error args %s, expected %r" % (desc, _short(j.get("args")), arg0))

    def expect_value(value):
        if code != 200:
            return bad("C20:forward:wrong-status", "%s: status %r, expected 200 (body %s)" % (desc, obs["status"], _short(body, 100)))
        ok, j = _json_body(body)
        if not ok or j != json.loads(json.dumps(value)):
            return bad("C20:forward:wrong-body", "%s: body %s, expected JSON of %s" % (desc, _short(body, 120), _short(value, 120)))

    def expect_empty_200():
        if code != 200:
            return bad("C20:forward:wrong-status", "%s: status %r, expected 200 for a oneway call" % (desc, obs["status"]))
        if body != b"":
            return bad("C20:oneway:body-returned", "%s: oneway call answered with a body: %s" % (desc, _short(body, 100)))

    def expect_meta(name):
        methods, attrs = facts["meta"][name]
        if code != 200:
            return bad("C20:forward:wrong-status", "%s: status %r for $meta" % (desc, obs["status"]))
        ok, j = _json_body(body)
        if not ok or not isinstance(j, dict) or set(j) != {"methods", "attributes"} or \
                sorted(j["methods"]) != sorted(methods) or sorted(j["attributes"]) != sorted(attrs):
            return bad("C20:meta:wrong-body", "%s: $meta body %s, real members %s / %s" % (desc, _short(body, 150), sorted(methods), sorted(attrs)))

    if obs["exc"] is not None and not (member == "drop" and target not in (None, "NS") and any(e[1] == "drop" for e in log)):
        return out      # reported by the caller
    if target is None:
        expect_error()
        expect_log([])
        if obj_traffic:
            bad("C20:forward:other-object-contacted", "%s: name is not registered but the object daemon received %s" % (desc, _short(obj_traffic)))
        return out
    if target == "NS":
        expect_log([])
        if obj_traffic:
            bad("C20:forward:other-object-contacted", "%s: call on the name server but the object daemon received %s" % (desc, _short(obj_traffic)))
        if member == "$meta":
            expect_meta(NS_NAME)
        elif member not in facts["meta"][NS_NAME][0]:
            expect_error()
        elif oneway:
            expect_empty_200()
        elif member == "count" and not kw:
            expect_value(facts["count"])
        elif member == "ping" and not kw:
            expect_value(None)
        elif member == "lookup" and set(kw) == {"name"} and isinstance(kw["name"], str):
            if kw["name"] in facts["uris"]:
                if code != 200:
                    bad("C20:forward:wrong-status", "%s: status %r for lookup of a registered name" % (desc, obs["status"]))
                else:
                    ok, j = _json_body(body)
                    u = facts["uris"][kw["name"]]     # "PYRO:<id>@127.0.0.1:<port>"
                    oid, _, loc = u[5:].rpartition("@")
                    host, _, port = loc.rpartition(":")
                    if not ok or not isinstance(j, dict) or j.get("state") != ["PYRO", oid, None, host, int(port)]:
                        bad("C20:forward:wrong-body", "%s: lookup body %s, expected state of %s" % (desc, _short(body, 120), u))
            else:
                expect_error("NamingError")
        else:
            if code not in (200, 500):
                bad("C20:forward:wrong-status", "%s: status %r" % (desc, obs["status"]))
        return out
    # one of the test objects
    label = target
    want_id = facts["objids"][obj]
    strangers = [t for t in obj_traffic if t[2] != want_id]
    if strangers:
        bad("C20:forward:other-object-contacted", "%s: the named object has id %r but the object daemon received %s" % (desc, want_id, _short(strangers)))
    if member == "$meta":
        expect_meta(obj)
        expect_log([])
    elif member == "drop":
        # the connection to the object is lost after the method ran (a fault outside the statement's quantifier): what the HTTP client
        # is told is not judged, only that the one request invoked the method exactly once
        expect_log([(label, "drop", dict(kw))])
    elif member in MODEL:
        try:
            outcome = ("value", MODEL[member](label, **kw))
        except TypeError:
            outcome = ("bind-error", None)
        except ValueError as x:
            outcome = ("raises", str(x))
        logged_kw = dict(kw)
        entries = [] if outcome[0] == "bind-error" else [(label, member, logged_kw)]
        if oneway or member == "fire_ow":
            expect_empty_200()
            expect_log(entries)
        elif outcome[0] == "value":
            expect_value(outcome[1])
            expect_log(entries)
        elif outcome[0] == "raises":
            expect_error("ValueError", outcome[1])
            expect_log(entries)
        else:
            expect_error("TypeError")
            expect_log(entries)
    elif member == "prop":
        entry = (label, "prop", {})
        if kw:
            # an attribute read with query parameters is not described by the statement: refuse-with-error or read it
            if any(e != entry for e in log) or len(log) > 1:
                bad("C20:forward:unexpected-execution", "%s: %s ran" % (desc, _short(log)))
            elif code not in (200, 500):
                bad("C20:forward:wrong-status", "%s: status %r" % (desc, obs["status"]))
        elif oneway:
            expect_empty_200()
            expect_log([entry])
        else:
            expect_value(_prop_value(label))
            expect_log([entry])
    else:
        expect_error()
        expect_log([])
    return out


def judge(case, obs, facts):
    out = []
    verdict, reason, c, kw, kv = expectation(case, obs["query"])
    code = obs["code"]
    desc = "%s %r?%s hdr=%r (key=%r pattern=%r)" % (case["method"], case["path"], _short(obs["query"], 80), case.get("hdr_key"),
                                                   case["gateway_key"], case["ns_regex"])
    silent = not obs["traffic"] and not obs["handshakes"] and not obs["log"]

    # (an exception out of pyro_app AFTER the method ran is the lost connection; before that it is something else)
    lost_connection_member = verdict in ("forward", "either") and c["splits"][0][1] == "drop" and any(e[1] == "drop" for e in obs["log"])
    if obs["exc"] is not None and not lost_connection_member:
        params = urllib.parse.parse_qs(obs["query"])
        if case["gateway_key"] and len(params.get("$key", [])) > 1 and not case.get("hdr_key"):
            out.append(Violation("C20:key:repeated-parameter-unhandled-exception",
                                 "%s: pyro_app raised %s instead of answering" % (desc, obs["exc"])))
        else:
            out.append(Violation("C20:unhandled-exception", "%s: pyro_app raised %s" % (desc, obs["exc"])))

    def demand_refusal(reason, allowed):
        if obs["traffic"] or obs["handshakes"]:
            out.append(Violation("C20:traffic-despite:" + reason, "%s: must be refused (%s) without Pyro traffic, but the daemons saw %s (+%d handshakes), status %r"
                                 % (desc, reason, _short(obs["traffic"]), obs["handshakes"], obs["status"])))
        if obs["log"]:
            out.append(Violation("C20:executed-despite:" + reason, "%s: must be refused (%s) but %s ran" % (desc, reason, _short(obs["log"]))))
        if obs["exc"] is None and code not in allowed:
            out.append(Violation("C20:refusal-status:" + reason, "%s: must be refused (%s) with one of %s, got %r" % (desc, reason, sorted(allowed), obs["status"])))

    if verdict == "root":
        demand_refusal("path", {302, 403, 404, 405} | ({200} if case["method"] == "OPTIONS" else set()))
    elif verdict == "refuse":
        demand_refusal(reason, set(REFUSALS) | ({200} if case["method"] == "OPTIONS" else set()))
    elif verdict == "index":
        if obs["exc"] is None:
            if obs["log"]:
                out.append(Violation("C20:index:executes", "%s: the index page executed %s" % (desc, _short(obs["log"]))))
            if code == 200:
                listed = _index_names(obs["body"])
                want = sorted(n for n in facts["names"] if literal_match(case["ns_regex"], n))
                if listed is None or sorted(listed) != want:
                    out.append(Violation("C20:index:listing", "%s: index page lists %s, names matching the pattern are %s" % (desc, _short(listed), want)))
            elif not (code == 403 and silent):
                out.append(Violation("C20:index:status", "%s: index page answered %r" % (desc, obs["status"])))
    elif verdict in ("forward", "either"):
        obj, member = c["splits"][0]
        if obs["exc"] is None or lost_connection_member:
            if code in REFUSALS and silent and obs["exc"] is None:
                if verdict == "forward":
                    out.append(Violation("C20:authorised-refused", "%s: authorised call request refused with %r" % (desc, obs["status"])))
            else:
                out.extend(faithful(case, obs, facts, obj, member, kw))
    elif verdict == "multi":
        if obs["exc"] is None and not (code in REFUSALS and silent):
            results = [faithful(case, obs, facts, o, m, kw, newline="\n" in c["p"]) for o, m in c["matching"]]
            if all(results):
                out.extend(results[-1])
    return out


def _index_names(body):
    """names in the table of the index page (plain string search)"""
    try:
        s = body.decode("utf-8")
    except Exception:
        return None
    a = s.find("<table>")
    b = s.find("</table>")
    if a < 0 or b < a:
        return None
    table = s[a:b]
    names = []
    mark = "onclick=\"pyro_call('"
    end = "','$meta');"
    i = 0
    while True:
        i = table.find(mark, i)
        if i < 0:
            break
        j = table.find("'", i + len(mark))
        if table[j:j + len(end)] == end:
            names.append(table[i + len(mark):j])
        i = i + len(mark)
    return names


def run_case(case):
    env = _env(case.get("ns_storage"))
    out = []
    for i, pre in enumerate(case.get("prelude") or []):
        # earlier requests of the same gateway process (each judged on its own as well)
        pre = {k: v for k, v in pre.items() if k != "prelude"}
        for v in judge(pre, env.perform(pre), env.facts):
            out.append(Violation(v.signature, "[request %d of the case's prelude] %s" % (i, v.what)))
    facts = env.facts
    swap = case.get("swap")
    if swap and all(n in OBJECT_NAMES for n in swap):
        a, b = swap
        env.nsd.nameserver.register(a, env.uris[b])
        env.nsd.nameserver.register(b, env.uris[a])
        facts = dict(facts, names=dict(facts["names"], **{a: facts["names"][b], b: facts["names"][a]}),
                     objids=dict(facts["objids"], **{a: facts["objids"][b], b: facts["objids"][a]}))
    try:
        obs = env.perform(case)
    finally:
        if swap and all(n in OBJECT_NAMES for n in swap):
            env.nsd.nameserver.register(swap[0], env.uris[swap[0]])
            env.nsd.nameserver.register(swap[1], env.uris[swap[1]])
    for v in judge(case, obs, facts):
        if case.get("prelude") and not v.signature.startswith("C20:member:") and not v.signature.startswith("C20:key:"):
            out.append(Violation(v.signature.replace("C20:", "C20:after-earlier-request:", 1), "[after %d earlier request(s): %s] %s" % (
                len(case["prelude"]), "; ".join("%s %s opts=%r" % (p_["method"], p_["path"], p_.get("options")) for p_ in case["prelude"]), v.what)))
        else:
            out.append(v)
    return out


# ------------------------------------------------------------------------------------------------
# generators
# ------------------------------------------------------------------------------------------------
REGISTERED = OBJECT_NAMES + [NS_NAME]
NEAR_OBJECTS = ["http.calc3", "http.cal", "Http.calc", "HTTP.CALC", "http.calcx", "xhttp.calc2", "yhttp.calc", "xxhttp.calc", "http.",
                "http,calc", "httpxcalc", "other.obj2", "other", "other.ob", "xother.obj", "Other.obj", "Pyro.NameServerx", "pyro.nameserver",
                "Pyro", "Pyro.", "xPyro.NameServer", "nope", "é", "http.calcé", "http.calc ", " http.calc", "http.dir", "leaf",
                ".", "$meta", "http.CALC", "http.calc.http.calc", "other.obj.http.calc", "httq.calc"]
OBJ_POOL = REGISTERED * 4 + NEAR_OBJECTS
HAPPY_OBJ_POOL = OBJECT_NAMES * 3 + [NS_NAME, "http.nope", "other.obj2", "http.calc3"]
REAL_MEMBERS = ["echo", "add", "boom", "fire", "fire_ow", "prop", "$meta", "drop"]
NS_MEMBERS = ["count", "lookup", "ping", "list"]
NEAR_MEMBERS = ["Echo", "echox", "ech", "xecho", "ECHO", "$Meta", "$meta2", "$met", "prop2", "Prop", "pro", "adds", "ad", "hidden", "echo ",
                "écho", "nope", "fire_o", "coun", "Lookup"]
INTERNAL_MEMBERS = ["_x", "__x__", "_secret", "__class__", "__init__", "_pyroRelease", "__getattr__", "__dict__", "_pyroBind", "__setattr__"]
NEWLINE_MEMBERS = ["echo\nfoo", "prop\n", "nope\necho"]
MEMBER_POOL = REAL_MEMBERS * 5 + ["echo"] * 6 + NS_MEMBERS + NEAR_MEMBERS + INTERNAL_MEMBERS + NEWLINE_MEMBERS
HAPPY_MEMBER_POOL = REAL_MEMBERS * 3 + ["echo"] * 8 + ["add"] * 3 + NS_MEMBERS + ["nope", "Echo", "hidden"] + INTERNAL_MEMBERS + NEWLINE_MEMBERS[:1]
HAPPY_PATTERN_POOL = [PATTERNS[0]] * 5 + [PATTERNS[3]] * 3 + [PATTERNS[2]] * 2 + [PATTERNS[1], PATTERNS[4]]

METHODS = ["GET"] * 8 + ["POST"] * 6 + ["OPTIONS", "PUT", "PUT", "DELETE", "HEAD", "PATCH", "get", "post", "Get", "GETX", "", "TRACE", " GET", "POST "]
SHAPES = ["two"] * 12 + ["multi"] * 4 + ["nosplit"] * 2 + ["special"] * 2 + ["foreign"] * 3
FOREIGN_ROOTS = ["other", "pyrox", "Pyro", "PYRO", "xpyro", "pyr", "pyro.", "py/ro", " pyro", "pyro /", "p"]
SPECIALS = ["", "pyro", "pyro/", "pyro/", "pyro//", "/"]
LEADS = ["/", "/", "/", "/", "", "//", "///"]
EXTRA = ["extra", "echo", "x", "$meta", "http.calc", "a/b"]

Q_KEYS = ["a", "a", "a", "b", "b", "x", "name", "msg", "$key2", "key", "$Key", "é", "k-1", "", "a b", "uri", "tries", "value"]
Q_VALUES = ["1", "2", "", "x y", "a+b", "a&b=c", "=", "é", "漢字", "%", "100%", "\x00", "http.calc", "PYRO:o.other.obj@OBJLOC",
            "0", "true", "null", "[1]", "\"q\"", "secret", "http.calc2", " ", "x" * 40]
GATEWAY_KEYS = [None, None, None, b"", b"secret", b"secret", b"secret", b"secret", b"sec", b"secretx"]
PATTERN_POOL = [PATTERNS[0]] * 4 + [PATTERNS[1]] * 2 + [PATTERNS[2]] * 2 + [PATTERNS[3]] * 2 + [PATTERNS[4]]
UUIDS = ["11112222-1111-2222-3333-222244449999", "00000000-0000-0000-0000-000000000000", "{12345678-1234-5678-1234-567812345678}"]


def wrong_keys(right):
    cands = [right[:-1], right + "x", "x" + right, right.upper(), right + right, right[1:], " " + right, right + " ", "wrong", "sec", "secret",
             "secretx", "s", right + "\x00"]
    return [k for k in cands if k != right and k != ""]


def enc_component(s, style):
    if style == 0:
        return urllib.parse.quote_plus(s)
    if style == 1:
        return urllib.parse.quote(s, safe="")
    if style == 2:
        return urllib.parse.quote_plus(s, safe="$:@/")
    if style == 3:
        return "".join("%%%02X" % b for b in s.encode("utf-8"))
    return urllib.parse.quote_plus(s, safe="$", encoding="utf-8").replace("%C3%A9", "é")   # raw non-ascii left in place


def build_query(pairs, style):
    parts = []
    for k, v in pairs:
        if v is None:
            parts.append(enc_component(k, style))       # key without '='
        else:
            parts.append(enc_component(k, style) + "=" + enc_component(v, style))
    return "&".join(parts)


def build_path(shape, lead, obj, member, extra, root, special, variant):
    if shape == "two":
        p = "pyro/%s/%s" % (obj, member)
    elif shape == "multi":
        p = ["pyro/%s/%s/%s" % (obj, member, extra), "pyro/%s/%s/" % (obj, member), "pyro/%s//%s" % (obj, member),
             "pyro/%s/%s/%s" % (extra, obj, member), "pyro/%s/%s/%s/%s" % (obj, member, extra, extra), "pyro//%s/%s" % (obj, member)][variant % 6]
    elif shape == "nosplit":
        p = ["pyro/%s" % obj, "pyro/%s/" % obj, "pyro//%s" % member, "pyro/%s" % member][variant % 4]
    elif shape == "special":
        p = special
    else:
        p = "%s/%s/%s" % (root, obj, member)
    return lead + p


@st.composite
def case_strategy(draw):
    happy = draw(st.integers(0, 9)) < 4
    gk = draw(st.sampled_from(GATEWAY_KEYS))
    right = gk.decode() if gk else "secret"
    if happy:
        method = draw(st.sampled_from(["GET", "GET", "POST"]))
        shape = "two"
        obj = draw(st.sampled_from(HAPPY_OBJ_POOL))
        member = draw(st.sampled_from(NS_MEMBERS + ["$meta", "nope"] if obj == NS_NAME else HAPPY_MEMBER_POOL))
        hstate, pstate = draw(st.sampled_from([("right", "absent"), ("absent", "right"), ("right", "right"), ("right", "absent"),
                                               ("absent", "right"), ("right", "wrong"), ("wrong", "right")]))
        lead = "/"
    else:
        method = draw(st.sampled_from(METHODS))
        shape = draw(st.sampled_from(SHAPES))
        obj = draw(st.sampled_from(OBJ_POOL))
        member = draw(st.sampled_from(MEMBER_POOL))
        hstate = draw(st.sampled_from(["absent", "absent", "absent", "right", "right", "wrong", "wrong", "empty"]))
        pstate = draw(st.sampled_from(["absent", "absent", "absent", "right", "right", "wrong", "wrong", "multi-right", "multi-mixed", "multi-wrong"]))
        lead = draw(st.sampled_from(LEADS))
    variant = draw(st.integers(0, 11))
    path = build_path(shape, lead, obj, member, EXTRA[variant % len(EXTRA)], FOREIGN_ROOTS[variant % len(FOREIGN_ROOTS)],
                      SPECIALS[variant % len(SPECIALS)], variant)
    pairs = draw(st.lists(st.tuples(st.sampled_from(Q_KEYS), st.sampled_from(Q_VALUES)), min_size=0, max_size=4))
    if obj == NS_NAME and member == "lookup" and draw(st.booleans()):
        pairs = [("name", draw(st.sampled_from(REGISTERED + ["http.nope"])))]
    if member == "add" and draw(st.booleans()):
        pairs = [p for p in pairs if p[0] in ("a", "b")] or [("a", "1")]
    if member == "prop" and draw(st.booleans()):
        pairs = []
    wrongs = wrong_keys(right)
    wsel = draw(st.integers(0, len(wrongs) - 1))
    wrong = wrongs[wsel]
    keypairs = {"absent": [], "right": [right], "wrong": [wrong], "multi-right": [right, right], "multi-mixed": [wrong, right],
                "multi-wrong": [wrong, wrongs[(wsel + 1) % len(wrongs)]]}[pstate]
    pos = draw(st.integers(0, 4))
    for kval in keypairs:
        pairs.insert(min(pos, len(pairs)), ("$key", kval))
    style = draw(st.integers(0, 4))
    query = build_query(pairs, style)
    hdr = {"absent": None, "right": right, "wrong": wrong, "empty": ""}[hstate]
    case = {
        "method": method, "path": path, "query": query, "hdr_key": hdr,
        "options": draw(st.sampled_from([None, None, None, None, "oneway", "oneway", "x,oneway", "Oneway", ""])),
        "corr": draw(st.sampled_from([None, None, None] + UUIDS)),
        "gateway_key": gk, "ns_regex": draw(st.sampled_from(HAPPY_PATTERN_POOL if happy else PATTERN_POOL)),
    }
    pre = draw(st.integers(0, 9))
    if happy and pre < 4:
        # the gateway is stateless: what an EARLIER request did (same object, other options / member / query) must not matter
        other = dict(case)
        if pre == 0:
            other["options"] = None if case["options"] == "oneway" else "oneway"
        elif pre == 1:
            other["path"] = build_path("two", "/", obj, draw(st.sampled_from(REAL_MEMBERS)), "", "", "", variant)
            other["options"] = draw(st.sampled_from([None, "oneway"]))
        elif pre == 2:
            other["query"] = build_query([("a", "9"), ("$key", right)], 0)
            other["options"] = "oneway"
        else:
            other["hdr_key"], other["query"] = wrong, "a=1"
        case["prelude"] = [other]
        if obj in OBJECT_NAMES and draw(st.integers(0, 1)) == 0:
            # between the earlier request and this one the name is registered anew - for the object that another name had (and the other
            # way round): "the named object" is whatever the name server says NOW
            case["swap"] = [obj, draw(st.sampled_from([n for n in OBJECT_NAMES if n != obj]))]
    return case


# deterministic sweep: the authorisation cross product
SWEEP_METHODS = ["GET", "POST", "OPTIONS", "PUT", "DELETE", "HEAD", "PATCH", "get", ""]
SWEEP_PATHS = ["/pyro/http.calc/echo", "/pyro/xhttp.calc/echo", "/pyro/http.Calc/echo", "/pyro/other.obj/echo", "/pyro/http.calc2/add",
               "/pyro/Pyro.NameServer/count", "/pyro/http/echo", "/pyro/http.calc", "/pyro/http.calc/echo/extra", "/pyrox/http.calc/echo",
               "/pyro", "", "/pyro/http.dir/leaf/echo", "/pyro/http.nope/echo", "/pyro/http.calc/fire", "/pyro/"]
SWEEP_KEYS = [None, b"", b"secret"]
SWEEP_HDR = [None, "secret", "secre", "secretx"]
SWEEP_PAR = [None, "secret", "ecret"]


def sweep_cases(index, count):
    n = 0
    for gk in SWEEP_KEYS:
        for regex in PATTERNS:
            for path in SWEEP_PATHS:
                for method in SWEEP_METHODS:
                    for hdr in SWEEP_HDR:
                        for par in SWEEP_PAR:
                            n += 1
                            if n % count != index:
                                continue
                            q = "a=1&b=2&b=3" if not path.endswith("/add") and not path.endswith("/count") else ("a=1" if path.endswith("/add") else "")
                            if par is not None:
                                q = (q + "&" if q else "") + "$key=" + par
                            yield {"method": method, "path": path, "query": q, "hdr_key": hdr,
                                   "options": "oneway" if (n // 7) % 5 == 0 else None, "corr": None, "gateway_key": gk, "ns_regex": regex}


# ------------------------------------------------------------------------------------------------
# bookkeeping
# ------------------------------------------------------------------------------------------------
_LOWER_REG = set(n.lower() for n in REGISTERED)
_ALL_MEMBERS = REAL_MEMBERS + NS_MEMBERS
_LOWER_MEM = set(m.lower() for m in _ALL_MEMBERS)


def _near(name, exact, lower):
    if name in exact or not name:
        return False
    if name.lower() in lower:
        return True
    return any(name.startswith(r) or r.startswith(name) or name.endswith(r) or r.endswith(name) for r in exact)


def _multi_valued(case):
    return any(len(v) > 1 for v in urllib.parse.parse_qs(case["query"]).values())


def _nontrivial(case):
    if case["gateway_key"]:
        return True
    c = classify(case)
    for o, m in c["splits"]:
        if _near(o, REGISTERED, _LOWER_REG) or _near(m, _ALL_MEMBERS, _LOWER_MEM):
            return True
    return _multi_valued(case)


def _labels(case):
    verdict, reason, c, kw, kv = expectation(case)
    l = ["kind:" + c["kind"], "expect:" + verdict + (":" + reason if reason else ""), "method:" + (case["method"] if case["method"] in ("GET", "POST", "OPTIONS") else "other"),
         "keycfg:" + ("yes" if case["gateway_key"] else "no"), "keyverdict:" + kv, "pattern:" + (case["ns_regex"] or "<empty>")]
    if verdict in ("forward", "either", "multi"):
        o, m = c["splits"][-1] if verdict == "multi" else c["splits"][0]
        l.append("target:" + ("registered" if o in REGISTERED else "unregistered"))
        l.append("member:" + ("$meta" if m == "$meta" else "method" if m in MODEL or m in NS_MEMBERS else "property" if m == "prop"
                              else "internal" if m.startswith("_") else "unknown"))
        if "oneway" in (case.get("options") or "").split(","):
            l.append("oneway")
    if _multi_valued(case):
        l.append("query:multi-valued")
    if case.get("prelude"):
        l.append("history:earlier-request-same-process")
        if case.get("swap"):
            l.append("history:name-re-registered-for-another-object-in-between")
    if any(_near(o, REGISTERED, _LOWER_REG) for o, m in c["splits"]):
        l.append("near-miss:object")
    return l


def SHARDS(tier):
    return [{"ns_storage": "sql" if i % 4 == 3 else None} for i in range(16)]


def run(ctx):
    import faulthandler
    idx, cnt = ctx.shard.get("index", 0), ctx.shard.get("count", 1)
    # diagnostic only (never a verdict): if a shard is still running long after its budget, show where every thread is
    faulthandler.dump_traceback_later(BUDGET_S[ctx.tier] + 90, exit=False)
    storage = ctx.shard.get("ns_storage")
    _env(storage)
    tagcase = (lambda c: dict(c, ns_storage=storage)) if storage else (lambda c: c)
    extra = ["ns:sqlite"] if storage else []
    try:
        n = 0
        for case in sweep_cases(idx, cnt):
            case = tagcase(case)
            ctx.observe(case, run_case(case), _nontrivial(case), _labels(case) + ["sweep"] + extra)
            n += 1
        if storage:
            # the index page against every pattern (the listing is computed by the name server's back-end)
            for regex in PATTERNS:
                for gk, hdr in ((None, None), (b"secret", None), (b"secret", "secret")):
                    case = tagcase({"method": "GET", "path": "/pyro/", "query": "", "hdr_key": hdr, "options": None, "corr": None, "gateway_key": gk, "ns_regex": regex})
                    ctx.observe(case, run_case(case), True, ["index-sweep"] + extra)
        ctx.notes["sweep_cases"] = n
        ctx.search(case_strategy().map(tagcase), run_case, ctx.n(1200, 30000), nontrivial=_nontrivial, labels=lambda c: _labels(c) + extra, name="gateway", max_rounds=10)
    finally:
        _shutdown_env()
        faulthandler.cancel_dump_traceback_later()
