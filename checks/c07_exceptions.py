"""C07 - remote exceptions arrive as the same exception with the same content.

Domain : exception class in {every Exception subclass of builtins} u {every PyroError subclass of Pyro5.errors}; constructor
         arguments from the serializers' lossless core, shaped per class (the constructor is tried locally first: a shape the
         class itself rejects is outside the domain and counted as skipped); custom attributes {"x_<ident>": core value} and
         __notes__; PLUS the "cannot be serialised" family: attribute/argument values no serializer can carry (open socket,
         lambda, object()), exception classes the receiver does not know (classes of this module, also with raising
         __str__/__repr__/__reduce__), exception content outside the lossless core (bytes of UnicodeDecodeError under
         serpent/json, the sub-exceptions of ExceptionGroup);  x serializer (serpent/json/marshal/msgpack)  x call kind (plain
         call, attribute get, attribute set, batch member first/middle/last, streamed item)  x server type (thread/multiplex).
         The five BaseException-only classes are exercised at serializer level only (loads(dumps(x)), no network).
Exec   : one vlib.live.Served per shard; the exception is BUILT ON THE SERVER from a plain-data spec, only data crosses the
         wire; the client uses the public proxy API (vlib.live.proxy, Pyro5.api.BatchProxy), one fresh proxy per case.
Oracle : transportable => the client call raises x with type(x) is exactly the class of a LOCAL instance built from the same
         spec, same(x.args), vars(x) minus _pyroTraceback same as the local instance's vars, _pyroTraceback a non-empty list of
         str naming the raising function and the class.  Not serialisable => the client raises a PyroError whose text names the
         original type (and, when the server could see it, its message) - or the original class itself with equal args when a
         serializer degrades the offending attribute instead of failing; never a return value, never a hang (20 s proxy
         timeout as hang guard only); the next ping() on the same proxy succeeds.
"""
import atexit
import builtins
import socket
import sys
import threading
import traceback

from hypothesis import strategies as st

from vlib import values as V
from vlib import live
from vlib.driver import Violation

PROPERTY = "C07"
LEVEL = "exploration"
RULE = ("a case = (server type, serializer, call kind in call|getattr|setattr|batch-first|batch-middle|batch-last|stream, "
        "k = number of good results before the failing one, exception spec {namespace, class, args, attributes, special}). "
        "Enumeration: every class x every call kind with a canonical argument list, the special shapes of each special "
        "class, the whole 'cannot be serialised' matrix, serializer-level round trip of every class incl. the five "
        "BaseException-only ones; Hypothesis: class x per-class argument shapes from the lossless core x attributes x kind. "
        "Non-trivial: the spec has >= 1 argument or attribute and the class accepted it; distinct = distinct case JSON "
        "(class, argument values/shape, serializer, kind, server type)")
ASSUMPTIONS = ["'equal custom attributes' means the instance __dict__ (minus _pyroTraceback); slots of builtin classes that are not "
               "derived from args (OSError.filename from a 3rd argument, ImportError.name, AttributeError.obj ...) are not demanded",
               "a spec whose class cannot be rebuilt from its own args by plain Python (type(x)(*x.args) differs from x) is outside the domain",
               "StopIteration raised inside a server-side generator is turned into RuntimeError by Python itself (PEP 479) before "
               "the library sees it: kind=stream x StopIteration is outside the domain",
               "for an exception class unknown to the receiver only the class name is demanded in the Pyro error text "
               "(the message never reaches the client-side error; reported as an observation, not as a violation)",
               "the proxy timeout of 20 s is a hang guard: a locally raised timeout is reported as 'no reply'",
               "UnicodeEncode/Decode/TranslateError objects whose start/end lie outside their object are outside the domain: str() of such "
               "an object raises SystemError in CPython 3.12.1 and leaves a stray IndexError pending (interpreter bug, not Pyro's)",
               "exception objects that traceback.format_exception itself cannot format (SyntaxError family with wrongly typed details) are "
               "outside the domain (observed: the daemon then sends no reply at all, because format_traceback raises inside its except block)",
               "'the proxy remains usable' is demanded for the unserialisable clause only (the statement scopes it so): after a transportable "
               "SecurityError the server closes the connection by design and nothing is demanded of the next call",
               "when a serializer degrades an unserialisable attribute instead of failing (serpent/json turn a function into a class-name "
               "marker) the arrival of the ORIGINAL class with equal args and equal other attributes is accepted"]

SERIALIZERS = ["serpent", "json", "marshal", "msgpack"]
SERVERTYPES = ["thread", "multiplex"]
KINDS = ["call", "getattr", "setattr", "batch-first", "batch-middle", "batch-last", "stream", "reraise"]
FUNC_OF_KIND = {"reraise": "raise_second", "call": "raise_it", "getattr": "prop", "setattr": "prop", "batch-first": "raise_it", "batch-middle": "raise_it",
                "batch-last": "raise_it", "stream": "gen"}
COMM_ERRORS = ["CommunicationError", "ConnectionClosedError", "TimeoutError", "ProtocolError", "MessageTooLargeError"]
HANG_GUARD_S = 20.0


# ------------------------------------------------------------------------------------------------
# the class universe
# ------------------------------------------------------------------------------------------------

def _builtin_classes():
    exc, base_only = [], []
    for name in sorted(vars(builtins)):
        t = getattr(builtins, name)
        if isinstance(t, type) and issubclass(t, BaseException) and t.__name__ == name:   # IOError/EnvironmentError are aliases of OSError
            (exc if issubclass(t, Exception) else base_only).append(name)
    return exc, base_only


BUILTIN_EXC, BUILTIN_BASE_ONLY = _builtin_classes()


def _pyro_classes():
    import Pyro5.errors as E
    return sorted(n for n, t in vars(E).items() if isinstance(t, type) and issubclass(t, E.PyroError))


PYRO_EXC = _pyro_classes()
ALL_CLASSES = [("builtins", n) for n in BUILTIN_EXC] + [("pyro", n) for n in PYRO_EXC]


# classes the receiver does not know (they live in this module only)
class LocalError(Exception):
    pass


class BadStrError(Exception):
    def __str__(self):
        raise RuntimeError("str of BadStrError fails")


class BadReprError(Exception):
    def __repr__(self):
        raise RuntimeError("repr of BadReprError fails")


class BadReduceError(Exception):
    def __reduce__(self):
        raise RuntimeError("reduce of BadReduceError fails")

    def __reduce_ex__(self, proto):
        raise RuntimeError("reduce of BadReduceError fails")


# classes the receiver does not know although their module NAME is one it has special rules for: a project's own top-level
# exceptions.py, an error class of a newer Pyro5 / sqlite3 than the receiver's
ProjectQuotaError = type("ProjectQuotaError", (Exception,), {"__module__": "exceptions"})
FutureVersionError = type("FutureVersionError", (Exception,), {"__module__": "Pyro5.errors"})
FutureSqliteError = type("FutureSqliteError", (Exception,), {"__module__": "sqlite3"})

LOCAL_CLASSES = ["LocalError", "BadStrError", "BadReprError", "BadReduceError", "ProjectQuotaError", "FutureVersionError", "FutureSqliteError"]


def lookup_class(ns, name):
    if ns == "builtins":
        t = getattr(builtins, name)
    elif ns == "pyro":
        import Pyro5.errors as E
        t = getattr(E, name)
    elif ns == "local":
        if name not in LOCAL_CLASSES:
            raise KeyError(name)
        t = globals()[name]
    else:
        raise KeyError(ns)
    if not (isinstance(t, type) and issubclass(t, BaseException)):
        raise KeyError(name)
    return t


# objects created on the server side for the "cannot be serialised" family; closed/forgotten by run_case
_OPEN = []


class _SlotsUnset(object):
    __slots__ = ("never_assigned",)


def _unserialisable(kind):
    if kind == "socket":
        o = socket.socket(socket.AF_INET, socket.SOCK_STREAM)
        _OPEN.append(o)
        return o
    if kind == "lambda":
        return lambda: 1
    if kind == "object":
        return object()
    if kind == "surrogate":
        return "report-\udcff.csv"       # text with a lone surrogate (what os.fsdecode gives for an undecodable file name): not utf-8 encodable
    if kind == "slots-unset":
        return _SlotsUnset()        # serialising it fails with AttributeError (slot never assigned), not TypeError/ValueError
    raise KeyError(kind)


def _cleanup_objects():
    while _OPEN:
        try:
            _OPEN.pop().close()
        except Exception:
            pass


SPEC_ALTERED = "C07 harness precondition: the exception spec did not reach the server as the plain data that was sent"


def build_exception(spec):
    """spec (plain data) -> exception instance.  Used by the server-side target AND locally for the expectation."""
    if not (V.is_core(spec.get("args")) and V.is_core(spec.get("attrs"))):
        # the oracle compares against a LOCAL instance built from the same spec: that is only meaningful when the call
        # argument itself crossed the wire unchanged (C01's business, but cheap to notice here)
        raise RuntimeError("%s: %.200r" % (SPEC_ALTERED, spec))
    cls = lookup_class(spec["ns"], spec["cls"])
    sp = spec.get("special") or {}
    args = list(spec.get("args") or [])
    for i in sp.get("bytes_at", []):
        args[i] = bytes.fromhex(args[i])
    if "group" in sp:
        args = [args[0], [build_exception(s) for s in sp["group"]]]
    if "os_filename" in sp:
        # the three-argument form (errno, strerror, filename): args keeps the first two, the file name is an attribute of its own;
        # a file name need not be text (bytes paths, pathlib)
        import pathlib
        args = args[:2] + [{"bytes": b"/var/tmp/no such \xff file", "path": pathlib.PurePosixPath("/var/tmp/no such file")}[sp["os_filename"]]]
    x = cls(*args, **(sp.get("kw") or {}))
    for k in sorted(spec.get("attrs") or {}):
        setattr(x, k, spec["attrs"][k])
    for n in sp.get("notes", []):
        x.add_note(n)
    if "unser" in sp:
        o = _unserialisable(sp["unser"])
        if sp.get("where") == "arg":
            x.args = x.args + (o,)
        elif sp.get("where") == "message":
            x.args = ("cannot open " + o,)         # the offending text IS the message (sole argument)
        else:
            x.x_bad = o
    return x


# ------------------------------------------------------------------------------------------------
# server side target
# ------------------------------------------------------------------------------------------------
_target_cls = None
RAISER = "innermost_raiser_fn"


def innermost_raiser_fn(x):
    raise x


def descend_then_raise(x, depth):
    """the failure happens `depth` frames below the exposed member (recursive walks, layered frameworks): the remote traceback
    has to show where the exception was raised all the same"""
    if depth > 0:
        return descend_then_raise(x, depth - 1)
    return innermost_raiser_fn(x)


def _raise(spec):
    descend_then_raise(build_exception(spec), int(spec.get("depth", 0)))


def target_class():
    global _target_cls
    if _target_cls is None:
        from Pyro5.server import expose

        @expose
        class Target(object):
            def __init__(self):
                self.spec = None

            def ping(self):
                return "pong"

            def ok(self, v):
                return v

            def set_spec(self, spec):
                self.spec = spec
                return "stored"

            def raise_it(self, spec):
                _raise(spec)

            def raise_first(self, spec):
                self.kept = build_exception(spec)
                descend_then_raise(self.kept, int(spec.get("depth", 0)))

            def raise_second(self):
                # the very same exception OBJECT is raised once more, from another place (a stored failure reported again)
                raise self.kept

            @property
            def prop(self):
                _raise(self.spec)

            @prop.setter
            def prop(self, value):
                _raise(self.spec)

            def gen(self, spec, k):
                for i in range(k):
                    yield i
                _raise(spec)

        @expose
        class FallbackTarget(Target):
            """the same members on a class that also defines __getattr__ (a catch-all for unknown public names): an exception a member
            raises - AttributeError included - is still that member's exception, never the fallback's answer"""
            def __getattr__(self, name):
                if name.startswith("_"):
                    raise AttributeError("no such attribute (fallback): " + name)
                return None

        Target.with_fallback = FallbackTarget
        _target_cls = Target
    return _target_cls


_SERVED = {}
_atexit_done = False
OBJ_ID = "c07.target"
OBJ_ID_FALLBACK = "c07.target.with.getattr"


def stop_all():
    import os
    import shutil
    for s in list(_SERVED.values()):
        s.stop()
        path = getattr(s, "v_unix_path", None)
        if path:
            shutil.rmtree(os.path.dirname(path), ignore_errors=True)
    _SERVED.clear()


def served(servertype):
    global _atexit_done
    s = _SERVED.get(servertype)
    if s is None or not s.loop_alive():
        if s is not None:
            s.stop()
        live.quiet_logs()
        if servertype.endswith("-unix"):
            # the same daemon behind a Unix domain socket (the peer address of such a connection is not a (host, port) pair)
            path = live.unix_socket_path()
            s = live.Served(servertype[:-5], unixsocket=path)
            s.v_unix_path = path
        else:
            s = live.Served(servertype)
        s.daemon.register(target_class()(), OBJ_ID)
        s.daemon.register(target_class().with_fallback(), OBJ_ID_FALLBACK)
        s.v_connections = 0
        _SERVED[servertype] = s
        if not _atexit_done:
            atexit.register(stop_all)
            _atexit_done = True
    return s


def _settle(s):
    """wait until the daemon has cleaned up every connection this case made (so that cases do not pile up worker threads);
    waits on the disconnect hook's condition variable, the 30 s ceiling only guards against a hang and is no verdict"""
    d = s.daemon
    with d.v_lock:
        want = len(d.v_validated)
        rounds = 0
        while len(d.v_disconnects) < want and rounds < 30:
            d.v_disconnect_event.wait(1.0)
            rounds += 1
        if len(d.v_disconnects) >= want and want > 2000:
            del d.v_validated[:]
            del d.v_disconnects[:]


# ------------------------------------------------------------------------------------------------
# comparison helpers
# ------------------------------------------------------------------------------------------------

def qualname(t):
    return "%s.%s" % (t.__module__, t.__name__)


def norm(v):
    """exception instances inside args (ExceptionGroup) become comparable plain data"""
    if isinstance(v, BaseException):
        return {"$exc": qualname(type(v)), "args": norm(list(v.args)), "vars": norm({k: x for k, x in vars(v).items() if k != "_pyroTraceback"})}
    if type(v) is list:
        return [norm(x) for x in v]
    if type(v) is tuple:
        return tuple(norm(x) for x in v)
    if type(v) is dict:
        return {k: norm(x) for k, x in v.items()}
    return v


def has_nan(v):
    return any(type(x) is float and x != x for x in V.leaves(v))


def nan_marked(v):
    """what serpent's wire form of a nan looks like when nobody converts it back"""
    if type(v) is float and v != v:
        return {"__class__": "float", "value": "nan"}
    if type(v) is list:
        return [nan_marked(x) for x in v]
    if type(v) is tuple:
        return tuple(nan_marked(x) for x in v)
    if type(v) is dict:
        return {k: nan_marked(x) for k, x in v.items()}
    return v


def short(v, n=160):
    r = repr(v)
    return r if len(r) <= n else r[:n] + "..."


# ------------------------------------------------------------------------------------------------
# classification of a spec
# ------------------------------------------------------------------------------------------------

def family(case):
    spec = case["spec"]
    sp = spec.get("special") or {}
    if "unser" in sp:
        return "unserialisable-content"
    if spec["ns"] == "local":
        return "unknown-class"
    if "group" in sp:
        return "nonlossless-content"       # exception instances inside args: outside every serializer's lossless core
    if sp.get("bytes_at") and case["ser"] in ("serpent", "json"):
        return "nonlossless-content"       # bytes do not survive serpent (becomes a dict) / json (not serialisable)
    return "transportable"


def kindgroup(kind):
    return "batch" if kind.startswith("batch") else kind


def pathgroup(kind):
    return "batch" if kind.startswith("batch") else "direct"


# ------------------------------------------------------------------------------------------------
# executing one live case
# ------------------------------------------------------------------------------------------------

def _perform(p, case):
    """-> ('raised', exc, n_good) | ('returned', value, n_good) ; n_good = results obtained before the failure"""
    import Pyro5.api
    kind, spec, k = case["kind"], case["spec"], case.get("k", 0)
    good = 0
    it = None
    try:
        if kind == "call":
            return ("returned", p.raise_it(spec), 0)
        if kind == "reraise":
            # first raise through a proxy of its own (some classes make the daemon close the connection after its reply)
            p1 = live.proxy(str(p._pyroUri), serializer=p._pyroSerializer, timeout=HANG_GUARD_S)
            try:
                p1.raise_first(spec)
            except Exception:
                pass
            finally:
                p1._pyroRelease()
            return ("returned", p.raise_second(), 0)
        if kind == "getattr":
            p.set_spec(spec)
            return ("returned", p.prop, 0)
        if kind == "setattr":
            p.set_spec(spec)
            p.prop = 5
            return ("returned", "<assignment completed>", 0)
        if kind.startswith("batch"):
            b = Pyro5.api.BatchProxy(p)
            before = 0 if kind == "batch-first" else k
            after = 0 if kind == "batch-last" else 1
            for i in range(before):
                b.ok(i)
            b.raise_it(spec)
            for i in range(after):
                b.ok(100 + i)
            results = b()
            got = []
            for r in results:
                got.append(r)
                if len(got) <= before and r == len(got) - 1 and type(r) is int:
                    good += 1
            return ("returned", got, good)
        if kind == "stream":
            it = p.gen(spec, k)
            got = []
            for i in range(k):
                v = next(it)
                got.append(v)
                if v == i:
                    good += 1
            got.append(next(it))
            return ("returned", got, good)
        raise ValueError(kind)
    except BaseException as x:      # noqa  (the object of study)
        if isinstance(x, (KeyboardInterrupt, SystemExit)) and not _expected_base(case, x):
            raise
        return ("raised", x, good)
    finally:
        if it is not None:
            try:
                it.close()
            except Exception:
                pass


def _expected_base(case, x):
    return case["spec"]["ns"] == "builtins" and case["spec"]["cls"] == type(x).__name__


def _is_local_comm_failure(x):
    import Pyro5.errors as E
    return isinstance(x, (E.ConnectionClosedError, E.TimeoutError)) and not hasattr(x, "_pyroTraceback") and (
        "partialData" in vars(x) or str(x).startswith(("receiving:", "sending:")))


def run_case(case):
    if case.get("level") == "codec":
        return run_codec_case(case)
    if case.get("level") == "concurrent":
        return run_concurrent_case(case)
    return run_live_case(case)


def run_concurrent_case(case):
    """several clients (own proxy and connection each) provoke transportable exceptions at the same time: what each of them
    gets must be what it gets when it is alone (judged by the same oracle as the sequential cases)"""
    subs = [dict(sub, servertype=case["servertype"], ser=case["ser"], level="live") for sub in case["subs"]]
    viols = []
    s = served(case["servertype"])

    def one(sub, exp, sink, prefix):
        def viol(sig, what):
            spec = sub["spec"]
            sink.append(Violation("C07:" + prefix + sig, ("%s/%s/%s %s.%s args=%s attrs=%s special=%s: %s%s" % (
                case["servertype"], case["ser"], sub["kind"], spec["ns"], spec["cls"], short(spec.get("args"), 80), short(spec.get("attrs"), 60),
                short(spec.get("special"), 60), "(with %d other clients active) " % (len(subs) - 1) if prefix else "", what))[:900]))
        _tag, exp_type, exp_args, exp_vars, _local = exp
        p = live.proxy(s.uri(OBJ_ID), serializer=case["ser"], timeout=HANG_GUARD_S)
        try:
            out = _perform(p, sub)
            want_good = 0 if sub["kind"] in ("call", "getattr", "setattr", "batch-first") else sub.get("k", 0)
            _judge_transportable(sub, out, want_good, exp_type, exp_args, exp_vars, viol)
        finally:
            try:
                p._pyroRelease()
            except Exception:
                pass
    todo = []
    for sub in subs:
        if family(sub) != "transportable" or (sub["spec"]["cls"] == "StopIteration" and sub["kind"] == "stream"):
            continue
        exp = expectation(sub["spec"])
        if exp[0] != "ok":
            continue
        solo = []
        one(sub, exp, solo, "")
        pop_notes(sub)
        if solo:
            viols.extend(solo)      # fails already when alone: reported as what it is, and left out of the concurrent phase
            continue
        todo.append((sub, exp))
    if len(todo) >= 2:
        sinks = [[] for _ in todo]
        start = threading.Barrier(len(todo))

        def worker(i):
            sub, exp = todo[i]
            try:
                start.wait(30)
                for _ in range(case.get("rounds", 4)):
                    one(sub, exp, sinks[i], "under-concurrency:")
                    if sinks[i]:
                        break
            except Exception as x:
                sinks[i].append(Violation("C07:harness:concurrent-worker", "worker failed: %r" % (x,)))
        old = sys.getswitchinterval()
        sys.setswitchinterval(1e-5)         # stimulus only: makes thread switches inside the serializers likely
        try:
            threads = [threading.Thread(target=worker, args=(i,)) for i in range(len(todo))]
            for t in threads:
                t.start()
            for t in threads:
                t.join()
        finally:
            sys.setswitchinterval(old)
        for sub, _exp in todo:
            pop_notes(sub)
        for sink in sinks:
            viols.extend(sink[:1])
        case["_concurrent_clients"] = len(todo)
    _cleanup_objects()
    _settle(s)
    if not s.loop_alive():
        viols.append(Violation("C07:daemon-loop-died", "the request loop terminated: %r" % (s.loop_error,)))
    return viols


def _unicode_bounds_ok(spec):
    """CPython 3.12.1: str() of a UnicodeEncode/Decode/TranslateError whose start/end lie outside the object raises
    SystemError and leaves a stray IndexError pending in the thread (interpreter bug, fixed upstream later).  Such an
    exception object is broken by itself, whoever touches it - outside the domain."""
    if spec["ns"] != "builtins" or spec["cls"] not in ("UnicodeEncodeError", "UnicodeDecodeError", "UnicodeTranslateError"):
        return True
    a = spec.get("args") or []
    try:
        if spec["cls"] == "UnicodeTranslateError":
            obj, start, end = a[0], a[1], a[2]
        else:
            obj, start, end = a[1], a[2], a[3]
        n = len(obj) // 2 if spec["cls"] == "UnicodeDecodeError" else len(obj)
        return type(start) is int and type(end) is int and 0 <= start <= end <= n
    except Exception:
        return True         # wrong shape: the constructor rejects it


def expectation(spec):
    """-> ('ok', type, args, vars, local instance) or ('skip', reason)"""
    if not _unicode_bounds_ok(spec):
        return ("skip", "unicode-error-bounds-outside-object")
    for sub in (spec.get("special") or {}).get("group", []):
        if not _unicode_bounds_ok(sub):
            return ("skip", "unicode-error-bounds-outside-object")
    try:
        local = build_exception(spec)
    except Exception as x:
        return ("skip", "constructor-rejects:%s" % type(x).__name__)
    finally:
        _cleanup_objects()
    sp = spec.get("special") or {}
    try:
        traceback.format_exception(type(local), local, None)
    except Exception:
        # e.g. SyntaxError('m', 'abcd'): the stdlib itself cannot format this object (wrongly typed lineno/offset), so no
        # remote traceback text can exist for it - an exception object that is broken by itself is outside the domain
        return ("skip", "stdlib-traceback-cannot-format-it")
    if "unser" not in sp:
        try:
            again = type(local)(*local.args)
            if type(again) is not type(local) or not V.same(norm(again.args), norm(local.args)):
                return ("skip", "not-rebuildable-from-own-args")
        except Exception:
            return ("skip", "not-rebuildable-from-own-args")
    return ("ok", type(local), local.args, dict(vars(local)), local)


def run_live_case(case):
    import Pyro5.errors as E
    viols = []
    spec, ser, kind = case["spec"], case["ser"], case["kind"]
    fam = family(case)

    def viol(sig, what):
        viols.append(Violation("C07:" + sig, ("%s/%s/%s %s.%s args=%s attrs=%s special=%s: %s" % (
            case["servertype"], ser, kind, spec["ns"], spec["cls"], short(spec.get("args"), 80), short(spec.get("attrs"), 60),
            short(spec.get("special"), 60), what))[:900]))

    exp = expectation(spec)
    if exp[0] == "skip":
        _note(case, "skipped:" + exp[1])
        return viols
    if spec["cls"] == "StopIteration" and spec["ns"] == "builtins" and kind == "stream":
        _note(case, "skipped:stopiteration-in-generator")
        return viols
    if kind == "reraise" and fam != "transportable":
        _note(case, "skipped:reraise-is-about-transportable-exceptions")      # (the other families are judged on their first raise)
        return viols
    _tag, exp_type, exp_args, exp_vars, local = exp
    try:
        exp_msg = str(local)
    except Exception:
        exp_msg = None            # __str__ raises: nobody can see the message
    if (spec.get("special") or {}).get("where") == "message":
        # (the part of the text up to the character that cannot be encoded: how that one is escaped is the daemon's choice)
        exp_msg = (exp_msg or "").split("\udcff")[0]
    if (spec.get("special") or {}).get("where") == "arg":
        exp_msg = str(spec["args"][0])     # str() of the whole args tuple contains the address of the foreign object

    s = served(case["servertype"])
    p = live.proxy(s.uri(OBJ_ID_FALLBACK if case.get("fallback") else OBJ_ID), serializer=ser, timeout=HANG_GUARD_S)
    scope = live.ConfigScope(DETAILED_TRACEBACK=bool(case.get("detailed", False)))
    scope.__enter__()
    # (a daemon whose annotations() hook adds annotations to every reply, error replies included)
    s.daemon.v_annotations = (lambda: {"VSRV": b"annotation of the daemon", "VSR2": b""}) if case.get("daemon_ann") else None
    try:
        out = _perform(p, case)
        want_good = 0 if kind in ("call", "getattr", "setattr", "batch-first") else case.get("k", 0)
        how, x, good = out
        _note(case, "outcome:" + (how if how == "returned" else "raised"))

        if fam == "transportable":
            _judge_transportable(case, out, want_good, exp_type, exp_args, exp_vars, viol)
            # the reply of a SecurityError is followed by a server-side close; the statement demands a usable proxy only for
            # the unserialisable clause, so nothing is demanded here
        else:
            _judge_unserialisable(case, fam, out, want_good, exp_type, exp_args, exp_vars, exp_msg, viol)
            # next call on the same proxy
            try:
                r = p.ping()
                if r != "pong":
                    viol("next-call-fails:" + pathgroup(kind), "ping() after the failed call returned %r" % (r,))
            except Exception as x2:
                if spec["ns"] == "pyro" and spec["cls"] in ("SecurityError", "SerializeError") and pathgroup(kind) == "direct" and isinstance(x2, E.ConnectionClosedError):
                    # the daemon re-raises these two after having sent the (fallback) reply, the transport then closes the connection;
                    # the caller received a plain PyroError, so the proxy does not know that it has to reconnect
                    viol("next-call-fails:server-closes-connection-after-reply:" + spec["cls"],
                         "unserialisable %s: the describing PyroError arrived, but the server closed the connection afterwards and the next call on the same proxy raised %s" % (spec["cls"], type(x2).__name__))
                else:
                    viol("next-call-fails:" + pathgroup(kind), "ping() on the same proxy after the failed call raised %s: %s" % (type(x2).__name__, short(str(x2), 100)))
    finally:
        scope.__exit__()
        try:
            p._pyroRelease()
        except Exception:
            pass
        _cleanup_objects()
        _settle(s)
    if not s.loop_alive():
        viol("daemon-loop-died", "the request loop terminated: %r" % (s.loop_error,))
    return viols


def _judge_transportable(case, out, want_good, exp_type, exp_args, exp_vars, viol):
    import Pyro5.errors as E
    how, x, good = out
    spec, ser, kind = case["spec"], case["ser"], case["kind"]
    kg, pg = kindgroup(kind), pathgroup(kind)
    if how == "returned":
        viol("returned-instead-of-raising:" + kg, "the call returned %s instead of raising %s" % (short(x, 80), exp_type.__name__))
        return
    if _is_local_comm_failure(x):
        if isinstance(x, E.TimeoutError):
            viol("no-reply:" + pg, "no reply within the %d s hang guard" % HANG_GUARD_S)
        elif spec["ns"] == "pyro" and spec["cls"] in COMM_ERRORS and pg == "direct":
            viol("commerror-raised-by-method:" + spec["cls"],
                 "remote code raised Pyro5.errors.%s; the server sent no error reply and dropped the connection, the caller got a local %s(%s)" % (
                     spec["cls"], type(x).__name__, short(str(x), 60)))
        else:
            viol("no-reply:" + pg, "no error reply: the caller got a locally made %s(%s)" % (type(x).__name__, short(str(x), 60)))
        return
    if ser == "marshal" and pg == "batch" and type(x) is ValueError and x.args == ("unmarshallable object",) and exp_args != x.args:
        viol("marshal-batch-exception-unmarshallable", "a failing batch member under marshal: the whole batch reply cannot be marshalled, the caller got ValueError('unmarshallable object') instead of %s%s" % (exp_type.__name__, short(exp_args, 60)))
        return
    if type(x) is RuntimeError and str(x).startswith(SPEC_ALTERED):
        viol("spec-altered-in-transit:" + ser, "call arguments are not delivered unchanged (see C01): %s" % short(str(x), 300))
        return
    if type(x) is not exp_type:
        if pg == "batch" and exp_type is StopIteration and type(x) is RuntimeError and "StopIteration" in str(x):
            viol("batch-stopiteration-becomes-runtimeerror", "StopIteration raised by a batch member is re-raised inside the client's result generator and arrives as RuntimeError(%s)" % short(str(x), 60))
        else:
            viol("wrong-class:" + pg, "expected exactly %s, the caller got %s(%s)" % (qualname(exp_type), qualname(type(x)), short(x.args, 100)))
        return
    if good != want_good:
        viol("wrong-position:" + kg, "%d good results before the exception, expected %d" % (good, want_good))
    gargs, wargs = norm(x.args), norm(exp_args)
    if not V.same(gargs, wargs):
        if ser == "serpent" and has_nan(wargs) and V.same(gargs, nan_marked(wargs)):
            viol("serpent-nan-in-exception-content", "float nan inside args arrives as serpent's marker dict: %s" % short(gargs, 120))
        else:
            viol("args-differ:" + pg, "args %s, expected %s (%s)" % (short(gargs, 120), short(wargs, 120), V.describe_diff(gargs, wargs)))
    gvars = norm({k: v for k, v in vars(x).items() if k != "_pyroTraceback"})
    wvars = norm(exp_vars)
    if not V.same(gvars, wvars):
        if ser == "serpent" and has_nan(wvars) and V.same(gvars, nan_marked(wvars)):
            viol("serpent-nan-in-exception-content", "float nan inside a custom attribute arrives as serpent's marker dict: %s" % short(gvars, 120))
        else:
            viol("attributes-differ:" + pg, "attributes %s, expected %s (%s)" % (short(gvars, 120), short(wvars, 120), V.describe_diff(gvars, wvars)))
    _judge_traceback(case, x, exp_type.__name__, viol)


def _judge_traceback(case, x, clsname, viol):
    kg = kindgroup(case["kind"])
    tb = getattr(x, "_pyroTraceback", None)
    if not tb:
        viol("traceback-missing:" + kg, "_pyroTraceback is %r" % (tb,))
        return
    if type(tb) is not list or not all(type(l) is str for l in tb):
        viol("traceback-shape:" + kg, "_pyroTraceback is not a list of str: %s" % short(tb, 100))
        return
    text = "".join(tb)
    fn = FUNC_OF_KIND[case["kind"]]
    if fn not in text or clsname not in text:
        viol("traceback-content:" + kg, "remote traceback text does not mention %r and %r: %s" % (fn, clsname, short(text, 200)))
    elif case["kind"] != "reraise" and RAISER not in text:
        # (a re-raised stored exception is raised by raise_second itself)
        viol("traceback-content:raising-frame-missing", "remote traceback text does not show the frame that raised (%r, %d frames below the member): ...%s" % (
            RAISER, int(case["spec"].get("depth", 0)), text[-300:]))


def _lost_signature(case):
    """signature of 'the original is lost' inside the unserialisable family: the case features that select the root cause"""
    spec, ser = case["spec"], case["ser"]
    sp = spec.get("special") or {}
    if spec["cls"] == "BadReprError" and (case["kind"] in ("call", "stream") or case["kind"].startswith("batch")):
        # repr() of the exception is evaluated by the daemon's method-call error handler (plain calls, batch members, stream items)
        return "unserialisable:original-lost:repr-raises"
    if sp.get("unser") == "lambda" and ser == "msgpack":
        # serpent/json/msgpack degrade a function to {'__class__': 'builtins.function'}; only msgpack's bottom-up object hook rejects it
        return "unserialisable:original-lost:msgpack-function-marker"
    return "unserialisable:original-lost:" + pathgroup(case["kind"])


def _noreply_signature(case):
    sp = case["spec"].get("special") or {}
    pg = pathgroup(case["kind"])
    if case["spec"]["cls"] == "BadStrError" and "unser" in sp and pg == "direct":
        # the server's fallback formats str(original), which raises inside the except block
        return "unserialisable:no-reply:direct:str-raises"
    return "unserialisable:no-reply:" + pg


def _judge_unserialisable(case, fam, out, want_good, exp_type, exp_args, exp_vars, exp_msg, viol):
    import Pyro5.errors as E
    how, x, good = out
    spec, ser, kind = case["spec"], case["ser"], case["kind"]
    sp = spec.get("special") or {}
    pg = pathgroup(kind)
    if how == "returned":
        viol("unserialisable:returned-instead-of-raising:" + kindgroup(kind), "the call returned %s instead of raising" % short(x, 80))
        return
    if _is_local_comm_failure(x) and spec["ns"] == "pyro" and spec["cls"] in COMM_ERRORS and pg == "direct" and not isinstance(x, E.TimeoutError):
        viol("commerror-raised-by-method:" + spec["cls"], "remote code raised Pyro5.errors.%s (with unserialisable content); no error reply, the caller got a local %s" % (spec["cls"], type(x).__name__))
        return
    if _is_local_comm_failure(x):
        viol(_noreply_signature(case), "no error reply: the caller got a locally made %s(%s)" % (type(x).__name__, short(str(x), 60)))
        return
    clsname = exp_type.__name__
    text = ""
    try:
        text = str(x)
    except Exception:
        pass
    # (a) the original itself arrived (a serializer degraded the offending value instead of failing): class and the
    #     transportable part of the content must then be right
    if type(x) is exp_type and fam != "unknown-class":
        nan_seen = []

        def eq(got, want):
            got, want = norm(got), norm(want)
            if V.same(got, want):
                return True
            if ser == "serpent" and has_nan(want) and V.same(got, nan_marked(want)):
                nan_seen.append(got)       # the known serpent nan defect, reported below with its own signature
                return True
            return False
        if "unser" in sp and sp.get("where") == "arg":
            ok = eq(x.args[:len(exp_args) - 1], exp_args[:-1])
        else:
            ok = eq(x.args, exp_args)
        if ok:
            ok = eq({k: v for k, v in vars(x).items() if k not in ("_pyroTraceback", "x_bad")}, {k: v for k, v in exp_vars.items() if k != "x_bad"})
        if ok:
            _note(case, "unser-outcome:original-class-delivered")
            if nan_seen:
                viol("serpent-nan-in-exception-content", "float nan inside the exception content arrives as serpent's marker dict: %s" % short(nan_seen[0], 120))
            _judge_traceback(case, x, clsname, viol)
            return
    # (b) a Pyro error describing the original
    if isinstance(x, E.PyroError):
        names_type = clsname in text
        if spec["ns"] == "local":
            names_msg = True          # see ASSUMPTIONS: for a class unknown to the receiver only the class name is demanded
            if names_type and exp_msg and exp_msg not in text:
                _note(case, "observation:unknown-class-message-not-in-error-text")
        else:
            names_msg = (exp_msg is None) or (exp_msg in text)
        if names_type and names_msg:
            _note(case, "unser-outcome:pyro-error-describing-original")
            return
    # (c) anything else: the original is lost
    if fam == "nonlossless-content" and not isinstance(x, E.PyroError) and not hasattr(x, "_pyroTraceback"):
        viol("reconstruction-failure-escapes:" + _recon_name(spec, ser),
             "the client could not rebuild %s from the transported args and raised a bare %s(%s) - neither the original nor a Pyro error describing it" % (
                 clsname, qualname(type(x)), short(str(x), 100)))
        return
    viol(_lost_signature(case), "the caller got %s(%s) which is neither %s nor a PyroError naming %r and its message %r" % (
        qualname(type(x)), short(text, 140), clsname, clsname, exp_msg))


# where the client-side reconstruction is known to fail because serpent/json do not restore content INSIDE an exception dict
# (msgpack's object hook works bottom-up, marshal carries bytes natively): a failure elsewhere is a different root cause
RECON_KNOWN = {("ExceptionGroup", "serpent"), ("ExceptionGroup", "json"), ("UnicodeDecodeError", "serpent")}


def _recon_name(spec, ser):
    name = "ExceptionGroup" if "group" in (spec.get("special") or {}) else spec["cls"]
    return name if (name, ser) in RECON_KNOWN else "%s:%s" % (name, ser)


_NOTES = {}


def _note(case, label):
    """labels computed during execution (outcome classes); read back by the labels callback through the case fingerprint"""
    _NOTES.setdefault(id(case), []).append(label)


def pop_notes(case):
    return _NOTES.pop(id(case), [])


# ------------------------------------------------------------------------------------------------
# serializer level (no network): loads(dumps(x)) for every class incl. the BaseException-only ones
# ------------------------------------------------------------------------------------------------

def run_codec_case(case):
    import Pyro5.errors as E
    from Pyro5 import serializers
    viols = []
    spec, ser = case["spec"], case["ser"]

    def viol(sig, what):
        viols.append(Violation("C07:" + sig, ("codec/%s %s.%s args=%s attrs=%s: %s" % (ser, spec["ns"], spec["cls"], short(spec.get("args"), 80),
                                                                                        short(spec.get("attrs"), 60), what))[:900]))
    exp = expectation(spec)
    if exp[0] == "skip":
        _note(case, "skipped:" + exp[1])
        return viols
    _tag, exp_type, exp_args, exp_vars, local = exp
    fam = family(dict(case, kind="call"))
    S = serializers.serializers[ser]
    try:
        data = S.dumps(local)
    except Exception as x:
        if fam == "transportable":
            viol("roundtrip:dumps-fails", "dumps raised %s: %s" % (type(x).__name__, short(str(x), 100)))
        return viols
    try:
        back = S.loads(data)
    except BaseException as x:
        if fam == "transportable":
            viol("roundtrip:loads-fails", "loads(dumps(x)) raised %s: %s" % (type(x).__name__, short(str(x), 100)))
        elif not isinstance(x, E.PyroError):
            viol("reconstruction-failure-escapes:" + _recon_name(spec, ser), "loads(dumps(x)) raised a bare %s(%s)" % (qualname(type(x)), short(str(x), 100)))
        return viols
    if fam != "transportable":
        return viols
    if type(back) is not exp_type:
        viol("wrong-class:codec", "loads(dumps(x)) is a %s, expected exactly %s" % (qualname(type(back)), qualname(exp_type)))
        return viols
    gargs, wargs = norm(back.args), norm(exp_args)
    if not V.same(gargs, wargs):
        if ser == "serpent" and has_nan(wargs) and V.same(gargs, nan_marked(wargs)):
            viol("serpent-nan-in-exception-content", "float nan inside args arrives as serpent's marker dict: %s" % short(gargs, 120))
        else:
            viol("args-differ:codec", "args %s, expected %s" % (short(gargs, 120), short(wargs, 120)))
    gvars, wvars = norm(dict(vars(back))), norm(exp_vars)
    if not V.same(gvars, wvars):
        if ser == "serpent" and has_nan(wvars) and V.same(gvars, nan_marked(wvars)):
            viol("serpent-nan-in-exception-content", "float nan inside a custom attribute arrives as serpent's marker dict: %s" % short(gvars, 120))
        else:
            viol("attributes-differ:codec", "attributes %s, expected %s" % (short(gvars, 120), short(wvars, 120)))
    return viols


# ------------------------------------------------------------------------------------------------
# specs: canonical and special shapes per class, strategies
# ------------------------------------------------------------------------------------------------
OS_FAMILY = [n for n in BUILTIN_EXC if issubclass(getattr(builtins, n), OSError)]
SYNTAX_FAMILY = [n for n in BUILTIN_EXC if issubclass(getattr(builtins, n), SyntaxError)]
KW_CLASSES = {"ImportError": ["name", "path"], "ModuleNotFoundError": ["name", "path"], "AttributeError": ["name", "obj"], "NameError": ["name"],
              "UnboundLocalError": ["name"]}


def canonical_spec(ns, name):
    spec = {"ns": ns, "cls": name, "args": ["boom é", 42], "attrs": {"x_code": [1, "two", None]}, "special": None}
    if ns == "builtins":
        if name == "UnicodeDecodeError":
            spec["args"] = ["utf-8", "ff00", 0, 1, "invalid start byte"]
            spec["special"] = {"bytes_at": [1]}
        elif name == "UnicodeEncodeError":
            spec["args"] = ["ascii", "café", 3, 4, "ordinal not in range"]
        elif name == "UnicodeTranslateError":
            spec["args"] = ["café", 3, 4, "no mapping"]
        elif name in SYNTAX_FAMILY:
            spec["args"] = ["invalid syntax", ["file.py", 3, 7, "x = = 1\n"]]
        elif name in ("ExceptionGroup", "BaseExceptionGroup"):
            spec["args"] = ["several things failed"]
            spec["special"] = {"group": [{"ns": "builtins", "cls": "ValueError", "args": [1], "attrs": {}, "special": None},
                                         {"ns": "builtins", "cls": "KeyError", "args": ["k"], "attrs": {}, "special": None}]}
    return spec


def special_specs():
    """hand-picked shapes of the special classes (every one is tried locally first like any other spec)"""
    out = []

    def add(name, args, attrs=None, special=None, ns="builtins"):
        out.append({"ns": ns, "cls": name, "args": args, "attrs": attrs or {}, "special": special})
    for n in OS_FAMILY:
        add(n, [2, "No such file"])                      # OSError(2, ..) maps to FileNotFoundError, sets errno/strerror
        add(n, [13, "denied", "/some/file"])             # filename is not part of args
    add("OSError", [11, "again"])                        # -> BlockingIOError
    add("OSError", [9999, "unknown errno"])
    add("OSError", ["just text"])
    add("OSError", [1, "a", "f", 0, "g"])
    add("BlockingIOError", [11, "would block", 7])       # characters_written
    add("UnicodeEncodeError", ["ascii", "é\U0001f600", 0, 2, "r"], {"x_n": 1})
    add("UnicodeTranslateError", ["", 0, 0, ""])
    add("UnicodeDecodeError", ["utf-8", "", 0, 0, ""], special={"bytes_at": [1]})
    add("UnicodeDecodeError", ["utf-8", "c3", 0, 1, "unexpected end of data"], {"x_n": 1}, special={"bytes_at": [1]})
    add("UnicodeError", ["plain message"])
    for n in SYNTAX_FAMILY:
        add(n, ["msg only"])
        add(n, ["bad", ["f.py", 1, 2, "text", 1, 5]])
        add(n, ["bad", ["f.py", None, None, None]])
    add("StopIteration", ["the value"])
    add("StopIteration", [])                             # nothing to compare but the class: trivial, still executed
    add("StopAsyncIteration", ["the value"], {"x_a": 1})
    add("KeyError", ["missing key"])
    add("KeyError", [["a", 1]])
    add("KeyError", ["a", "b"])
    for n, kws in KW_CLASSES.items():
        add(n, ["message"], special={"kw": {kws[0]: "thename"}})
        if "path" in kws:
            add(n, ["message"], {"x_z": 0}, special={"kw": {"name": "mod", "path": "/p/mod.py"}})
    add("AttributeError", ["has no attribute"], special={"kw": {"name": "attr", "obj": [1, 2]}})
    add("ExceptionGroup", ["grp"], special={"group": [{"ns": "builtins", "cls": "ValueError", "args": ["v"], "attrs": {"x_a": 1}, "special": None}]})
    add("ExceptionGroup", ["nested"], special={"group": [
        {"ns": "builtins", "cls": "ExceptionGroup", "args": ["inner"], "attrs": {}, "special": {"group": [{"ns": "builtins", "cls": "OSError", "args": [2, "x"], "attrs": {}, "special": None}]}},
        {"ns": "pyro", "cls": "NamingError", "args": ["n"], "attrs": {}, "special": None}]})
    add("ValueError", ["with notes"], special={"notes": ["first note", "second é"]})
    add("ValueError", [float("nan")])
    add("ValueError", [[float("nan"), 1.5]], {"x_f": float("inf")})
    add("ValueError", ["m"], {"x_f": {"k": float("nan")}})
    add("ValueError", [float("inf"), float("-inf"), -0.0, 2 ** 70, -2 ** 63 - 1, "\x00퟿\U0010ffff"])
    add("ValueError", [], {"x_only_attr": "v"})
    add("ValueError", [[1, [2, [3, {"k": [None, True]}]]]], {"x_d": {"a": {"b": []}}})
    add("Exception", [None])
    add("Exception", [True, False, 0, 1, 0.0, ""])
    add("TimeoutError", ["builtin one, not Pyro's"])
    add("TimeoutError", ["Pyro's one, not the builtin"], ns="pyro")
    add("ConnectionError", ["builtin"], {"x_a": 1})
    for n in PYRO_EXC:
        add(n, [], {"x_code": 7}, ns="pyro")
        add(n, ["m", 2, [3]], {"x_a": "b", "x_c": None}, ns="pyro")
    return out


def unserialisable_specs():
    out = []
    for what in ("socket", "lambda", "object", "slots-unset"):
        for where in ("attr", "arg"):
            out.append({"ns": "builtins", "cls": "ValueError", "args": ["the original message"], "attrs": {"x_fine": 1},
                        "special": {"unser": what, "where": where}})
    out.append({"ns": "builtins", "cls": "KeyError", "args": ["k"], "attrs": {}, "special": {"unser": "object", "where": "attr"}})
    out.append({"ns": "builtins", "cls": "OSError", "args": [2, "nsf"], "attrs": {}, "special": {"unser": "socket", "where": "attr"}})
    out.append({"ns": "pyro", "cls": "NamingError", "args": ["name trouble"], "attrs": {}, "special": {"unser": "object", "where": "attr"}})
    out.append({"ns": "pyro", "cls": "PyroError", "args": ["generic trouble"], "attrs": {}, "special": {"unser": "socket", "where": "arg"}})
    for n in LOCAL_CLASSES:
        out.append({"ns": "local", "cls": n, "args": ["local message"], "attrs": {"x_a": 1}, "special": None})
        out.append({"ns": "local", "cls": n, "args": ["local message"], "attrs": {}, "special": {"unser": "object", "where": "attr"}})
    return out


small_leaf = st.one_of(st.none(), st.booleans(), st.integers(-3, 300), st.sampled_from(V.BOUNDARY_INTS), st.floats(allow_nan=True, allow_infinity=True),
                       st.sampled_from([0.0, -0.0, float("inf"), float("-inf"), float("nan"), 5e-324, 0.1]),
                       st.text(alphabet=st.characters(exclude_categories=("Cs",)), max_size=6),
                       st.sampled_from(["", "\x00", "'", "\\", "\n", "__class__", "é", "\U0010ffff", "None", "nan"]))
small_value = st.recursive(small_leaf, lambda ch: st.one_of(st.lists(ch, max_size=3), st.dictionaries(
    st.text(alphabet="abk_é '", max_size=3), ch, max_size=2)), max_leaves=4)
idents = st.text(alphabet="abcxyz_019", max_size=5)


CLASS_POOL = ALL_CLASSES * 6 + [("local", n) for n in LOCAL_CLASSES]


@st.composite
def spec_strategy(draw, with_local=False):
    ns, name = draw(st.sampled_from(CLASS_POOL if with_local else ALL_CLASSES))
    special = None
    shape = draw(st.integers(0, 9))
    args = draw(st.lists(small_value, max_size=3))
    if ns == "builtins":
        if name in OS_FAMILY and shape < 6:
            args = [draw(st.one_of(st.integers(0, 140), st.integers(-5, 10 ** 6)))] + [draw(st.text(max_size=5)) for _ in range(draw(st.integers(1, 2)))]
            if shape == 0:
                args = args[:2]
                special = {"os_filename": draw(st.sampled_from(["bytes", "path"]))}
        elif name == "UnicodeEncodeError" and shape < 8:
            args = [draw(st.text(alphabet="asciutf-816", max_size=5)), draw(st.text(max_size=5)), draw(st.integers(0, 3)), draw(st.integers(0, 5)), draw(st.text(max_size=5))]
        elif name == "UnicodeTranslateError" and shape < 8:
            args = [draw(st.text(max_size=5)), draw(st.integers(0, 3)), draw(st.integers(0, 5)), draw(st.text(max_size=5))]
        elif name == "UnicodeDecodeError" and shape < 8:
            args = [draw(st.text(alphabet="asciutf-816", max_size=5)), draw(st.binary(max_size=4)).hex(), draw(st.integers(0, 3)), draw(st.integers(0, 5)), draw(st.text(max_size=5))]
            special = {"bytes_at": [1]}
        elif name in SYNTAX_FAMILY and shape < 6:
            n = draw(st.sampled_from([4, 4, 6]))
            det = [draw(st.one_of(st.none(), st.text(max_size=5))), draw(st.one_of(st.none(), st.integers(0, 50))), draw(st.one_of(st.none(), st.integers(0, 50))),
                   draw(st.one_of(st.none(), st.text(max_size=6)))] + ([draw(st.integers(0, 50)), draw(st.integers(0, 50))] if n == 6 else [])
            args = [draw(st.text(max_size=6)), det]
        elif name == "ExceptionGroup":
            subs = draw(st.lists(st.tuples(st.sampled_from(["ValueError", "KeyError", "OSError", "TypeError"]), st.lists(small_leaf, max_size=2)), min_size=1, max_size=2))
            special = {"group": [{"ns": "builtins", "cls": c, "args": a, "attrs": {}, "special": None} for c, a in subs]}
            args = [draw(st.text(max_size=5))]
        elif name in KW_CLASSES and shape < 3:
            special = {"kw": {KW_CLASSES[name][0]: draw(st.text(max_size=4))}}
    attrs = draw(st.dictionaries(idents.map(lambda s: "x_" + s), small_value, max_size=2))
    if special is None and shape == 9:
        special = {"notes": draw(st.lists(st.text(max_size=5), min_size=1, max_size=2))}
    return {"ns": ns, "cls": name, "args": args, "attrs": attrs, "special": special}


@st.composite
def case_strategy(draw, servertype, ser):
    # kind and k are drawn BEFORE the (long) spec: Hypothesis zero-fills the tail of many examples, which would
    # otherwise make nearly half of the cases plain calls
    kind = draw(st.sampled_from(KINDS))
    k = draw(st.integers(0, 3))
    detailed = draw(st.integers(0, 3)) == 3
    unser = draw(st.integers(0, 13))
    spec = draw(spec_strategy(with_local=True))
    depth = draw(st.sampled_from([0, 0, 0, 0, 1, 2, 7, 55, 120]))
    if depth:
        spec["depth"] = depth
    if unser < 4 and spec["special"] is None:
        # the "cannot be serialised" family on a random class: offending value as attribute
        spec["special"] = {"unser": ["socket", "lambda", "object", "slots-unset"][unser], "where": "attr"}
    elif unser == 4 and spec["special"] is None and spec["ns"] != "local":
        # text that json / msgpack cannot encode (serpent and marshal can): as the message itself, as a further argument, as an attribute
        where = draw(st.sampled_from(["message", "message", "arg", "attr"] if spec["args"] else ["message", "attr"]))
        if where == "message":
            # (only for classes that can be rebuilt from one text argument: the receiver constructs the exception from its args)
            try:
                ok = lookup_class(spec["ns"], spec["cls"])("probe").args == ("probe",)
            except Exception:
                ok = False
            if not ok:
                where = "attr"
        if where == "arg":
            # (only for classes that can be rebuilt with one more argument)
            try:
                probe = list(spec["args"]) + ["probe"]
                ok = list(lookup_class(spec["ns"], spec["cls"])(*probe).args) == probe
            except Exception:
                ok = False
            if not ok:
                where = "attr"
        spec["special"] = {"unser": "surrogate", "where": where}
    case = {"level": "live", "servertype": servertype, "ser": ser, "kind": kind,
            "k": k if kind in ("batch-middle", "batch-last", "stream") else 0, "spec": spec}
    if detailed:
        case["detailed"] = True
    if draw(st.integers(0, 3)) == 0:
        case["fallback"] = True         # the target's class also defines __getattr__
    if draw(st.integers(0, 2)) == 0:
        case["daemon_ann"] = True
    return case


@st.composite
def concurrent_strategy(draw, servertype, ser):
    n = draw(st.integers(2, 4))
    subs = []
    for _ in range(n):
        kind = draw(st.sampled_from(KINDS))
        k = draw(st.integers(0, 2))
        spec = draw(spec_strategy())
        if kind in ("getattr", "setattr", "reraise") and any(x["kind"] in ("getattr", "setattr", "reraise") for x in subs):
            kind = "call"       # the property of the (single) target object raises what set_spec stored: one such client at a time
        subs.append({"kind": kind, "k": k if kind in ("batch-middle", "batch-last", "stream") else 0, "spec": spec})
    return {"level": "concurrent", "servertype": servertype, "ser": ser, "subs": subs, "rounds": 4}


def codec_strategy(ser):
    base_only = [("builtins", n) for n in BUILTIN_BASE_ONLY if n != "BaseExceptionGroup"]
    return st.builds(lambda spec, alt, use_alt: {"level": "codec", "ser": ser, "spec": dict(spec, ns=alt[0], cls=alt[1]) if use_alt and not spec.get("special") else spec},
                     spec_strategy(), st.sampled_from(base_only), st.integers(0, 3).map(lambda i: i == 0))


# ------------------------------------------------------------------------------------------------
# driver glue
# ------------------------------------------------------------------------------------------------

def _nontrivial(case):
    if case.get("level") == "concurrent":
        return sum(1 for sub in case["subs"] if family(dict(sub, ser=case["ser"])) == "transportable" and expectation(sub["spec"])[0] == "ok") >= 2
    spec = case["spec"]
    if not (spec.get("args") or spec.get("attrs")):
        return False
    return expectation(spec)[0] == "ok"


def _labels(case):
    if case.get("level") == "concurrent":
        return ["level:concurrent", "ser:" + case["ser"], "servertype:" + case["servertype"], "clients:%d" % len(case["subs"])]
    spec = case["spec"]
    l = ["level:" + case.get("level", "live"), "ser:" + case["ser"], "ns:" + spec["ns"]]
    if case.get("level", "live") == "live":
        l += ["kind:" + case["kind"], "servertype:" + case["servertype"], "family:" + family(case)]
        if case.get("detailed"):
            l.append("config:DETAILED_TRACEBACK")
        if case.get("fallback"):
            l.append("target-class-defines-__getattr__")
        if case.get("daemon_ann"):
            l.append("error-reply-carries-daemon-annotations")
        d = int(spec.get("depth", 0))
        l.append("raised-%s-frames-below-the-member" % ("0" if d == 0 else "1-9" if d < 10 else "50+"))
    sp = spec.get("special") or {}
    for k in sorted(sp):
        l.append("special:" + k)
    l += pop_notes(case)
    return l


def SHARDS(tier):
    # quick: server type x serializer; thorough: the same twice (part 1 only searches, with its own seed)
    parts = (0, 1) if tier == "thorough" else (0,)
    return [{"servertype": t, "ser": s, "part": p} for p in parts for t in SERVERTYPES for s in SERIALIZERS] + \
        [{"servertype": t + "-unix", "ser": s, "part": "unix"} for i, t in enumerate(SERVERTYPES) for s in SERIALIZERS[i::2]] * len(parts) + \
        [{"servertype": "thread", "ser": s, "part": "concurrent"} for s in SERIALIZERS] * len(parts)


def enumerated_cases(servertype, ser, tier):
    # 1. every class x every call kind, canonical arguments
    for ns, name in ALL_CLASSES:
        for kind in KINDS:
            yield {"level": "live", "servertype": servertype, "ser": ser, "kind": kind, "k": 2 if kind in ("batch-middle", "batch-last", "stream") else 0,
                   "spec": canonical_spec(ns, name)}
    # 2. special shapes, kinds rotating (all kinds in the thorough tier)
    for i, spec in enumerate(special_specs()):
        kinds = KINDS if tier == "thorough" else [KINDS[i % len(KINDS)], KINDS[(i + 3) % len(KINDS)]]
        for kind in kinds:
            yield {"level": "live", "servertype": servertype, "ser": ser, "kind": kind, "k": 1 if kind in ("batch-middle", "batch-last", "stream") else 0, "spec": spec}
    # 3. the "cannot be serialised" matrix: every spec x every kind
    for spec in unserialisable_specs():
        for kind in KINDS:
            yield {"level": "live", "servertype": servertype, "ser": ser, "kind": kind, "k": 1 if kind in ("batch-middle", "batch-last", "stream") else 0, "spec": spec}


def codec_cases(ser):
    for ns, name in ALL_CLASSES + [("builtins", n) for n in BUILTIN_BASE_ONLY]:
        yield {"level": "codec", "ser": ser, "spec": canonical_spec(ns, name)}
        yield {"level": "codec", "ser": ser, "spec": dict(canonical_spec(ns, name), attrs={})}
    for spec in special_specs():
        yield {"level": "codec", "ser": ser, "spec": spec}
    for n in BUILTIN_BASE_ONLY:
        if n != "BaseExceptionGroup":
            yield {"level": "codec", "ser": ser, "spec": {"ns": "builtins", "cls": n, "args": [3, "x"], "attrs": {"x_a": [1]}, "special": None}}
    yield {"level": "codec", "ser": ser, "spec": {"ns": "builtins", "cls": "BaseExceptionGroup", "args": ["g"], "attrs": {}, "special": {
        "group": [{"ns": "builtins", "cls": "KeyboardInterrupt", "args": [], "attrs": {}, "special": None}]}}}


def run(ctx):
    servertype, ser, part = ctx.shard["servertype"], ctx.shard["ser"], ctx.shard.get("part", 0)
    if part == "unix":
        try:
            # (the full enumeration runs over TCP; here: every call kind with a few classes + the special shapes + a short search)
            for kind in KINDS:
                for ns, name in [("builtins", "ValueError"), ("builtins", "KeyError"), ("builtins", "OSError"), ("pyro", "NamingError")]:
                    case = {"level": "live", "servertype": servertype, "ser": ser, "kind": kind, "k": 1 if kind in ("batch-middle", "batch-last", "stream") else 0,
                            "spec": canonical_spec(ns, name)}
                    ctx.observe(case, run_case(case), _nontrivial(case), _labels(case))
            ctx.search(case_strategy(servertype, ser), run_case, ctx.n(120, 1500), nontrivial=_nontrivial, labels=_labels, name="unix", max_rounds=3)
        finally:
            stop_all()
        return
    if part == "concurrent":
        try:
            ctx.search(concurrent_strategy(servertype, ser), run_case, ctx.n(60, 600), nontrivial=_nontrivial, labels=_labels, name="concurrent", max_rounds=3)
        finally:
            stop_all()
        return
    try:
        if servertype == SERVERTYPES[0] and part == 0:
            # the serializer level does not depend on the server type: run it in one of the shards of each serializer
            for case in codec_cases(ser):
                v = run_case(case)
                ctx.observe(case, v, _nontrivial(case), _labels(case))
            ctx.search(codec_strategy(ser), run_case, ctx.n(200, 6000), nontrivial=_nontrivial, labels=_labels, name="codec", max_rounds=8)
        if part == 0:
            hung = set()        # classes for which a call got no reply at all (each such case costs the whole hang guard)
            for case in enumerated_cases(servertype, ser, ctx.tier):
                key = (case["spec"]["ns"], case["spec"]["cls"], pathgroup(case["kind"]))
                if key in hung:
                    continue
                v = run_case(case)
                if any(":no-reply" in x.signature for x in v):
                    hung.add(key)
                ctx.observe(case, v, _nontrivial(case), _labels(case))
        ctx.search(case_strategy(servertype, ser), run_case, ctx.n(500, 5000), nontrivial=_nontrivial, labels=_labels,
                   name="live%d" % part, max_rounds=8)
    finally:
        stop_all()
    ctx.notes["classes_in_domain"] = "%d Exception subclasses of builtins + %d PyroError classes" % (len(BUILTIN_EXC), len(PYRO_EXC))
    ctx.notes["base_only_classes_codec_level"] = ", ".join(BUILTIN_BASE_ONLY)
