"""C11 - a batch behaves like the same calls made one after another.

Domain : call lists of length 0..10 over a stateful reference class `Ref` (counter, list, dict, echo, a method that raises an
         exception of a chosen class on a generated predicate, snapshot; plus members that must never run remotely: an
         unexposed method, a private method, dunders, an unexposed and an exposed property), mixing exposed names, refused names (unexposed, private, dunder,
         unknown, dotted, empty), wrong signatures and kwargs; normal and oneway batch mode; 4 serializers; 2 server types;
         a real daemon on a unix socket.  Every batch is submitted twice, each time to a FRESH object behind a fresh proxy:
         (raw)        proxy._pyroInvokeBatch(calls, oneway)      - no client side name filter at all
         (batchproxy) Pyro5.api.BatchProxy(proxy).<name>(...)... ; batch(oneway) and the result generator consumed item by item;
                      plain, or as a context manager (submitted - and a failing submit handled - inside the block, or behind it)
         and a third fresh object gets the same calls ONE BY ONE over the wire (remote sequential reference).  A third of the
         cases also passes values beyond the lossless core (bytes, tuples, sets, ... whatever the serializer carries) through
         put/get/pair/append: those are compared with the remote one-by-one run only.
Oracle : the same class instantiated locally, called one by one with plain Python under the harness's own exposure rule
         (a name outside the fixed exposed set is a failing call, AttributeError), stopping at the first failure.
         (1) results before the failure are `same` (type strict) as the reference's, the failure arrives as an exception of
             the reference's class (args and attributes too where the serializers carry them) at its position or when the
             batch is submitted, nothing is returned after it;
         (2) snapshot() of the remote object (normal call on the same proxy afterwards) == reference snapshot: counter, list,
             dict and the call log (calls before the failure ran once and in order, nothing after it ran, nothing refused ran);
         (3) a oneway batch returns None and leaves the same state;  (4) the empty batch returns nothing and changes nothing.
"""
import atexit
import copy
import os
import shutil

from hypothesis import strategies as st

from vlib import values as V
from vlib import live
from vlib.driver import Violation, HarnessError

PROPERTY = "C11"
LEVEL = "exploration"
RULE = ("a case = (serializer, server type, oneway?, list of 0..10 calls [name, args, kwargs]) drawn by Hypothesis: benign calls on "
        "the exposed methods of a stateful class (arguments from the lossless value core, positional/keyword split generated) and, "
        "at a generated position (first/middle/last/none), a failing member: method raising one of 13 exception kinds, refused "
        "name (unexposed, private, dunder, unknown, dotted, empty), KeyError lookup, wrong signature. Each case is executed "
        "through Proxy._pyroInvokeBatch and (when the names can be spelled through it) through BatchProxy, on fresh objects, and "
        "compared with a local sequential run and with the same calls made one by one over the wire on an identical object (results and state); "
        "BatchProxy plain or as context manager; a third of the cases carries values beyond the lossless core. Non-trivial: length >= 2 with the first failure not in last position, or oneway; "
        "distinct = distinct case JSON")
ASSUMPTIONS = [
    "a oneway BATCH is executed synchronously by the connection's server loop (Daemon.handleRequest runs the batch loop inline "
    "and only spawns _OnewayCallThread for single calls; svr_threads/svr_multiplex read the next request of a connection only "
    "after handleRequest returned), so a normal call sent afterwards on the same connection observes the final state; this "
    "was verified by reading server.py/svr_threads.py/svr_multiplex.py and is what the check uses as synchronisation point",
    "arguments are restricted to the serializers' lossless core (None, bool, int, float, str, list, str-keyed dict), so the local "
    "reference call sees exactly the values the remote method sees; dict keys used by put/get are str/int/bool/None",
    "exception messages of TypeError/AttributeError (argument binding, refused names) are not contractual: class only; for all "
    "other classes args and custom attributes are compared as well (all four serializers carry them)",
    "an exception class the client side cannot rebuild (not builtin, not Pyro5, not registered) can only arrive as "
    "Pyro5.errors.SerializeError, exactly as for a single call; a registered custom class must arrive as itself",
    "client and daemon live in one process (different threads); the transport is a unix domain socket to avoid ephemeral port "
    "exhaustion - the batch logic is transport independent",
    "iterator/generator returning methods are not batched (documented as unsupported)",
    "a property (exposed or not) named as a batch member is a refused name: properties are reachable through remote attribute access only",
]

SERIALIZERS = ("serpent", "json", "marshal", "msgpack")
BUDGET_S = {"quick": 45, "thorough": 780}      # running out ends the search early (evidence: budget_exhausted), never a verdict
HANG_GUARD_S = 120.0     # never a verdict: hitting it raises HarnessError (exit 2)

# ------------------------------------------------------------------------------------------------
# the reference class (module level: spawn-ed shard processes import it)
# ------------------------------------------------------------------------------------------------
from Pyro5.server import expose, oneway      # noqa: E402
import Pyro5.errors                   # noqa: E402


class CarriedError(ValueError):
    """custom exception class that is registered with the serializers (dict-to-class), so it can cross the wire"""


class CustomWireError(Exception):
    """application exception with a converter pair of its own (register_class_to_dict / register_dict_to_class): its wire form is
    whatever the application chose - here without any of Pyro's own marker members"""


class UncarriedError(ValueError):
    """custom exception class unknown to the deserializers"""


FAIL_KINDS = ("value", "key", "zero", "naming", "protocol", "valueattr", "carried", "uncarried", "stopiter", "type", "attr",
              "runtime", "lookup", "customwire")


class Ref(object):
    def __init__(self):
        self.counter = 0
        self.items = []
        self.d = {}
        self.log = []

    @expose
    def incr(self, n=1):
        self.log.append(["incr", n])
        self.counter = self.counter + n
        return self.counter

    @expose
    def append(self, x):
        self.log.append(["append", x])
        self.items.append(x)
        return len(self.items)

    @expose
    def put(self, k, v):
        self.log.append(["put", k, v])
        self.d[k] = v
        return len(self.d)

    @expose
    def get(self, k):
        self.log.append(["get", k])
        return self.d[k]

    @expose
    def echo(self, *args, **kwargs):
        self.log.append(["echo", list(args), dict(kwargs)])
        return [list(args), kwargs]

    @expose
    def fail_if(self, flag, kind="value", msg="boom", code=0):
        self.log.append(["fail_if", flag, kind, msg, code])
        if not flag:
            return "ok"
        if kind == "value":
            raise ValueError(msg)
        if kind == "key":
            raise KeyError(msg)
        if kind == "zero":
            return code // 0
        if kind == "naming":
            raise Pyro5.errors.NamingError(msg)
        if kind == "protocol":
            raise Pyro5.errors.ProtocolError(msg, code)
        if kind == "valueattr":
            e = ValueError(msg, code)
            e.code = code
            e.detail = {"msg": msg, "codes": [code, code]}
            raise e
        if kind == "carried":
            e = CarriedError(msg, code)
            e.code = code
            raise e
        if kind == "uncarried":
            raise UncarriedError(msg)
        if kind == "customwire":
            raise CustomWireError(msg, code)
        if kind == "stopiter":
            raise StopIteration(msg)
        if kind == "type":
            raise TypeError(msg)
        if kind == "attr":
            raise AttributeError(msg)
        if kind == "runtime":
            raise RuntimeError(msg, code)
        if kind == "lookup":
            raise IndexError(code)
        raise ValueError("unknown kind", kind)

    @expose
    @oneway
    def note(self, x=None):         # a method flagged @oneway is an ordinary member of a NORMAL batch (its result is None)
        self.log.append(["note", x])

    @expose
    def pair(self, a, b=None):      # results that are tuples (what arrives is the serializer's image of a tuple)
        self.log.append(["pair", a, b])
        return (a, b)

    @expose
    def pairs(self, a):
        self.log.append(["pairs", a])
        return [(a, 1), (a, (2, a))]

    @expose
    def view(self):                 # an ordinary getter that hands out the object's own list (no copy)
        self.log.append(["view"])
        return self.items

    @expose
    def unsendable(self, kind="object"):     # a result no serializer can send: the call fails (one by one: nothing after it is made)
        self.log.append(["unsendable", kind])
        return object() if kind == "object" else {"k": [1, object()]}

    @expose
    def __total__(self, n=0):       # an exposed custom dunder method is an ordinary remote method
        self.log.append(["__total__", n])
        return [self.counter, len(self.items), n]

    @expose
    def snapshot(self):
        self.log.append(["snapshot"])
        return {"counter": self.counter, "items": list(self.items), "dict": [[k, v] for k, v in self.d.items()],
                "log": [list(e) for e in self.log]}

    # ---- members that must never run for a remote caller
    def hidden(self, *a, **k):
        self.log.append(["hidden"])
        self.counter = -1000
        return "hidden ran"

    def _private(self, *a, **k):
        self.log.append(["_private"])
        return "private ran"

    def __secret__(self, *a, **k):
        self.log.append(["__secret__"])
        return "dunder ran"

    @property
    def secret_prop(self):          # unexposed property: naming it as a batch member must not run the getter
        self.log.append(["secret_prop"])
        return 1

    @expose
    @property
    def open_prop(self):            # exposed property: reachable by remote attribute access only, never as a (batched) call
        self.log.append(["open_prop"])
        return self.counter


EXPOSED = ("incr", "append", "put", "get", "echo", "fail_if", "snapshot", "__total__", "note", "pair", "pairs", "view", "unsendable")     # the harness's own exposure rule
REFUSED_NAMES = ("hidden", "_private", "__secret__", "__dict__", "__class__", "__init__", "nosuch", "incr.x", "snapshot.log",
                 "Incr", "", "incr ", "_pyroId", "log", "counter", "hidden.x", "__getattribute__", "secret_prop", "open_prop")
NEVER_RUN = ("hidden", "_private", "__secret__", "secret_prop", "open_prop")

_registered = False


def _setup():
    global _registered
    if _registered:
        return
    from Pyro5.serializers import SerializerBase
    SerializerBase.register_dict_to_class(
        CarriedError.__module__ + "." + CarriedError.__name__,
        lambda classname, d: SerializerBase.make_exception(CarriedError, d))
    SerializerBase.register_class_to_dict(CustomWireError, lambda e: {"__class__": "c11.CustomWireError", "text": e.args[0], "code": e.args[1]})
    SerializerBase.register_dict_to_class("c11.CustomWireError", lambda classname, d: CustomWireError(d["text"], d["code"]))
    live.quiet_logs()
    _registered = True


# ------------------------------------------------------------------------------------------------
# daemons (one per server type and process)
# ------------------------------------------------------------------------------------------------
_SERVED = {}
_oid = [0]


def _served(servertype):
    s = _SERVED.get(servertype)
    if s is None:
        _setup()
        s = live.Served(servertype, unixsocket=live.unix_socket_path())
        _SERVED[servertype] = s
    if not s.loop_alive():
        raise HarnessError("request loop of the %s daemon is not running: %r" % (servertype, s.loop_error))
    return s


def _stop_all():
    for st_, s in list(_SERVED.items()):
        del _SERVED[st_]
        path = s.address()
        s.stop()
        if isinstance(path, str):
            shutil.rmtree(os.path.dirname(path), ignore_errors=True)


atexit.register(_stop_all)


# ------------------------------------------------------------------------------------------------
# reference: the same calls, one after another, plain Python
# ------------------------------------------------------------------------------------------------
class RefOutcome(object):
    __slots__ = ("results", "fail_pos", "fail_kind", "exc", "snapshot")


def reference(calls, warmup=None):
    ref = Ref()
    for name, args, kwargs in copy.deepcopy((warmup or {}).get("calls", [])):
        # an earlier batch submitted through the same BatchProxy / connection (benign calls only): plain sequential effect
        getattr(ref, name)(*args, **kwargs)
    out = RefOutcome()
    out.results = []
    out.fail_pos = None
    out.fail_kind = None     # "refused" | "raised"
    out.exc = None
    for i, (name, args, kwargs) in enumerate(copy.deepcopy(calls)):
        if name not in EXPOSED:
            out.fail_pos, out.fail_kind, out.exc = i, "refused", AttributeError(name)
            break
        try:
            r = getattr(ref, name)(*args, **kwargs)
        except Exception as x:
            out.fail_pos, out.fail_kind, out.exc = i, "raised", x
            break
        if name == "unsendable":
            out.fail_pos, out.fail_kind, out.exc = i, "unsendable", None     # the call ran, its result cannot be delivered: it fails
            break
        out.results.append(copy.deepcopy(r))       # (a caller of a single call gets the value as it is at THAT moment)
    out.snapshot = ref.snapshot()
    return out


def _position_class(n, pos):
    if pos is None:
        return "none"
    if n == 1:
        return "only"
    if pos == 0:
        return "first"
    if pos == n - 1:
        return "last"
    return "middle"


# ------------------------------------------------------------------------------------------------
# execution against the live daemon
# ------------------------------------------------------------------------------------------------
class Outcome(object):
    __slots__ = ("results", "exc", "exc_at", "trailing", "returned_none", "returned_type", "snapshot", "snapshot_exc", "sent",
                 "not_raised")


def public_api_can_spell(calls):
    """names that can be written through BatchProxy's attribute syntax (getattr chain); dunders resolve on the local object"""
    for name, _args, kwargs in calls:
        parts = name.split(".")
        if any(p.startswith("__") and p != "__total__" for p in parts) or parts[0] in ("_pyroInvoke",) or "self" in kwargs:
            return False
    return True


def _guard(x):
    if isinstance(x, Pyro5.errors.TimeoutError):
        raise HarnessError("hang guard of %d s hit (no reply from the daemon): %r" % (HANG_GUARD_S, x))


def execute(case, api):
    from Pyro5 import client, core
    served = _served(case["servertype"])
    calls = [(name, tuple(copy.deepcopy(args)), copy.deepcopy(kwargs)) for name, args, kwargs in case["calls"]]
    oneway = bool(case["oneway"])
    obj = Ref()
    _oid[0] += 1
    oid = "c11.%d" % (_oid[0] % 3)     # ids are re-used for the next fresh object (each one is unregistered when its case is over)
    served.daemon.register(obj, oid)
    p = live.proxy(served.uri(oid), serializer=case["ser"], timeout=HANG_GUARD_S)
    out = Outcome()
    out.results, out.exc, out.exc_at, out.trailing = [], None, None, 0
    out.returned_none, out.returned_type, out.snapshot, out.snapshot_exc, out.not_raised = False, None, None, None, None
    try:
        p._pyroBind()       # connect first, so that "did the batch reach the daemon" is observable
        warm = case.get("warmup")
        wcalls = [(name, tuple(copy.deepcopy(args)), copy.deepcopy(kwargs)) for name, args, kwargs in (warm or {}).get("calls", [])]
        batch = client.BatchProxy(p)
        if warm:
            # an earlier batch on the same connection - through the SAME BatchProxy object for the public api (re-use is supported)
            if api in ("raw", "sequential"):
                p._pyroInvokeBatch(wcalls, bool(warm["oneway"]))
            else:
                for name, args, kwargs in wcalls:
                    getattr(batch, name)(*args, **kwargs)
                wr = batch(oneway=True) if warm["oneway"] else batch()
                if wr is not None and warm.get("consume", "now") == "now":
                    list(wr)        # ("late": its results are read only after the next batch was submitted; "never": not at all)
                    wr = None
        seq0 = p._pyroSeq   # the proxy advances its sequence number when (and only when) it builds a request message

        def do_raw():
            r = p._pyroInvokeBatch(calls, oneway)
            if r is None:
                out.returned_none = True
            elif not isinstance(r, list):
                out.returned_type = type(r).__name__
            else:
                for i, item in enumerate(r):
                    if isinstance(item, core._ExceptionWrapper):
                        try:
                            item.raiseIt()
                            out.not_raised = "raiseIt() of the exception wrapper at position %d returned normally" % i
                        except BaseException as x:      # noqa
                            out.exc, out.exc_at = x, i
                        out.trailing = len(r) - i - 1
                        break
                    out.results.append(item)

        def do_sequential():
            # the same calls made ONE BY ONE over the wire (the statement's own reference), stopping at the first failure.
            # (a member flagged @oneway would be carried out in a thread of its own, some time later: asked for synchronously here,
            #  so that "one after another" is what happens)
            p._pyroOneway = set()
            for i, (name, args, kwargs) in enumerate(calls):
                try:
                    out.results.append(p._pyroInvoke(name, args, kwargs))
                except BaseException as x:      # noqa
                    if isinstance(x, (HarnessError, KeyboardInterrupt, SystemExit)):
                        raise
                    _guard(x)
                    out.exc, out.exc_at = x, i
                    break

        def do_queue():
            for name, args, kwargs in calls:
                parts = name.split(".")
                m = getattr(batch, parts[0])
                for part in parts[1:]:
                    m = getattr(m, part)
                m(*args, **kwargs)

        def do_submit():
            gen = batch(oneway=oneway) if oneway else batch()
            if gen is None:
                out.returned_none = True
            elif not hasattr(gen, "__next__"):
                out.returned_type = type(gen).__name__
            else:
                limit = len(calls) + 3
                while limit:
                    limit -= 1
                    try:
                        item = next(gen)
                    except StopIteration:
                        break
                    except BaseException as x:      # noqa
                        if out.exc is not None:
                            out.trailing += 1       # a second exception after the first one
                            break
                        out.exc, out.exc_at = x, len(out.results)
                        continue     # a generator that raised is finished: the next next() must say StopIteration
                    if out.exc is not None:
                        out.trailing += 1
                    else:
                        out.results.append(item)

        def guarded(*steps):
            try:
                for step in steps:
                    step()
            except BaseException as x:      # noqa   raised by the submission itself
                if isinstance(x, (HarnessError, KeyboardInterrupt, SystemExit)):
                    raise
                out.exc, out.exc_at = x, "submit"

        style = case.get("style", "plain")
        if api == "raw":
            guarded(do_raw)
        elif api == "sequential":
            do_sequential()
        elif style == "with-inside":
            # the BatchProxy driven as a context manager, everything (also a failing submit, handled by the caller) inside the block
            with batch:
                guarded(do_queue, do_submit)
        elif style == "copy-diverge":
            # the first part of the calls is queued on a template, the template is copied, the rest is queued on the COPY and a decoy on
            # the template (which is never submitted): what the copy sends is its own queue only
            k = len(calls) // 2
            full = calls

            def queue_on(bp, part):
                for name, args, kwargs in part:
                    parts = name.split(".")
                    m = getattr(bp, parts[0])
                    for part_ in parts[1:]:
                        m = getattr(m, part_)
                    m(*args, **kwargs)

            def do_copy():
                nonlocal batch
                queue_on(batch, full[:k])
                template = batch
                batch = copy.copy(template)
                queue_on(batch, full[k:])
                template.incr(1000003)           # decoy: belongs to the template's queue, which nobody submits
            guarded(do_copy, do_submit)
        elif style == "with-after":
            # the block only builds the batch, it is submitted behind it
            with batch:
                guarded(do_queue)
            if out.exc is None:
                guarded(do_submit)
        else:
            guarded(do_queue, do_submit)
        out.sent = p._pyroSeq != seq0
        if warm and api == "batchproxy" and warm.get("consume") == "late" and wr is not None:
            try:
                list(wr)
            except Exception:
                pass
        if out.exc_at == "submit":
            _guard(out.exc)
        try:
            out.snapshot = p._pyroInvoke("snapshot", (), {})
        except BaseException as x:      # noqa
            if isinstance(x, (KeyboardInterrupt, SystemExit)):
                raise
            _guard(x)
            out.snapshot_exc = x
    finally:
        try:
            p._pyroRelease()
        except Exception:
            pass
        try:
            served.daemon.unregister(oid)
        except Exception:
            pass
    return out


# ------------------------------------------------------------------------------------------------
# oracle
# ------------------------------------------------------------------------------------------------
def _pub_vars(x):
    try:
        return {k: v for k, v in vars(x).items() if k != "_pyroTraceback"}
    except TypeError:
        return {}


def _short(v, n=90):
    r = repr(v)
    return r if len(r) <= n else r[:n] + "..."


def _exception_matches(ref, got):
    """-> None when `got` is the reference's exception as far as the statement (and the serializers) allow, else a description"""
    want = ref.exc
    if ref.fail_kind == "unsendable":
        return None         # (which error class the serializer's refusal arrives as is not the statement's business: any exception will do)
    if ref.fail_kind == "refused":
        if type(got) is AttributeError:
            return None
        return "refused name must fail with AttributeError, got %s(%s)" % (type(got).__name__, _short(got.args))
    if type(want) is UncarriedError:
        if isinstance(got, Pyro5.errors.SerializeError):
            return None
        return "exception of an unknown class must arrive as SerializeError, got %s(%s)" % (type(got).__name__, _short(got.args))
    if type(got) is not type(want):
        return "expected %s(%s), got %s(%s)" % (type(want).__name__, _short(want.args), type(got).__name__, _short(got.args))
    if type(want) in (TypeError, AttributeError):
        return None
    if not V.same(list(got.args), list(want.args)):
        return "%s arrived with args %s, raised with %s" % (type(want).__name__, _short(got.args), _short(want.args))
    if not V.same(_pub_vars(got), _pub_vars(want)):
        return "%s arrived with attributes %s, raised with %s" % (type(want).__name__, _short(_pub_vars(got)), _short(_pub_vars(want)))
    return None


def _state_family(ref_snap, snap):
    """root-cause class of a state difference, from the call logs"""
    try:
        rl, gl = ref_snap["log"], snap["log"]
    except Exception:
        return "state-unreadable"
    if len(gl) > len(rl):
        if any(e and e[0] in NEVER_RUN for e in gl if isinstance(e, list)):
            return "state:refused-member-ran"
        return "state:extra-calls-ran"
    if len(gl) < len(rl):
        return "state:calls-missing"
    if any(e and e[0] in NEVER_RUN for e in gl if isinstance(e, list)):
        return "state:refused-member-ran"
    return "state:differs"


def _image(ser, v):
    """what the serializer's documented mapping makes of a result: json and msgpack deliver tuples as lists"""
    if ser in ("json", "msgpack"):
        if isinstance(v, (tuple, list)):
            return [_image(ser, x) for x in v]
        if isinstance(v, dict):
            return {k: _image(ser, x) for k, x in v.items()}
    elif isinstance(v, tuple):
        return tuple(_image(ser, x) for x in v)
    elif isinstance(v, list):
        return [_image(ser, x) for x in v]
    return v


def judge(case, ref, out, api, seq=None):
    """-> list of (family, what)"""
    ext = bool(case.get("ext"))      # arguments beyond the lossless core: values are compared with the remote one-by-one run only
    n = len(case["calls"])
    oneway = bool(case["oneway"])
    tag = "%s/%s/%s%s batch of %d: " % (api, case["ser"], case["servertype"], "/oneway" if oneway else "", n)
    v = []

    def add(family, what):
        v.append((family, tag + what))

    fail_family = {"refused": "refused-name-exception", "raised": "method-exception-not-delivered", "unsendable": "unsendable-result-not-reported", None: None}[ref.fail_kind]
    if out.not_raised:
        add(fail_family or "spurious-exception", out.not_raised)
    if oneway:
        if out.exc is not None:
            add("oneway-raised" if out.sent else "batch-never-sent",
                "oneway batch raised %s(%s)" % (type(out.exc).__name__, _short(out.exc.args)))
        elif not out.returned_none:
            add("oneway-returned-value", "oneway batch returned %s with %d results instead of None" % (
                out.returned_type or "a result sequence", len(out.results)))
    else:
        if out.returned_none or out.returned_type:
            add("no-result-sequence", "normal batch returned %s instead of a result sequence" % (out.returned_type or "None"))
        elif out.exc_at == "submit":
            if ref.fail_pos is None:
                add("spurious-exception" if out.sent else "batch-never-sent",
                    "no call fails, but submitting raised %s(%s)%s" % (type(out.exc).__name__, _short(out.exc.args),
                                                                       "" if out.sent else " before anything reached the daemon"))
            else:
                why = _exception_matches(ref, out.exc)
                if why:
                    add(fail_family if out.sent else "batch-never-sent", "call %d fails; at submit: %s" % (ref.fail_pos, why))
        else:
            # a result sequence (possibly ended by an exception at a position)
            upto = min(len(out.results), len(ref.results))
            for i in range(upto):
                if seq is not None and i < len(seq.results) and not V.same(out.results[i], seq.results[i]):
                    add("result-aliased-by-later-call" if case["calls"][i][0] == "view" else "results-differ-from-one-by-one-calls", "result %d (%s) is %s, the same call made on its own (same serializer, identical object) returns %s" % (
                        i, case["calls"][i][0], _short(out.results[i]), _short(seq.results[i])))
                    break
                if not ext and not V.same(out.results[i], _image(case["ser"], ref.results[i])):
                    add("result-aliased-by-later-call" if case["calls"][i][0] == "view" else "results-differ", "result %d (%s) is %s, sequential run gives %s" % (
                        i, case["calls"][i][0], _short(out.results[i]), _short(ref.results[i])))
                    break
            if ref.fail_pos is None:
                if out.exc is not None:
                    add("spurious-exception", "no call fails, but position %s raised %s(%s)" % (
                        out.exc_at, type(out.exc).__name__, _short(out.exc.args)))
                elif len(out.results) != len(ref.results):
                    add("results-count", "%d results for %d calls" % (len(out.results), len(ref.results)))
            else:
                if out.exc is None:
                    add(fail_family, "call %d (%s) fails with %s in the sequential run, but the batch delivered %d results and no exception%s" % (
                        ref.fail_pos, case["calls"][ref.fail_pos][0], type(ref.exc).__name__, len(out.results),
                        "" if len(out.results) <= ref.fail_pos else " (item %d: %s)" % (ref.fail_pos, _short(out.results[ref.fail_pos]))))
                else:
                    if out.exc_at != ref.fail_pos:
                        add("failure-position", "call %d fails in the sequential run, the batch raised %s at position %s" % (
                            ref.fail_pos, type(out.exc).__name__, out.exc_at))
                    why = _exception_matches(ref, out.exc)
                    if why:
                        if (api == "batchproxy" and type(ref.exc) is StopIteration and type(out.exc) is RuntimeError
                                and isinstance(out.exc.__cause__, StopIteration)):
                            add("stopiteration-in-result-generator", "call %d raises StopIteration; the BatchProxy result generator turns it "
                                "into RuntimeError(%s)" % (ref.fail_pos, _short(out.exc.args)))
                        else:
                            add(fail_family, "call %d (%s): %s" % (ref.fail_pos, case["calls"][ref.fail_pos][0], why))
                    if out.trailing:
                        add("results-after-failure", "%d more item(s) delivered after the failure at position %s" % (out.trailing, out.exc_at))
    # state
    if out.snapshot_exc is not None:
        add("snapshot-call-failed", "normal call after the batch raised %s(%s)" % (
            type(out.snapshot_exc).__name__, _short(out.snapshot_exc.args)))
    elif out.exc_at == "submit" and not out.sent and any(f == "batch-never-sent" for f, _ in v):
        pass    # nothing reached the daemon: the state difference is the same root cause
    elif ref.fail_kind == "unsendable" and not V.same(out.snapshot, ref.snapshot) and _state_family(ref.snapshot, out.snapshot) == "state:extra-calls-ran":
        add("unsendable-result-does-not-stop-batch", "a member's result cannot be serialised (the same call made on its own fails, nothing after it is made): the batch "
            "went on with the calls behind it: %s" % (V.describe_diff(out.snapshot, ref.snapshot),))
    elif not ext and not V.same(out.snapshot, ref.snapshot):
        fam = _state_family(ref.snapshot, out.snapshot)
        add(fam + (":oneway" if oneway else ""), "remote object after the batch differs from the sequential run: %s" % (
            V.describe_diff(out.snapshot, ref.snapshot),))
    elif seq is not None and seq.snapshot_exc is None and not V.same(out.snapshot, seq.snapshot):
        add(_state_family(seq.snapshot, out.snapshot) + ":vs-one-by-one-calls" + (":oneway" if oneway else ""),
            "remote object after the batch differs from an identical object that got the same calls one by one over the wire: %s" % (
                V.describe_diff(out.snapshot, seq.snapshot),))
    return v


def run_case(case):
    _setup()
    if "long" in case and "calls" not in case:
        # compact form of a very long batch: [length, position of the failing member or None]
        n, fail_at = case["long"]
        calls = [["incr", [1], {}] for _ in range(n)]
        if fail_at is not None:
            calls[fail_at] = ["fail_if", [True, "value", "boom at %d" % fail_at, 0], {}]
        case = dict(case, calls=calls)
    if case["ser"] not in SERIALIZERS or case["servertype"] not in ("thread", "multiplex") or len(case["calls"]) > 5000:
        raise HarnessError("malformed case")
    ref = reference(case["calls"], case.get("warmup"))
    msuffix = ":marshal" if case["ser"] == "marshal" else ""     # MarshalSerializer has its own conversion path for results
    viols = []
    seen = set()
    seq = execute(case, "sequential")
    if seq.exc is not None and ref.fail_pos is None:
        seq = None       # (the one-by-one run failed where nothing fails: single calls are C01/C07's business, no reference here)
    for family, what in judge(case, ref, execute(case, "raw"), "raw", seq):
        if family not in seen:
            seen.add(family)
            viols.append(Violation("C11:%s%s" % (family, msuffix if family == "method-exception-not-delivered" else ""), what))
    if public_api_can_spell(case["calls"]):
        for family, what in judge(case, ref, execute(case, "batchproxy"), "batchproxy", seq):
            if family not in seen:      # something only the BatchProxy layer does wrong
                seen.add(family)
                viols.append(Violation("C11:%s:batchproxy%s" % (family, msuffix if family == "method-exception-not-delivered" else ""), what))
    return viols


# ------------------------------------------------------------------------------------------------
# generators  (kept lean: Hypothesis costs ~0.5 ms per draw here, an execution ~4 ms)
# ------------------------------------------------------------------------------------------------
VALUE_POOL = [None, True, False, 0, 1, -1, 7, 255, 2**31, -2**63, 2**64, 2**70, -2**100 - 3, 10**40, 0.0, -0.0, 1.5, -2.25, 1e300, 5e-324,
              float("inf"), float("-inf"), float("nan"), "", "a", "x y", "é漢", "\x00", "'\"\\", "\U0001f600", "line\nbreak", "None", "__class__",
              [], [1, 2, 3], [None, [True, [0.5, "deep"]]], ["a", {"b": [1, {"c": None}]}], {}, {"k": "v"}, {"a": 1, "é": [2.5, None], "": {}},
              {"n": 2**80, "f": float("nan")}, [[], {}, ""], "z" * 300]
small_values = st.one_of(st.sampled_from(VALUE_POOL), st.sampled_from(VALUE_POOL), st.sampled_from(VALUE_POOL), V.core_values(max_leaves=3))
NUMBER_POOL = [0, 1, 1, 2, 3, -1, -5, 10, 17, 2**31, 2**63, 2**64, 2**70, -2**70, 2**100 + 7, 10**40, 0.5, -1.25, 1e16, 1e300, -0.0,
               float("inf"), float("-inf"), float("nan"), True, False]
numbers = st.one_of(st.sampled_from(NUMBER_POOL), st.sampled_from(NUMBER_POOL), st.integers(-2**66, 2**66), st.floats(allow_nan=False, width=32))
small_ints = st.sampled_from([0, 1, 2, -1, 7, 42, 2**31, 2**63, 2**64, 2**70, -2**70, 2**100 + 7, 10**40])
KEY_POOL = ["a", "b", "k", 1, True, None, "é"]
dict_keys = st.one_of(st.sampled_from(KEY_POOL), st.sampled_from(KEY_POOL),
                      st.sampled_from(KEY_POOL + ["", "__class__", "a b", 0, -1, 2, False, "\x00", "漢字", 2**70]),
                      st.text(alphabet=st.characters(exclude_categories=("Cs",)), max_size=4))
messages = st.one_of(st.sampled_from(["boom", "boom", "", "é漢", "it's \"quoted\"\\", "\x00", "line\nbreak", "\U0001f600"]),
                     st.text(alphabet=st.characters(exclude_categories=("Cs",)), max_size=8))
kw_names = st.sampled_from(["a", "b", "x", "n", "k", "v", "kind", "_u", "été", "名", "αβ", "class_", "def", "K9"])
POS_PARAMS = {"note": ["x"], "pair": ["a", "b"], "pairs": ["a"], "__total__": ["n"], "incr": ["n"], "append": ["x"], "put": ["k", "v"], "get": ["k"], "fail_if": ["flag", "kind", "msg", "code"]}


def _fixed(name, *arg_strategies):
    """call of a fixed-signature method with a generated positional / keyword split of its arguments"""
    names = POS_PARAMS[name]

    def build(t):
        cut, vals = t[0], t[1:]
        return [name, list(vals[:cut]), dict(zip(names[cut:], vals[cut:]))]
    return st.tuples(st.integers(0, len(arg_strategies)), *arg_strategies).map(build)


_incr = _fixed("incr", numbers)
_append = _fixed("append", small_values)
_put = _fixed("put", dict_keys, small_values)
_get = _fixed("get", dict_keys)
_echo = st.tuples(st.lists(small_values, max_size=3), st.dictionaries(kw_names, small_values, max_size=3)).map(lambda t: ["echo", t[0], t[1]])
_fail_no = _fixed("fail_if", st.sampled_from([False, 0, "", None, [], 0.0]), st.sampled_from(FAIL_KINDS), messages, small_ints)
_total = _fixed("__total__", small_ints)
_note = _fixed("note", small_values)
_pair = _fixed("pair", small_values, small_values)
_pairs = _fixed("pairs", small_values)
benign_call = st.one_of(st.just(["view", [], {}]), _total, _note, _pair, _pairs, _incr, _incr, st.just(["incr", [], {}]), _append, _append, _put, _put, _put, _get, _echo, _echo, _fail_no,
                        st.just(["snapshot", [], {}]))

_raise = _fixed("fail_if", st.sampled_from([True, 1, "x", [0], -1.5, {"a": None}]),
                st.sampled_from(FAIL_KINDS + ("valueattr", "valueattr", "carried", "carried", "uncarried", "stopiter", "customwire", "customwire")), messages, small_ints)
_refused = st.tuples(st.sampled_from(REFUSED_NAMES + ("hidden", "_private", "__secret__", "incr.x", "snapshot.log", "incr.x", "secret_prop", "open_prop", "secret_prop", "open_prop")), st.lists(small_values, max_size=2), st.dictionaries(kw_names, small_values, max_size=1)).map(list)
_missing = _fixed("get", st.sampled_from(["missing", "☃", -99, None]))
_signature = st.tuples(st.integers(0, 6), small_values).map(
    lambda t: [["incr", ["x"], {}], ["incr", [1, 2], {}], ["put", [t[1]], {}], ["incr", [], {"bogus": t[1]}], ["put", [[1], t[1]], {}],
               ["append", [], {}], ["get", [t[1]], {"self": 1}]][t[0]])
_unsendable = st.sampled_from([["unsendable", [], {}], ["unsendable", ["nested"], {}]])
failing_call = st.one_of(_raise, _raise, _raise, _raise, _refused, _refused, _refused, _missing, _signature, _unsendable)


@st.composite
def case_strategy(draw, ser, servertype):
    size = draw(st.integers(0, 10))
    calls = [copy.deepcopy(c) for c in draw(st.lists(benign_call, min_size=size, max_size=size))]
    # benign lookups hit a key that an earlier member stored (otherwise unplanned KeyErrors would dominate the failure classes)
    stored = {}
    for c in calls:
        if c[0] in ("put", "get"):
            k = c[1][0] if c[1] else c[2]["k"]
            if c[0] == "put":
                stored[k] = True
            elif k not in stored:
                if stored:
                    k = list(stored)[-1]
                    if c[1]:
                        c[1][0] = k
                    else:
                        c[2]["k"] = k
                else:
                    c[0], c[1], c[2] = "put", [k, [k]], {}
                    stored[k] = True
    mode = draw(st.sampled_from(["none", "first", "middle", "middle", "last", "any", "any", "two"]))
    n = len(calls)
    if mode != "none":
        f = copy.deepcopy(draw(failing_call))
        if n == 0:
            calls = [f]
        elif mode == "first":
            calls[0] = f
        elif mode == "last":
            calls[n - 1] = f
        elif mode == "middle" and n >= 3:
            calls[draw(st.integers(1, n - 2))] = f
        else:
            calls[draw(st.integers(0, n - 1))] = f
            if mode == "two" and n >= 2:
                calls[draw(st.integers(0, n - 1))] = copy.deepcopy(draw(failing_call))
    case = {"ser": ser, "servertype": servertype, "oneway": draw(st.booleans()), "calls": calls}
    style = draw(st.sampled_from(["plain", "plain", "with-inside", "with-after", "copy-diverge"]))
    if style != "plain":
        case["style"] = style
    if draw(st.integers(0, 2)) == 0:
        # values beyond the lossless core (whatever this serializer carries: bytes, tuples, sets, ...) stored and handed back by members
        k = draw(st.sampled_from(["e1", "e2"]))
        from checks.c01_values import ext_values, ext_leaves
        x = draw(st.one_of(ext_leaves(ser), ext_values(ser)))      # (a bare leaf such as bytes is a value too: half of the draws)
        extra = [["put", [k, x], {}], ["get", [k], {}], ["pair", [x], {}], ["append", [], {"x": x}]]
        take = draw(st.sampled_from([[0, 1], [0, 1], [0, 1, 2], [0, 1, 3], [2], [3], [2, 3]]))
        at = draw(st.integers(0, len(calls)))
        calls[at:at] = [copy.deepcopy(extra[i]) for i in take]
        case["ext"] = True
    if draw(st.integers(0, 3)) == 0:
        wc = [copy.deepcopy(c) for c in draw(st.lists(st.one_of(_incr, _append, _echo, _total), min_size=1, max_size=3))]
        case["warmup"] = {"calls": wc, "oneway": draw(st.booleans()), "consume": draw(st.sampled_from(["now", "late", "never"]))}
    return case


def long_cases(ser, servertype):
    """batches far longer than anything a test uses: a failing member around the 1000/2000 marks and elsewhere, both modes"""
    for n, fail_at in ((1001, None), (1001, 999), (1001, 1000), (1500, 999), (2001, 1999), (2001, 500), (1200, 1001), (2500, 2000)):
        for oneway in (False, True):
            yield {"ser": ser, "servertype": servertype, "oneway": oneway, "long": [n, fail_at]}


def _first_fail(case):
    for i, c in enumerate(case["calls"]):
        if c[0] == "fail_if":
            return i
    return None


def _nontrivial(case):
    if case["oneway"]:
        return True
    ref = reference(case["calls"])
    return len(case["calls"]) >= 2 and ref.fail_pos is not None and ref.fail_pos < len(case["calls"]) - 1


def _labels(case):
    ref = reference(case["calls"])
    n = len(case["calls"])
    labels = ["ser:" + case["ser"], "servertype:" + case["servertype"], "oneway" if case["oneway"] else "normal",
              "failure-position:" + _position_class(n, ref.fail_pos),
              "api:raw+batchproxy" if public_api_can_spell(case["calls"]) else "api:raw-only"]
    if n == 0:
        labels.append("empty-batch")
    if ref.fail_pos is not None:
        labels.append("has-failure")
        labels.append("failure:" + ref.fail_kind)
        if ref.fail_kind == "raised":
            labels.append("raised:" + type(ref.exc).__name__)
        if ref.fail_pos < n - 1:
            labels.append("calls-after-failure")
    if any(k for _n, _a, k in case["calls"]):
        labels.append("has-kwargs")
    if case.get("warmup"):
        labels.append("batchproxy-reused-after-%s-batch" % ("oneway" if case["warmup"]["oneway"] else "normal"))
    if case.get("style"):
        labels.append("batchproxy-as-context-manager:" + case["style"])
    if case.get("ext"):
        labels.append("values-beyond-the-lossless-core")
    return labels


def SHARDS(tier):
    return [{"ser": ser, "servertype": stype, "part": part} for part in (0, 1) for stype in ("thread", "multiplex") for ser in SERIALIZERS]


def run(ctx):
    ser = ctx.shard.get("ser", "serpent")
    stype = ctx.shard.get("servertype", "thread")
    try:
        _served(stype)
        if ctx.shard.get("part", 0) == 1:
            for case in long_cases(ser, stype):
                ctx.observe(case, run_case(case), True, ["long-batch", "oneway" if case["oneway"] else "normal"])
        ctx.search(case_strategy(ser, stype), run_case, ctx.n(450, 15000), nontrivial=_nontrivial, labels=_labels,
                   name="batch", max_rounds=4)
    finally:
        _stop_all()
