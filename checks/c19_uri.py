"""C19 - URIs have one canonical text form that parses back to the same URI.

Domain : strings from the URI grammar and its near-misses (structured generator with an independently computed
         expectation for the clean subset, plus free-form near-miss strings), pairs of different locations.
Oracle : parse -> str -> parse is accepted, equal (field by field, not only via __eq__), str is a fixed point,
         equal URIs hash equal, different locations compare unequal, and the URI survives the four serializers,
         the Proxy state path and NameServer.register/lookup; and (ns-live shards) registered with and retrieved from a name
         server behind a real daemon by a remote client (memory and sqlite back-end, every serializer, special hosts such as
         0.0.0.0 / localhost / :: that a name server might be tempted to rewrite for the asking client).
"""
import copy

from hypothesis import strategies as st

from vlib.driver import Violation

PROPERTY = "C19"
LEVEL = "exploration"
RULE = ("cases are URI strings built by a grammar-based Hypothesis generator (protocol in any letter case, object names "
        "with @ and punctuation, hostnames/IPv4/bracketed IPv6/empty host, ports in every form int() accepts, "
        "missing/default ports, unix socket paths, PYROMETA tag lists) or free-form near-miss strings, plus pairs of "
        "locations; a case is non-trivial when the parser ACCEPTS the string and it carries an explicit location or a "
        "PYROMETA tag list (or is a location pair); distinct = distinct case JSON")
ASSUMPTIONS = ["Python's own int() defines which port spellings are numbers",
               "the reference expectation is only computed for the clean sub-grammar (no '@', ':' or whitespace inside object/host)"]

NS_PORT = 9090   # documented default (config.NS_PORT); asserted against the live config in run()

# ------------------------------------------------------------------------------------------------
# generators
# ------------------------------------------------------------------------------------------------

def _anycase(word):
    return st.lists(st.booleans(), min_size=len(word), max_size=len(word)).map(
        lambda bs: "".join(c.upper() if b else c.lower() for c, b in zip(word, bs)))


protocols = st.one_of(
    st.sampled_from(["PYRO", "PYRONAME", "PYROMETA", "pyro", "pyroname", "pyrometa", "Pyro", "PyroName", "pyroMETA"]),
    _anycase("PYRO"), _anycase("PYRONAME"), _anycase("PYROMETA"),
)
bad_protocols = st.sampled_from(["PYR", "PYROX", "PYRONAMES", "PYROLOC", "pyro ", " PYRO", "PYRO1", "", "HTTP", "PYROMETAX", "pyrOı"])

OBJ_ALPHA = "abcXYZ019._-!$%^&*()+=~;,'\"\\/<>?#|{}[]éß漢\U0001f600"
clean_objects = st.text(alphabet=OBJ_ALPHA, min_size=1, max_size=8)
messy_objects = st.one_of(
    st.text(alphabet=OBJ_ALPHA + "@:", min_size=1, max_size=8),
    st.sampled_from(["a@", "@", "@@", "a@b", "obj:1", "Pyro.NameServer", "a b", "", " ", "a\n", "\tx", "a b", "x@y@z"]),
)
tag = st.text(alphabet="abAB01._-é", min_size=0, max_size=3)
tag_lists = st.one_of(
    st.lists(tag, min_size=1, max_size=4).map(",".join),
    st.sampled_from([",", ",,", "a,", ",a", "a,a", "a,,b", "a,b,a", "b,a", "a,b", "a,B,A,b"]),
    st.lists(st.sampled_from(["a", "b", "c", "d", "e", "f", "g", "h", "i", "aa", "ab", "ba", "q1", "q2", "q3", "z9"]),
             min_size=2, max_size=9).map(",".join),
)

clean_hosts = st.one_of(
    st.sampled_from(["localhost", "h", "example.com", "127.0.0.1", "0.0.0.0", "255.255.255.255", "a-b.c", "xn--bcher-kva.de",
                     "HOST", "Host.Example", "ü.example", "漢"]),
    st.text(alphabet="abcxyz019.-", min_size=1, max_size=10),
    st.just(""),          # empty host
)
messy_hosts = st.one_of(
    st.sampled_from([" h", "h ", "a@b", "a b", "[", "]", "h\n", "./u", "./u:", ".", "@", " "]),
    st.text(alphabet="ab.@ []/", min_size=0, max_size=6),
)
port_texts = st.one_of(
    st.integers(0, 70000).map(str),
    st.sampled_from(["0", "1", "80", "9090", "65535", "65536", "00080", "+5", "-5", " 5", "5 ", " 5 ", "5_5", "1_000",
                     "٥٥", "०१", "５", "5٥", "", "abc", "5a", "0x10", "1e3", "5.0", "--5", "+", "_5", "5_",
                     "\n5", "5\n", "99999999999999999999", ":5", "5:6", "-99999999999999999999", "-9223372036854775809", "-9223372036854775808",
                     "18446744073709551616", "18446744073709551615", "-1180591620717411303424", "1" + "0" * 40, "-" + "7" * 30]),
)
ipv6_hosts = st.one_of(
    st.sampled_from(["::1", "::", "fe80::1", "2001:db8::1", "1:2:3:4:5:6:7:8", "::ffff:127.0.0.1".replace(".", ":"), "fe80::1%1",
                     "abc", "0", "%", "::%", "FE80::A"]),
    st.text(alphabet="0123456789abcdefABCDEF:%", min_size=1, max_size=12),
)
bad_ipv6 = st.sampled_from(["[[::1]]:5", "[]:5", "[xyz]:5", "[::1", "[::1]5", "[::1]:", "[::1]:x", "[::1]:5junk", "[::1]junk",
                            "[::1]:+5", "[::1]: 5", "[::1]:٥", "[::1%eth0]:5", "[::1] :5"])
socknames = st.one_of(
    st.sampled_from(["/tmp/s", "s", "a b", "@abstract", "./x", "é", "a@b", "\x00abs"]),
    st.text(alphabet="abc/._-@ é", min_size=1, max_size=10),
)
bad_socknames = st.sampled_from(["", "a:b", ":", "x:"])


@st.composite
def structured(draw):
    """a case with components; 'clean' means the reference expectation below is valid for it"""
    proto = draw(protocols)
    P = proto.upper()
    if P == "PYROMETA":
        obj = draw(tag_lists)
    else:
        obj = draw(clean_objects)
    kind = draw(st.sampled_from(["tcp", "tcp", "tcp", "ipv6", "unix", "none", "hostonly"]))
    loc = None
    if kind == "tcp":
        loc = draw(clean_hosts) + ":" + draw(port_texts)
    elif kind == "hostonly":
        loc = draw(clean_hosts)
    elif kind == "ipv6":
        h = draw(ipv6_hosts)
        p = draw(st.one_of(st.none(), st.integers(0, 70000).map(str), st.sampled_from(["٥٥", "0", "007"])))
        loc = "[" + h + "]" + ("" if p is None else ":" + p)
    elif kind == "unix":
        loc = "./u:" + draw(socknames)
    s = proto + ":" + obj + ("" if loc is None else "@" + loc)
    return {"s": s}


@st.composite
def near_miss(draw):
    proto = draw(st.one_of(protocols, bad_protocols))
    obj = draw(st.one_of(clean_objects, messy_objects, tag_lists))
    locs = st.one_of(
        st.none(),
        st.tuples(st.one_of(clean_hosts, messy_hosts), port_texts).map(lambda t: t[0] + ":" + t[1]),
        st.one_of(clean_hosts, messy_hosts),
        bad_ipv6,
        st.tuples(ipv6_hosts, port_texts).map(lambda t: "[" + t[0] + "]:" + t[1]),
        socknames.map(lambda n: "./u:" + n),
        bad_socknames.map(lambda n: "./u:" + n),
        st.sampled_from(["", " ", "@", ":", "::", "./u", "./U:x", "h:5@x", "h:5 ", "h:5\n", "\n"]),
    )
    loc = draw(locs)
    sep = draw(st.sampled_from([":", ":", ":", "", "::", " :"]))
    s = proto + sep + obj + ("" if loc is None else "@" + loc)
    suffix = draw(st.sampled_from(["", "", "", "\n", " ", "\x00"]))
    return {"s": s + suffix}


pair_hosts = st.one_of(st.sampled_from(["localhost", "h", "127.0.0.1", "a.b", "", "::1", "fe80::1", "server.example.com", "fe80::ab"]),
                       st.text(alphabet="abc01.-", min_size=1, max_size=6))


@st.composite
def loc_pair(draw):
    def one():
        if draw(st.integers(0, 3)) == 0:
            return {"sock": draw(st.text(alphabet="abc/._", min_size=1, max_size=5))}
        return {"host": draw(pair_hosts), "port": draw(st.one_of(st.integers(0, 65535), st.sampled_from([0, 1, 9090, 9091, 65535])))}
    a = one()
    b = one() if draw(st.booleans()) else copy.deepcopy(a)
    if draw(st.booleans()) and "host" in a and "host" in b:
        b["host"] = a["host"]          # same host, maybe different port
    proto = draw(st.sampled_from(["PYRO", "PYRONAME", "PYROMETA"]))
    obj = draw(st.sampled_from(["obj", "a,b", "x.y"]))
    if draw(st.integers(0, 3)) == 0 and "host" in a:
        # the same location spelled with other letter case: whether such URIs are equal is the library's choice,
        # but IF they compare equal they must hash equal
        b = dict(a, host="".join(c.upper() if i % 2 else c for i, c in enumerate(a["host"])))
        return {"pair": [a, b], "proto": proto, "obj": obj, "casevariant": True}
    return {"pair": [a, b], "proto": proto, "obj": obj}


def case_strategy():
    return st.one_of(structured(), structured(), near_miss(), loc_pair())


# ------------------------------------------------------------------------------------------------
# reference expectation for the clean sub-grammar
# ------------------------------------------------------------------------------------------------

def expected_fields(s):
    """-> ('reject',) | ('accept', protocol, object, sockname, host, port) | None when s is outside the clean sub-grammar"""
    if any(c.isspace() or c == "\x00" for c in s):
        return None
    head, sep, rest = s.partition(":")
    if not sep or not head.isascii() or head.upper() not in ("PYRO", "PYRONAME", "PYROMETA"):
        return None
    P = head.upper()
    obj, at, loc = rest.partition("@")
    if not obj or "@" in loc:
        return None
    if not at:
        loc = None
    elif loc == "":
        return None    # 'obj@' : object name swallows the '@' - outside the clean subset
    objval = obj if P != "PYROMETA" else set(m.strip() for m in obj.split(","))
    default = None if P == "PYRO" else NS_PORT
    if loc is None:
        if P == "PYRO":
            return ("reject",)
        return ("accept", P, objval, None, None, None)
    if loc.startswith("./u:"):
        name = loc[4:]
        if not name or ":" in name:
            return ("reject",)
        return ("accept", P, objval, name, None, None)
    if loc.startswith("["):
        return None
    host, colon, ptxt = loc.partition(":")
    if ":" in ptxt:
        return ("reject",)
    if ptxt == "":
        if default is None:
            return ("reject",)
        return ("accept", P, objval, None, host, default)
    try:
        port = int(ptxt)
    except ValueError:
        return ("reject",)
    return ("accept", P, objval, None, host, port)


# ------------------------------------------------------------------------------------------------
# the property
# ------------------------------------------------------------------------------------------------

def _fields(u):
    obj = u.object
    if u.protocol == "PYROMETA":
        try:
            obj = ("set", tuple(sorted(obj)))
        except TypeError:
            obj = ("unsortable", repr(obj))
    return (u.protocol, obj, u.sockname, u.host, u.port)


def _feature(u):
    if u.protocol == "PYROMETA":
        try:
            if all(t == "" for t in u.object):
                return "pyrometa-emptytags"
            if any("@" in t for t in u.object):
                return "pyrometa-at-in-tag"
        except TypeError:
            pass
    if u.host == "./u":
        return "host-dotslashu"
    if u.protocol == "PYROMETA":
        return "pyrometa"
    if u.host == "":
        return "emptyhost"
    if u.host is not None and ":" in u.host:
        return "ipv6"
    if u.sockname:
        return "unixsock"
    return "plain"


def check_uri_string(s):
    from Pyro5 import core, client, serializers, nameserver
    viols = []
    exp = expected_fields(s)
    try:
        u = core.URI(s)
    except Exception:
        if exp is not None and exp[0] == "accept":
            viols.append(Violation("C19:reference:rejects-valid", "URI(%r) rejected but the grammar says it designates %r" % (s, exp[1:])))
        return viols, False
    feat = _feature(u)

    FAMILY = {"text-form-rejected": "text", "reparse-differs": "text", "reparse-unequal": "text", "text-not-fixed-point": "text",
              "str-raises": "text", "unhashable": "hash", "equal-but-hash-differs": "hash", "copy-differs": "copy",
              "copy-raises": "copy", "accepts-invalid": "parse", "parse-differs-from-reference": "parse"}

    def V(failure, what):
        # signature = feature of the URI x failure family (root-cause key); the detailed failure is in the text
        base = failure.split(":")[0]
        fam = FAMILY.get(base)
        if fam is None:
            fam = "proxy" if base.startswith("proxy") else "nameserver" if base.startswith("nameserver") else "serializer"
        viols.append(Violation("C19:%s:%s" % (feat, fam), "URI(%r): %s: %s" % (s, failure, what)))

    if exp is not None:
        if exp[0] == "reject":
            V("accepts-invalid", "accepted but the grammar says it must be rejected; parsed as %r" % (_fields(u),))
        else:
            want = (exp[1], ("set", tuple(sorted(exp[2]))) if exp[1] == "PYROMETA" else exp[2], exp[3], exp[4], exp[5])
            if _fields(u) != want:
                V("parse-differs-from-reference", "parsed %r, reference %r" % (_fields(u), want))
    try:
        t = str(u)
    except Exception as x:
        V("str-raises", "str() raised %r" % (x,))
        return viols, True
    try:
        u2 = core.URI(t)
    except Exception as x:
        V("text-form-rejected", "text form %r is rejected: %r" % (t, x))
        return viols, True     # proxy state and name server go through the text form: same root cause
    text_ok_before = len([v for v in viols if v.signature.endswith(":text")])
    if u2 is not None:
        if _fields(u2) != _fields(u):
            V("reparse-differs", "text form %r parses to %r, original %r" % (t, _fields(u2), _fields(u)))
        elif not (u2 == u) or (u2 != u):
            V("reparse-unequal", "text form %r parses to a URI that compares unequal" % (t,))
        try:
            t2 = str(u2)
            if t2 != t:
                V("text-not-fixed-point", "str(URI(%r)) = %r" % (t, t2))
        except Exception as x:
            V("str-raises", "str() of reparsed raised %r" % (x,))
    if len([v for v in viols if v.signature.endswith(":text")]) > text_ok_before:
        return viols, True     # proxy state and name server go through the text form: same root cause
    # hashing
    try:
        h = hash(u)
    except Exception as x:
        V("unhashable", "hash() raised %r" % (x,))
        h = None
    if h is not None and u2 is not None and u2 == u:
        try:
            if hash(u2) != h:
                V("equal-but-hash-differs", "equal URIs with different hashes")
        except Exception as x:
            V("unhashable", "hash() of reparsed raised %r" % (x,))
    # copy constructor
    try:
        uc = core.URI(u)
        if _fields(uc) != _fields(u) or not (uc == u):
            V("copy-differs", "URI(uri) copy differs")
    except Exception as x:
        V("copy-raises", "URI(uri) raised %r" % (x,))
    # serializers
    for name, ser in sorted(serializers.serializers.items()):
        try:
            back = ser.loads(ser.dumps(u))
        except Exception as x:
            V("serializer-raises:" + name, "%s round trip raised %r" % (name, x))
            continue
        if not isinstance(back, core.URI):
            V("serializer-type:" + name, "%s round trip gives %r" % (name, type(back)))
            continue
        if _fields(back) != _fields(u):
            V("serializer-differs:" + name, "%s round trip gives %r, sent %r" % (name, _fields(back), _fields(u)))
        elif not (back == u):
            V("serializer-unequal:" + name, "%s round trip gives a URI that compares unequal (object %r vs %r)" % (name, back.object, u.object))
        else:
            try:
                if str(back) != t:
                    V("serializer-text-differs:" + name, "%s: text %r vs %r" % (name, str(back), t))
            except Exception as x:
                V("str-raises", "str() after %s raised %r" % (name, x))
        # call-argument path
        try:
            _o, _m, va, kw = ser.loadsCall(ser.dumpsCall("o", "m", (u,), {"k": u}))
            for back in (va[0], kw["k"]):
                if not isinstance(back, core.URI) or _fields(back) != _fields(u) or not (back == u):
                    V("serializer-call-differs:" + name, "%s call path gives %r" % (name, back))
        except Exception as x:
            V("serializer-raises:" + name, "%s call path raised %r" % (name, x))
    # a PYROMETA uri whose tag set is changed IN PLACE after its text form was taken once: the text form follows
    def _plain(tags):
        return all(x and not set(x) & set("@, \t\n") for x in tags)
    if u.protocol == "PYROMETA" and isinstance(u.object, set) and len(u.object) >= 1 and _plain(u.object):
        # (the degenerate spellings - empty tags, '@' or ',' inside a tag - have findings of their own and are left out here)
        try:
            m = copy.copy(u)
            str(m)
            m.object.add("zz9")
            m.object.discard(sorted(m.object)[0])
            t2 = str(m)
            back = core.URI(t2)
            if not (back == m) or _fields(back) != _fields(m):
                V("text-stale-after-in-place-change", "after tags were added/discarded in place str() gives %r which parses to %r, the uri now is %r" % (t2, _fields(back), _fields(m)))
            for name, ser in sorted(serializers.serializers.items()):
                pb = ser.loads(ser.dumps(client.Proxy(m)))
                if not (pb._pyroUri == m):
                    V("proxy-serializer-differs:" + name, "proxy of a uri whose tags were changed in place arrives designating %r, sent %r" % (_fields(pb._pyroUri), _fields(m)))
                    break
        except Exception as x:
            if "text-form-rejected" not in repr(viols) and sorted(getattr(u, "object", [])) not in ([], [""]):
                V("in-place-change-raises", "changing the tag set in place and printing raised %r" % (x,))
    # proxy state path
    try:
        p = client.Proxy(u)
        if _fields(p._pyroUri) != _fields(u):
            V("proxy-differs", "Proxy(uri)._pyroUri differs")
        pc = copy.copy(p)
        if _fields(pc._pyroUri) != _fields(u) or not (pc._pyroUri == u):
            V("proxy-copy-differs", "copy of proxy designates %r" % (_fields(pc._pyroUri),))
        for name, ser in sorted(serializers.serializers.items()):
            back = ser.loads(ser.dumps(p))
            if not isinstance(back, client.Proxy):
                V("proxy-serializer-type:" + name, "proxy through %s gives %r" % (name, type(back)))
            elif _fields(back._pyroUri) != _fields(u) or not (back._pyroUri == u):
                V("proxy-serializer-differs:" + name, "proxy through %s designates %r, sent %r" % (name, _fields(back._pyroUri), _fields(u)))
            elif not (back == p) or hash(back) != hash(p):
                V("proxy-serializer-unequal:" + name, "proxy through %s compares unequal / hashes differently" % name)
    except Exception as x:
        V("proxy-path-raises", "proxy state path raised %r" % (x,))
    # name server path
    try:
        ns = nameserver.NameServer()
        # every name first holds ANOTHER uri (same tags) and is asked for through all retrieval paths; then the uri under test is
        # registered over it: what the name server hands out afterwards must be the uri stored last
        for n in ("n1", "n2", "n3"):
            ns.register(n, "PYRO:decoy@decoy.host:1", metadata={"tag"})
            ns.lookup(n), ns.list(prefix=n), ns.yplookup(meta_all={"tag"}, return_metadata=False), ns.yplookup(meta_any=["tag"])
        ns.register("n1", u, metadata={"tag"})
        ns.register("n2", s, metadata={"tag"})
        ns.register("n3", t, metadata={"tag"})
        for n in ("n1", "n2", "n3"):
            for how, back in (("lookup", ns.lookup(n)), ("list", ns.list(prefix=n).get(n)), ("yplookup", ns.yplookup(meta_all={"tag"}, return_metadata=False).get(n)),
                              ("yplookup+metadata", ns.yplookup(meta_any=["tag"]).get(n, (None,))[0])):
                back = core.URI(back) if isinstance(back, str) else back
                if back is None or _fields(back) != _fields(u) or not (back == u):
                    V("nameserver-differs", "NameServer %s(%s) gives %r, registered %r" % (how, n, back if back is None else _fields(back), _fields(u)))
                    break
    except Exception as x:
        V("nameserver-raises", "name server path raised %r" % (x,))
    return viols, True


def _loc_text(l):
    if "sock" in l:
        return "./u:" + l["sock"]
    h = l["host"]
    if ":" in h:
        return "[%s]:%d" % (h, l["port"])
    return "%s:%d" % (h, l["port"])


def check_pair(case):
    from Pyro5 import core
    a, b = case["pair"]
    sa = "%s:%s@%s" % (case["proto"], case["obj"], _loc_text(a))
    sb = "%s:%s@%s" % (case["proto"], case["obj"], _loc_text(b))
    viols = []
    try:
        ua, ub = core.URI(sa), core.URI(sb)
    except Exception as x:
        return [Violation("C19:pair:rejected", "clean location rejected: %r / %r: %r" % (sa, sb, x))]
    if case.get("casevariant"):
        if ua == ub:
            try:
                if hash(ua) != hash(ub):
                    viols.append(Violation("C19:pair:equal-but-hash-differs", "%r == %r but their hashes differ" % (sa, sb)))
            except TypeError:
                pass
        return viols
    if a != b:
        if ua == ub or not (ua != ub):
            viols.append(Violation("C19:pair:unequal-locations-compare-equal", "%r == %r" % (sa, sb)))
    else:
        if not (ua == ub):
            viols.append(Violation("C19:pair:equal-compare-unequal", "%r != %r" % (sa, sb)))
        else:
            try:
                if hash(ua) != hash(ub):
                    viols.append(Violation("C19:pair:equal-but-hash-differs", "%r" % sa))
            except TypeError:
                pass   # unhashable is reported by the string check
    return viols


# ------------------------------------------------------------------------------------------------
# a name server behind a real daemon: what a REMOTE client stores and gets back
# ------------------------------------------------------------------------------------------------
_nslive = {}
SPECIAL_HOSTS = ["0.0.0.0", "localhost", "127.0.0.1", "127.0.0.2", "255.255.255.255", "0", "00.0.0.0", "0.0.0.0.", "::", "::1", "::ffff:0.0.0.0", "",
                 "LOCALHOST", "any", "*", "broadcasthost", "ip6-localhost"]


def _ns_setup(backend):
    from vlib import live
    if _nslive.get("backend") != backend:
        _ns_teardown()
    if "served" not in _nslive:
        import os
        import tempfile
        from Pyro5 import nameserver
        live.quiet_logs()
        tmp = None
        if backend == "sql":
            tmp = tempfile.mkdtemp(prefix="c19ns_", dir="/var/tmp")
            ns = nameserver.NameServer(nameserver.SqlStorage(os.path.join(tmp, "ns.sqlite")))
        else:
            ns = nameserver.NameServer()
        srv = live.Served("thread")
        srv.daemon.register(ns, "Pyro.NameServer")
        _nslive.update(backend=backend, served=srv, ns=ns, tmp=tmp, proxies={})
    return _nslive


def _ns_teardown():
    if "served" in _nslive:
        import shutil
        for p in _nslive["proxies"].values():
            p._pyroRelease()
        _nslive["served"].stop()
        try:
            _nslive["ns"].storage.close()
        except Exception:
            pass
        if _nslive.get("tmp"):
            shutil.rmtree(_nslive["tmp"], ignore_errors=True)
    _nslive.clear()


def check_ns_live(case):
    """register the uri with a name server in another daemon (as uri object and as text, every serializer), ask for it through
    lookup / list / yplookup over the wire: the remote client must get a uri that equals the one stored"""
    from vlib import live
    from Pyro5 import core
    viols = []
    try:
        u = core.URI(case["s"])
    except Exception:
        return viols
    t = str(u)
    try:
        if core.URI(t) != u:
            return viols          # (text form does not parse back: check_uri_string reports that)
    except Exception:
        return viols
    L = _ns_setup(case.get("backend", "memory"))
    ser = case.get("ser", "serpent")
    p = L["proxies"].get(ser)
    if p is None:
        p = L["proxies"][ser] = live.proxy(L["served"].uri("Pyro.NameServer"), serializer=ser)
    feat = _feature(u)

    def V(failure, what):
        viols.append(Violation("C19:%s:nameserver-live:%s" % (feat, failure), "%r: %s" % (case["s"], what)))
    try:
        for n, how in (("live.obj", u), ("live.text", t)):
            p.register(n, "PYRO:decoy@decoy.host:1", safe=False, metadata=["tag"])
            p.lookup(n)
            p.register(n, how, safe=False, metadata=["tag"])
            got = [("lookup", p.lookup(n)), ("list", p.list(prefix=n).get(n)), ("yplookup", (p.yplookup(meta_all=["tag"]).get(n) or (None,))[0])]
            if ser != "marshal":
                # (marshal carries a uri object only as the top-level value of a message, not inside the (uri, tags) pair)
                got.append(("lookup+metadata", p.lookup(n, return_metadata=True)[0]))
            for where, back in got:
                back = core.URI(back) if isinstance(back, str) else back
                if back is None or _fields(back) != _fields(u) or not (back == u):
                    V("differs", "%s of %s through the %s proxy gives %r, registered %r" % (where, n, ser, back if back is None else _fields(back), _fields(u)))
                    return viols
    except Exception as x:
        V("raises", "remote name server path raised %r" % (x,))
        _ns_teardown()
    return viols


def run_case(case):
    if case.get("layer") == "ns-live":
        return check_ns_live(case)
    if "pair" in case:
        return check_pair(case)
    viols, _acc = check_uri_string(case["s"])
    return viols


def _nontrivial(case):
    if "pair" in case:
        return True
    from Pyro5 import core
    try:
        u = core.URI(case["s"])
    except Exception:
        return False
    return u.protocol == "PYROMETA" or u.host is not None or u.sockname is not None


def _labels(case):
    if case.get("layer") == "ns-live":
        return ("nameserver-behind-a-daemon", "ns-backend:" + case.get("backend", "memory"), "ns-client-serializer:" + case.get("ser", "serpent"))
    if "pair" in case:
        return ("pair",)
    from Pyro5 import core
    try:
        u = core.URI(case["s"])
    except Exception:
        return ("rejected",)
    return ("accepted", "feat:" + _feature(u), "proto:" + u.protocol,
            "ref:" + ("none" if expected_fields(case["s"]) is None else "yes"))


def SHARDS(tier):
    nslive = [{"part": "ns-live", "backend": b} for b in ("memory", "sql")]
    return [{}] + nslive if tier == "quick" else [{} for _ in range(16)] + [{"part": "atheris", "k": k} for k in range(2)] + nslive * 2


def run_atheris(ctx):
    """coverage-guided campaign on the URI parser (libFuzzer through atheris); the target applies check_uri_string and raises for
    anything that is not an open known finding"""
    import glob
    import os
    import shutil
    import subprocess
    import sys
    import tempfile
    from vlib.driver import ROOT
    tmp = tempfile.mkdtemp(prefix="c19fz_", dir="/var/tmp")
    try:
        corpus = os.path.join(tmp, "corpus")
        os.makedirs(corpus)
        for i, sd in enumerate(["PYRO:obj@host:55", "PYRONAME:n@[::1]:9", "PYROMETA:a,b@./u:sock", "pyro:o@:1", "PYRONAME:x"]):
            with open(os.path.join(corpus, "s%d" % i), "w") as f:
                f.write(sd)
        runs = ctx.n(20000, 3000000)
        r = subprocess.run([sys.executable, os.path.join(ROOT, "fuzz", "fuzz_wire.py"), "uri", corpus, "-runs=%d" % runs, "-seed=%d" % (ctx.seed + 1 + ctx.shard.get("k", 0)),
                            "-max_len=60", "-only_ascii=%d" % (ctx.shard.get("k", 0) % 2), "-artifact_prefix=" + tmp + "/"],
                           stdout=subprocess.PIPE, stderr=subprocess.STDOUT, text=True, cwd=tmp)
        done = [l for l in r.stdout.splitlines() if "DONE" in l]
        ctx.notes["atheris_runs"] = runs
        ctx.notes["atheris_summary"] = (done[0].strip() if done else r.stdout[-200:])[:200]
        ctx.evaluations += runs
        crashes = glob.glob(os.path.join(tmp, "crash-*"))
        for c in crashes[:3]:
            try:
                s_ = open(c, "rb").read().decode("utf-8")
            except UnicodeDecodeError:
                continue
            case = {"s": s_}
            ctx.observe(case, run_case(case), True, ["atheris"])
        if r.returncode != 0 and not crashes:
            if "No module named 'atheris'" in r.stdout:
                # the optional byte-level engine is not installed (setup.sh could not install it): the campaign is skipped, which
                # the evidence shows; the Hypothesis / enumeration parts decide
                ctx.notes["atheris_summary"] = "skipped: atheris not importable"
                return
            raise RuntimeError("atheris campaign failed: " + r.stdout[-600:])
        ctx.count({"kind": "atheris-campaign", "runs": runs}, True, ["atheris-campaign"])
    finally:
        shutil.rmtree(tmp, ignore_errors=True)


@st.composite
def ns_live_case(draw, backend):
    c = draw(case_strategy())
    if "pair" in c or draw(st.integers(0, 3)) == 0:
        # locations a name server might be tempted to "improve" for the asking client
        proto = draw(st.sampled_from(["PYRO", "PYRONAME", "PYROMETA"]))
        h = draw(st.sampled_from(SPECIAL_HOSTS))
        c = {"s": "%s:%s@%s:%s" % (proto, "obj" if proto != "PYROMETA" else "a,b", "[%s]" % h if ":" in h else h, draw(st.sampled_from(["0", "1", "9090", "65535"])))}
    return {"layer": "ns-live", "s": c["s"], "backend": backend, "ser": draw(st.sampled_from(["serpent", "json", "marshal", "msgpack"]))}


def run(ctx):
    if ctx.shard.get("part") == "atheris":
        return run_atheris(ctx)
    if ctx.shard.get("part") == "ns-live":
        backend = ctx.shard["backend"]
        try:
            for h in SPECIAL_HOSTS:
                for ser in ("serpent", "msgpack"):
                    case = {"layer": "ns-live", "s": "PYRO:obj@%s:4444" % ("[%s]" % h if ":" in h else h), "backend": backend, "ser": ser}
                    ctx.observe(case, run_case(case), True, _labels(case) + ("special-host-sweep",))
            ctx.search(ns_live_case(backend), run_case, ctx.n(500, 4000), nontrivial=_nontrivial, labels=_labels, name="nslive" + backend, max_rounds=3)
        finally:
            _ns_teardown()
        return
    from Pyro5 import config
    assert config.NS_PORT == NS_PORT
    n = ctx.n(6000, 40000)
    ctx.search(case_strategy(), run_case, n, nontrivial=_nontrivial, labels=_labels, name="uri", max_rounds=10)
