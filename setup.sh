#!/bin/sh
# Offline setup: make sure the interpreter that has Pyro5 (editable from /repo) can import hypothesis.
# Nothing is fetched; the wheelhouse is local.
set -e
cd "$(dirname "$0")"
PY=/venv/bin/python
if ! $PY -c "import hypothesis" 2>/dev/null; then
    mkdir -p .deps
    $PY -m pip install --no-index --find-links /opt/veriftools/wheels --target .deps hypothesis >/dev/null
fi
# atheris is optional (secondary byte-level engine for C04/C06/C19 thorough tiers)
if ! PYTHONPATH=.deps $PY -c "import atheris" 2>/dev/null; then
    mkdir -p .deps
    $PY -m pip install --no-index --find-links /opt/veriftools/wheels --target .deps atheris >/dev/null 2>&1 || echo "setup: atheris not installable; byte-level fuzz tiers will be skipped"
fi
PYTHONPATH=.deps $PY -c "import hypothesis, Pyro5, serpent, msgpack; print('setup ok: hypothesis', hypothesis.__version__, 'Pyro5 from', Pyro5.__file__)"
