"""hand-made mutants for C12 (per-call context never leaks); applied to a scratch export of /repo by tools/mutants.py

Results (quick tier, see the table in the final report of the check builder) are summarised at the end of this file.
"""
from tools.mutant_defs import M

S = "Pyro5/server.py"
C = "Pyro5/client.py"
X = "Pyro5/callcontext.py"

HS_RESET = "        msg_seq = 0\n        current_context.response_annotations = {}\n        try:\n            msg = protocol.recv_stub(conn, [protocol.MSG_CONNECT])\n"
HS_NORESET = "        msg_seq = 0\n        try:\n            msg = protocol.recv_stub(conn, [protocol.MSG_CONNECT])\n"
RQ_RESET = "        try:\n            current_context.response_annotations = {}\n            request_flags = msg.flags\n"
RQ_NORESET = "        try:\n            request_flags = msg.flags\n"
AFTER_REPLY = "                                              annotations=self.__annotations())\n                current_context.response_annotations = {}\n"

# ---- revert of 63e5317 "fix: response annotations never carry over to another request": each line, and both
M("c12_revert_63e5317_handshake_line", ["C12"], (S, HS_RESET, HS_NORESET))
M("c12_revert_63e5317_request_line", ["C12"], (S, RQ_RESET, RQ_NORESET))
M("c12_revert_63e5317_both", ["C12"], (S, HS_RESET, HS_NORESET), (S, RQ_RESET, RQ_NORESET))

# ---- DESIGN must-catch: reset after the normal reply removed.
# EQUIVALENT since 63e5317: every message that takes its annotations from the context (RESULT, PING answer, CONNECTOK/FAIL) is
# built after the reset at the start of the same handleRequest/_handshake invocation on the same thread, error replies do not
# read the context at all, and a oneway thread only ever holds the dict of its own request.  Expected: MISSED.
M("c12_eq_no_reset_after_reply", ["C12"], (S, AFTER_REPLY, "                                              annotations=self.__annotations())\n"))
# ... but it is what protects when the start-of-request reset clears IN PLACE (the dict object is then shared with a oneway
# thread that is still running): reset-in-place at both places
M("c12_reset_in_place", ["C12"],
  (S, RQ_RESET, "        try:\n            current_context.response_annotations.clear()\n            request_flags = msg.flags\n"),
  (S, AFTER_REPLY, "                                              annotations=self.__annotations())\n                current_context.response_annotations.clear()\n"))
M("c12_request_reset_in_place", ["C12"],
  (S, RQ_RESET, "        try:\n            current_context.response_annotations.clear()\n            request_flags = msg.flags\n"))

# ---- oneway thread reads the live context instead of the snapshot
M("c12_oneway_no_from_global", ["C12"], (S, "        current_context.from_global(self.parent_context)\n", "        pass\n"))
M("c12_oneway_snapshot_taken_in_run", ["C12"],
  (S, "        self.parent_context = current_context.to_global()\n", "        self.parent_context = None\n"),
  (S, "        current_context.from_global(self.parent_context)\n", "        current_context.from_global(current_context.to_global())\n"))
M("c12_to_global_returns_live_dict", ["C12"], (X, "        return dict(self.__dict__)\n", "        return self.__dict__\n"))
M("c12_from_global_forgets_annotations", ["C12"], (X, "        self.annotations = values[\"annotations\"]\n", ""))
M("c12_from_global_forgets_correlation_id", ["C12"], (X, "        self.correlation_id = values[\"correlation_id\"]\n", ""))
M("c12_from_global_forgets_sock_addr", ["C12"], (X, "        self.client_sock_addr = values[\"client_sock_addr\"]\n", ""))

# ---- the context is no longer per thread
M("c12_context_plain_global", ["C12"], (X, "class _CallContext(threading.local):", "class _CallContext(object):"))

# ---- error replies send the context's annotations, which at that point may still be those of the PREVIOUS call
# (reset moved behind the deserialisation of the request: only a request that fails before that point shows it)
M("c12_error_reply_sends_previous_annotations", ["C12"],
  (S, RQ_RESET, RQ_NORESET),
  (S, "            current_context.client = conn\n            try:\n                # store,", "            current_context.response_annotations = {}\n            current_context.client = conn\n            try:\n                # store,"),
  (S, "        annotations = dict(annotations or {})\n        annotations.update(self.annotations())\n",
      "        annotations = dict(annotations or {})\n        annotations.update(current_context.response_annotations)\n        annotations.update(self.annotations())\n"))

# ---- Daemon.__annotations accumulates in a shared module-level dict
M("c12_annotations_shared_dict", ["C12"],
  (S, "        annotations = current_context.response_annotations\n        annotations.update(self.annotations())\n        return annotations\n",
      "        annotations = _all_annotations\n        annotations.update(current_context.response_annotations)\n        annotations.update(self.annotations())\n        return annotations\n"),
  (S, "_private_dunder_methods = frozenset([", "_all_annotations = {}\n\n_private_dunder_methods = frozenset(["))

# ---- client side
M("c12_client_no_reset_before_call", ["C12"],
  (C, "        self.__check_owner()\n        current_context.response_annotations = {}\n        if self._pyroConnection is None:\n            self.__pyroCreateConnection()\n",
      "        self.__check_owner()\n        if self._pyroConnection is None:\n            self.__pyroCreateConnection()\n"))
M("c12_client_reset_only_when_connecting", ["C12"],
  (C, "        self.__check_owner()\n        current_context.response_annotations = {}\n        if self._pyroConnection is None:\n            self.__pyroCreateConnection()\n",
      "        self.__check_owner()\n        if self._pyroConnection is None:\n            current_context.response_annotations = {}\n            self.__pyroCreateConnection()\n"))

# ---- handshake answer includes the previous connection's annotations (reset only on the denial path)
M("c12_handshake_reset_only_on_denial", ["C12"],
  (S, HS_RESET + "            msg_seq = msg.seq\n            if denied_reason:\n",
      HS_NORESET + "            msg_seq = msg.seq\n            if denied_reason:\n                current_context.response_annotations = {}\n"))

# ---- correlation id of the previous request reused when the next one has none
M("c12_correlation_id_reused", ["C12"],
  (S, "            else:\n                current_context.correlation_id = uuid.uuid4()\n            if config.LOGWIRE:\n                protocol.log_wiredata(log, \"daemon wiredata received\", msg)\n",
      "            elif not current_context.correlation_id:\n                current_context.correlation_id = uuid.uuid4()\n            if config.LOGWIRE:\n                protocol.log_wiredata(log, \"daemon wiredata received\", msg)\n"))

# ---- own: need something specific
# request annotations of the previous request stay visible when the next request has none
M("c12_request_annotations_kept_when_absent", ["C12"],
  (S, "            current_context.annotations = msg.annotations\n", "            if msg.annotations:\n                current_context.annotations = msg.annotations\n"))
# peer address looked up once per server thread (a reused worker / the multiplex thread reports the first peer for ever)
M("c12_sock_addr_cached_per_thread", ["C12"],
  (S, "            try:\n                # store, because on oneway calls, socket will be disconnected:\n                current_context.client_sock_addr = conn.sock.getpeername()\n",
      "            try:\n                # store, because on oneway calls, socket will be disconnected:\n                if current_context.client_sock_addr is None:\n                    current_context.client_sock_addr = conn.sock.getpeername()\n"))
# batch requests do not refresh seq/flags (only single calls do)
M("c12_batch_keeps_previous_seq_flags", ["C12"],
  (S, "            current_context.seq = msg.seq\n", "            if not msg.flags & protocol.FLAGS_BATCH:\n                current_context.seq = msg.seq\n"))
# the context's connection is only set when a worker serves its first request (thread-local default None): reused worker keeps the old connection
M("c12_client_conn_set_once", ["C12"],
  (S, "            current_context.client = conn\n            try:\n                # store,", "            if current_context.client is None:\n                current_context.client = conn\n            try:\n                # store,"))
# ping answers skip the reset (the ping branch moved in front of it)
M("c12_ping_before_reset", ["C12"],
  (S, RQ_RESET, "        try:\n            if msg.type != protocol.MSG_PING:\n                current_context.response_annotations = {}\n            request_flags = msg.flags\n"))

# ---- results (quick tier, /repo at d2b5b67): 23 of 24 CAUGHT - by the committed replays and, checked separately with
# replays/C12 moved away, by the Hypothesis search alone (first hit always in the first multiplex shard, 18-55 s including
# shrinking).  c12_eq_no_reset_after_reply is MISSED and equivalent (see above).
# Repo test-suite on the mutants (449 tests): GREEN for all except c12_client_conn_set_once (1 failed) and
# c12_from_global_forgets_correlation_id (1 failed); in particular the three reverts of 63e5317, the plain-global context, a
# oneway thread that never restores its context, and every client-side mutant keep the suite green.
