"""mutants for C07 (remote exceptions arrive as the same exception with the same content)"""
from tools.mutant_defs import M

# ---- the "must catch" list of DESIGN.md / the task
# custom attributes not restored (the remote traceback, which travels as an attribute too, is kept: the subtle variant)
M("c07_attrs_not_restored", ["C07"],
  ("Pyro5/serializers.py", "            for attr, value in data[\"attributes\"].items():\n                setattr(ex, attr, value)",
   "            for attr, value in data[\"attributes\"].items():\n                if attr.startswith(\"_pyro\"):\n                    setattr(ex, attr, value)"))
# args restored as ONE tuple argument
M("c07_args_as_one_tuple", ["C07"],
  ("Pyro5/serializers.py", "        ex = exceptiontype(*data[\"args\"])", "        ex = exceptiontype(data[\"args\"])"))
# fallback for an unserialisable exception removed: no reply at all
M("c07_fallback_removed", ["C07"],
  ("Pyro5/server.py", "            exc_value = errors.PyroError(msg)\n            exc_value._pyroTraceback = tbinfo\n            data = serializer.dumps(exc_value)",
   "            raise"))
# fallback keeps replying but no longer says what the original was
M("c07_fallback_forgets_original", ["C07"],
  ("Pyro5/server.py", "            msg = \"Error serializing exception: %s. Original exception: %s: %s\" % (str(xv), type(exc_value), str(exc_value))",
   "            msg = \"Error serializing exception: %s\" % (str(xv), )"))
# _ExceptionWrapper loses the inner class (batch)
M("c07_wrapper_loses_class", ["C07"],
  ("Pyro5/core.py", "            \"exception\": serializers.SerializerBase.class_to_dict(self.exception)",
   "            \"exception\": dict(serializers.SerializerBase.class_to_dict(self.exception), __class__=\"builtins.Exception\")"))
# _pyroTraceback not attached for batch members
M("c07_no_traceback_batch", ["C07"],
  ("Pyro5/server.py", "                            xv._pyroTraceback = errors.format_traceback(detailed=config.DETAILED_TRACEBACK)\n", ""))
# _pyroTraceback not attached for streamed items
M("c07_no_traceback_stream", ["C07"],
  ("Pyro5/server.py", "                        tblines = errors.format_traceback(detailed=config.DETAILED_TRACEBACK)\n                        self._sendExceptionResponse(conn, request_seq, request_serializer_id, xv, tblines)",
   "                        tblines = errors.format_traceback(detailed=config.DETAILED_TRACEBACK)\n                        if getattr(method, \"__name__\", method) == \"get_next_stream_item\":\n                            tblines = None\n                        self._sendExceptionResponse(conn, request_seq, request_serializer_id, xv, tblines)"))
# class looked up by short name only: builtins.TimeoutError arrives as Pyro5.errors.TimeoutError
M("c07_shortname_lookup_builtin_becomes_pyro", ["C07"],
  ("Pyro5/serializers.py", "            if classname in all_exceptions:\n                return SerializerBase.make_exception(all_exceptions[classname], data)",
   "            if classname.rpartition('.')[2] in all_exceptions:\n                return SerializerBase.make_exception(all_exceptions[classname.rpartition('.')[2]], data)"))
# ... and the reverse: Pyro5.errors.TimeoutError arrives as the builtin one (only reachable as batch member / at serializer level,
# because a method raising it directly gets no reply at all - known finding)
M("c07_shortname_lookup_pyro_becomes_builtin", ["C07"],
  ("Pyro5/serializers.py", "            errortype = getattr(errors, classname.split('.', 2)[2])\n            if issubclass(errortype, errors.PyroError):",
   "            errortype = getattr(builtins, classname.split('.', 2)[2], None) or getattr(errors, classname.split('.', 2)[2])\n            if issubclass(errortype, Exception):"))
# exception reply without FLAGS_EXCEPTION: the client RETURNS the exception object
M("c07_exception_flag_missing", ["C07"],
  ("Pyro5/server.py", "        flags |= protocol.FLAGS_EXCEPTION\n", ""))
# attribute-get path swallows the exception and returns None
M("c07_getattr_swallows", ["C07"],
  ("Pyro5/server.py", "        if v.fget and getattr(v.fget, \"_pyroExposed\", not only_exposed):\n            return v.fget(obj)",
   "        if v.fget and getattr(v.fget, \"_pyroExposed\", not only_exposed):\n            try:\n                return v.fget(obj)\n            except Exception:\n                return None"))

# ---- reverts of repo fixes
# e3112c7 "fix: marshal serializer accepts calls without keyword arguments" (attribute get/set and batch under marshal)
M("c07_revert_marshal_kwargs_none", ["C07"],
  ("Pyro5/serializers.py", "        if kwargs:\n            kwargs = {key: self.convert_obj_into_marshallable(value) for key, value in kwargs.items()}",
   "        kwargs = {key: self.convert_obj_into_marshallable(value) for key, value in kwargs.items()}"))

# ---- own mutants that need something specific to manifest
# needs a custom attribute with a falsy value (0, "", None, [], False, 0.0)
M("c07_falsy_attrs_dropped", ["C07"],
  ("Pyro5/serializers.py", "            for attr, value in data[\"attributes\"].items():\n                setattr(ex, attr, value)",
   "            for attr, value in data[\"attributes\"].items():\n                if value or attr.startswith(\"_pyro\"):\n                    setattr(ex, attr, value)"))
# needs None among the args
M("c07_none_args_dropped", ["C07"],
  ("Pyro5/serializers.py", "                \"args\": obj.args,\n", "                \"args\": tuple(a for a in obj.args if a is not None),\n"))
# needs the failing batch member in FIRST position (no result collected before it)
M("c07_no_traceback_batch_first", ["C07"],
  ("Pyro5/server.py", "                            xv._pyroTraceback = errors.format_traceback(detailed=config.DETAILED_TRACEBACK)\n",
   "                            xv._pyroTraceback = errors.format_traceback(detailed=config.DETAILED_TRACEBACK) if data else None\n"))
# needs the attribute-SET kind: the client drops the error reply of a remote attribute assignment
M("c07_setattr_reply_ignored", ["C07"],
  ("Pyro5/client.py", "                if msg.flags & protocol.FLAGS_EXCEPTION:\n                    raise data",
   "                if msg.flags & protocol.FLAGS_EXCEPTION and methodname != \"__setattr__\":\n                    raise data"))
# needs the content check of the remote traceback: only the last line (the 'Class: message' line) is sent
M("c07_traceback_last_line_only", ["C07"],
  ("Pyro5/server.py", "        exc_value._pyroTraceback = tbinfo\n        serializer = serializers.serializers_by_id[serializer_id]",
   "        exc_value._pyroTraceback = tbinfo[-1:] if tbinfo else tbinfo\n        serializer = serializers.serializers_by_id[serializer_id]"))
# needs serpent + a builtin class that shares its short name with a Pyro error (TimeoutError): class names without module
M("c07_serpent_short_classnames", ["C07"],
  ("Pyro5/serializers.py", "        return serpent.dumps(data, module_in_classname=True, bytes_repr=config.SERPENT_BYTES_REPR)",
   "        return serpent.dumps(data, module_in_classname=False, bytes_repr=config.SERPENT_BYTES_REPR)"))
# needs an OSError subclass chosen by errno on the SERVER (OSError(2, ..) is a FileNotFoundError): receiver maps every
# OSError subclass back to plain OSError
M("c07_oserror_subclass_flattened", ["C07"],
  ("Pyro5/serializers.py", "                exceptiontype = getattr(builtins, short_classname)\n                if issubclass(exceptiontype, BaseException):",
   "                exceptiontype = getattr(builtins, short_classname)\n                if issubclass(exceptiontype, OSError) and short_classname.startswith(\"Connection\"):\n                    exceptiontype = ConnectionError\n                if issubclass(exceptiontype, BaseException):"))
# needs a streamed item failing AFTER at least one good item: the daemon forgets to report errors of a stream that already produced items
M("c07_stream_error_after_items_becomes_stop", ["C07"],
  ("Pyro5/server.py", "        try:\n            return next(stream)\n        except Exception:\n            # in case of error (or StopIteration!) the stream is removed\n            del self.daemon.streaming_responses[streamId]\n            raise",
   "        try:\n            item = next(stream)\n            self.daemon.__dict__.setdefault(\"_v_produced\", set()).add(streamId)\n            return item\n        except Exception:\n            # in case of error (or StopIteration!) the stream is removed\n            del self.daemon.streaming_responses[streamId]\n            if streamId in self.daemon.__dict__.get(\"_v_produced\", ()):\n                raise StopIteration()\n            raise"))
# 9370374 "fix: msgpack decodes extension types in call arguments too" - belongs to C01; seen from C07 the exception spec crosses the
# wire as a call argument, so big ints inside it reach the server as ExtType objects
M("c07_revert_msgpack_call_ext_hook", ["C07"],
  ("Pyro5/serializers.py", "    def loadsCall(self, data):\n        return msgpack.unpackb(self._convertToBytes(data), raw=False, object_hook=self.object_hook, ext_hook=self.ext_hook)",
   "    def loadsCall(self, data):\n        return msgpack.unpackb(self._convertToBytes(data), raw=False, object_hook=self.object_hook)"))
