#!/venv/bin/python
"""run every registered quick (or thorough) command once, like `vp check` does, and summarise"""
import json, subprocess, sys, time, os
ROOT = os.path.dirname(os.path.dirname(os.path.abspath(__file__)))
tier = "thorough" if "--thorough" in sys.argv else "quick"
only = [a for a in sys.argv[1:] if not a.startswith("--")]
man = json.load(open(os.path.join(ROOT, "MANIFEST.json")))
bad = 0
for c in man["checks"]:
    if only and c["property_id"] not in only:
        continue
    cmd = c["quick_cmd"] if tier == "quick" else c["thorough_cmd"]
    t0 = time.time()
    r = subprocess.run(cmd, shell=True, cwd=ROOT, stdout=subprocess.PIPE, stderr=subprocess.STDOUT, text=True)
    last = [l for l in r.stdout.splitlines() if l.startswith(c["property_id"] + " ")][-1:] or [r.stdout[-300:]]
    viol = [l for l in r.stdout.splitlines() if l.startswith("VIOLATION")]
    kf = sum(1 for l in r.stdout.splitlines() if l.startswith("KNOWN-FINDING"))
    print("%s rc=%d %5.1fs kf=%d %s" % (c["property_id"], r.returncode, time.time() - t0, kf, last[0][:150]), flush=True)
    if r.returncode != 0:
        bad += 1
        print("\n".join("    " + l[:300] for l in r.stdout.splitlines() if l.startswith("  ") or l.startswith("VIOLATION") or "Error" in l)[:3000])
sys.exit(1 if bad else 0)
