"""hand-made mutants of /repo used for sensitivity runs: name -> ([(file, old, new), ...], [properties that must catch it])"""
MUTANTS = {}


def M(name, props, *edits):
    MUTANTS[name] = (list(edits), props)


# ---------------------------------------------------------------- C19
M("c19_ipv6_nobrackets", ["C19"], ("Pyro5/core.py", 'return "[%s]:%d" % (self.host, self.port)', 'return "%s:%d" % (self.host, self.port)'))
M("c19_eq_ignores_sockname", ["C19"], ("Pyro5/core.py", "return self.__getstate__() == other.__getstate__()",
                                       "a, b = self.__getstate__(), other.__getstate__()\n        return a[:2] + a[3:] == b[:2] + b[3:]"))
M("c19_meta_unsorted", ["C19"], ("Pyro5/core.py", '",".join(sorted(self.object))', '",".join(self.object)'))
M("c19_setstate_keeps_list", ["C19"], ("Pyro5/core.py", "            self.object = set(self.object)  # some serializers", "            pass  # some serializers"))
M("c19_emptyhost", ["C19"], ("Pyro5/core.py", "        if self.host is not None:\n            if \":\" in self.host:  # ipv6", "        if self.host:\n            if \":\" in self.host:  # ipv6"))
M("c19_defaultport_pyro", ["C19"], ("Pyro5/core.py", "            self._parseLocation(location, None)", "            self._parseLocation(location, config.NS_PORT)"))
M("c19_proxy_state_drops_location", ["C19"], ("Pyro5/client.py", "        self._pyroUri = core.URI(state[0])", "        self._pyroUri = core.URI(state[0].lower() if state[0].startswith('PYRO:') and '[' in state[0] else state[0])"))

# ---------------------------------------------------------------- C06
M("c06_swap_flags_seq_sender", ["C06"], ("Pyro5/protocol.py", "msgtype, serializer_id, flags, seq,\n", "msgtype, serializer_id, seq, flags,\n"))
M("c06_drop_tiling_assert", ["C06"], ("Pyro5/protocol.py", "            assert i == self.annotations_size\n", ""))
M("c06_size_check_after_body", ["C06"],
  ("Pyro5/protocol.py", "        if self.data_size+self.annotations_size > config.MAX_MESSAGE_SIZE:\n            raise errors.ProtocolError(\"message too large ({:d}, max={:d})\"\n                                       .format(self.data_size+self.annotations_size, config.MAX_MESSAGE_SIZE))\n", ""),
  ("Pyro5/protocol.py", "        assert not self.data\n", "        assert not self.data\n        if self.data_size+self.annotations_size > config.MAX_MESSAGE_SIZE:\n            raise errors.ProtocolError('message too large')\n"))
M("c06_keep_compressed_flag", ["C06"], ("Pyro5/protocol.py", "            self.flags &= ~FLAGS_COMPRESSED\n            self.data_size", "            self.data_size"))
M("c06_sender_limit_ignores_annotations", ["C06"], ("Pyro5/protocol.py", "        total_size = len(payload) + annotations_size\n", "        total_size = len(payload)\n"))
M("c06_receiver_limit_off_by_one", ["C06"], ("Pyro5/protocol.py", "        if self.data_size+self.annotations_size > config.MAX_MESSAGE_SIZE:", "        if self.data_size+self.annotations_size >= config.MAX_MESSAGE_SIZE:"))
M("c06_validate_skips_magic", ["C06"], ("Pyro5/protocol.py", "        if tag != b\"PYRO\" or ver != PROTOCOL_VERSION or magic != _magic_number:", "        if tag != b\"PYRO\" or ver != PROTOCOL_VERSION:"))
M("c06_payload_len_not_checked", ["C06"], ("Pyro5/protocol.py", "        if len(payload) != self.data_size + self.annotations_size:", "        if len(payload) < self.data_size + self.annotations_size:"))
M("c06_annotation_last_byte", ["C06"], ("Pyro5/protocol.py", "payload[i+8:i+8+length]     # note", "payload[i+8:i+8+length] if length != 1 else payload[i+8:i+8]    # note"))
M("c06_corr_zero_dropped", ["C06"], ("Pyro5/protocol.py", "        if current_context.correlation_id:\n", "        if current_context.correlation_id and current_context.correlation_id.int:\n"))

# ---------------------------------------------------------------- C17
M("c17_msglen_not_advanced", ["C17"], ("Pyro5/socketutil.py", "                    msglen = len(chunk)\n                    data.extend(chunk)\n                    break", "                    data.extend(chunk)\n                    break"))
M("c17_retry_restarts_buffer", ["C17"], ("Pyro5/socketutil.py", "                time.sleep(next(delays))  # a slight delay to wait before retrying\n    except socket.timeout:", "                time.sleep(next(delays))  # a slight delay to wait before retrying\n                data = bytearray(); msglen = 0\n    except socket.timeout:"))
M("c17_eagain_fatal_recv", ["C17"], ("Pyro5/socketutil.py", "ERRNO_RETRIES = [errno.EINTR, errno.EAGAIN, errno.EWOULDBLOCK, errno.EINPROGRESS]", "ERRNO_RETRIES = [errno.EINTR, errno.EINPROGRESS]"))
M("c17_send_off_by_one", ["C17"], ("Pyro5/socketutil.py", "                data = data[sent:]", "                data = data[sent + (1 if sent > 1 and len(data) > sent + 1 else 0):]"))
M("c17_send_resend_on_retry", ["C17"], ("Pyro5/socketutil.py", "                sent = sock.send(data)\n                data = data[sent:]", "                sent = sock.send(data)\n                data = data[sent:] if sent != 2 else data[1:]"))
M("c17_eof_returns_short", ["C17"], ("Pyro5/socketutil.py", "                if len(data) != size:\n                    err = ConnectionClosedError(\"receiving: not enough data\")", "                if len(data) != size and len(data) < size - 1:\n                    err = ConnectionClosedError(\"receiving: not enough data\")"))
M("c17_partialdata_dropped", ["C17"], ("Pyro5/socketutil.py", "                    err.partialData = data  # store the message that was received until now\n", ""))
M("c17_waitall_chunk_dropped_on_retry", ["C17"], ("Pyro5/socketutil.py", "                    msglen = len(chunk)\n                    data.extend(chunk)\n                    break", "                    msglen = len(chunk)\n                    data.extend(chunk)\n                    if msglen == 1 and size > 2:\n                        msglen = 0; del data[:]\n                    break"))
M("c17_timeout_as_closed", ["C17"], ("Pyro5/socketutil.py", "            except socket.timeout:\n                raise TimeoutError(\"receiving: timeout\")\n            except socket.error as x:\n                err = getattr(x, \"errno\", x.args[0])\n                if err not in ERRNO_RETRIES:\n                    raise ConnectionClosedError(\"receiving: connection lost: \" + str(x))\n                time.sleep(next(delays))  # a slight delay to wait before retrying\n    except socket.timeout:", "            except socket.error as x:\n                err = getattr(x, \"errno\", x.args[0])\n                if err not in ERRNO_RETRIES:\n                    raise ConnectionClosedError(\"receiving: connection lost: \" + str(x))\n                time.sleep(next(delays))  # a slight delay to wait before retrying\n    except socket.timeout:"))

# ---------------------------------------------------------------- C04
M("c04_dunder_and_any_module", ["C04"],
  ("Pyro5/serializers.py", "        if \"__\" in classname:\n            raise errors.SecurityError(\"refused to deserialize types with double underscores in their name: \" + classname)\n", ""),
  ("Pyro5/serializers.py", "            if namespace in (\"builtins\", \"exceptions\"):\n                exceptiontype = getattr(builtins, short_classname)\n                if issubclass(exceptiontype, BaseException):", "            if namespace in (\"builtins\", \"exceptions\") or namespace in sys.modules:\n                exceptiontype = getattr(sys.modules.get(namespace, builtins) if namespace != 'exceptions' else builtins, short_classname)\n                if callable(exceptiontype):"),
  ("Pyro5/serializers.py", "import array\n", "import array\nimport sys\n"))
# (removing only the "__" refusal is an equivalent mutant: every dunder tag is still rejected by the issubclass guards)
M("c04_issubclass_guard_removed", ["C04"], ("Pyro5/serializers.py", "                exceptiontype = getattr(builtins, short_classname)\n                if issubclass(exceptiontype, BaseException):\n                    return", "                exceptiontype = getattr(builtins, short_classname)\n                if isinstance(exceptiontype, type):\n                    return"))
M("c04_exception_flag_not_needed", ["C04"], ("Pyro5/serializers.py", "        elif data.get(\"__exception__\", False):\n", "        elif True:\n"))
M("c04_importlib_fallback", ["C04"], ("Pyro5/serializers.py", "        log.warning(\"unsupported serialized class: \" + classname)\n", "        if classname.count('.') >= 1 and data.get('__exception__'):\n            import importlib\n            mod, _, cn = classname.rpartition('.')\n            try:\n                t = getattr(importlib.import_module(mod), cn)\n                if isinstance(t, type) and issubclass(t, BaseException):\n                    return SerializerBase.make_exception(t, data)\n            except ImportError:\n                pass\n        log.warning(\"unsupported serialized class: \" + classname)\n"))
M("c04_sqlite_any_name", ["C04"], ("Pyro5/serializers.py", "            elif namespace == \"sqlite3\" and short_classname.endswith(\"Error\"):\n                import sqlite3\n                exceptiontype = getattr(sqlite3, short_classname)\n                if issubclass(exceptiontype, BaseException):", "            elif namespace == \"sqlite3\":\n                import sqlite3\n                exceptiontype = getattr(sqlite3, short_classname)\n                if isinstance(exceptiontype, type):"))
M("c04_serpent_float_eval", ["C04"], ("Pyro5/serializers.py", "            return float(data[\"value\"])     # serpent encodes", "            return eval(data[\"value\"]) if isinstance(data[\"value\"], str) and '(' in data[\"value\"] else float(data[\"value\"])     # serpent encodes"))

# ---------------------------------------------------------------- C01
M("c01_msgpack_no_ext_hook_args", ["C01"], ("Pyro5/serializers.py", "        return msgpack.unpackb(self._convertToBytes(data), raw=False, object_hook=self.object_hook, ext_hook=self.ext_hook)\n\n    def loads(self, data):", "        return msgpack.unpackb(self._convertToBytes(data), raw=False, object_hook=self.object_hook)\n\n    def loads(self, data):"))
M("c01_serpent_kwargs_not_recreated", ["C01"], ("Pyro5/serializers.py", "        obj, method, vargs, kwargs = serpent.loads(data)\n        vargs = self.recreate_classes(vargs)\n        kwargs = self.recreate_classes(kwargs)", "        obj, method, vargs, kwargs = serpent.loads(data)\n        vargs = self.recreate_classes(vargs)"))
M("c01_msgpack_args_as_tuples", ["C01"], ("Pyro5/serializers.py", "        return msgpack.unpackb(self._convertToBytes(data), raw=False, object_hook=self.object_hook, ext_hook=self.ext_hook)\n\n    def loads(self, data):", "        r = msgpack.unpackb(self._convertToBytes(data), raw=False, object_hook=self.object_hook, ext_hook=self.ext_hook, use_list=False)\n        return r[0], r[1], list(r[2]), r[3]\n\n    def loads(self, data):"))
M("c01_marshal_kwargs_none", ["C01"], ("Pyro5/serializers.py", "        if kwargs:\n            kwargs = {key: self.convert_obj_into_marshallable(value) for key, value in kwargs.items()}", "        kwargs = {key: self.convert_obj_into_marshallable(value) for key, value in kwargs.items()}"))
M("c01_decompress_threshold_mismatch", ["C01"], ("Pyro5/protocol.py", "        if self.flags & FLAGS_COMPRESSED:\n            self.data = zlib.decompress(self.data)", "        if self.flags & FLAGS_COMPRESSED and len(self.data) > 60:\n            self.data = zlib.decompress(self.data)"))
M("c01_msgpack_callargs_no_bin", ["C01"], ("Pyro5/serializers.py", "        return msgpack.packb((obj, method, vargs, kwargs), use_bin_type=True, default=self.default)", "        return msgpack.packb((obj, method, vargs, kwargs), use_bin_type=False, default=self.default)"))
M("c01_stream_items_stringified_bigint", ["C01"], ("Pyro5/server.py", "        try:\n            return next(stream)\n        except Exception:", "        try:\n            item = next(stream)\n            return float(item) if type(item) is int and abs(item) > 2**64 else item\n        except Exception:"))
M("c01_batch_results_tuple_to_list", ["C01"], ("Pyro5/server.py", "                            data.append(result)    # note that we don't support streaming results in batch mode", "                            data.append(list(result) if type(result) is tuple else result)    # note"))
M("c01_serpent_nan_kwargs", ["C01"], ("Pyro5/serializers.py", "        if data.get(\"__class__\") == \"float\":\n            return float(data[\"value\"])", "        if data.get(\"__class__\") == \"float\":\n            return float(data[\"value\"]) if data[\"value\"] != \"nan\" else 0.0"))
