"""hand-made mutants of /repo used for sensitivity runs: name -> ([(file, old, new), ...], [properties that must catch it])"""
MUTANTS = {}


def M(name, props, *edits):
    MUTANTS[name] = (list(edits), props)


# ---------------------------------------------------------------- C19
M("c19_ipv6_nobrackets", ["C19"], ("Pyro5/core.py", 'return "[%s]:%d" % (self.host, self.port)', 'return "%s:%d" % (self.host, self.port)'))
M("c19_eq_ignores_sockname", ["C19"], ("Pyro5/core.py", "return self.__getstate__() == other.__getstate__()",
                                       "a, b = self.__getstate__(), other.__getstate__()\n        return a[:2] + a[3:] == b[:2] + b[3:]"))
M("c19_meta_unsorted", ["C19"], ("Pyro5/core.py", '",".join(sorted(self.object))', '",".join(self.object)'))
M("c19_setstate_keeps_list", ["C19"], ("Pyro5/core.py", "            self.object = set(self.object)  # some serializers", "            pass  # some serializers"))
M("c19_emptyhost", ["C19"], ("Pyro5/core.py", "        if self.host is not None:\n            if \":\" in self.host:  # ipv6", "        if self.host:\n            if \":\" in self.host:  # ipv6"))
M("c19_defaultport_pyro", ["C19"], ("Pyro5/core.py", "            self._parseLocation(location, None)", "            self._parseLocation(location, config.NS_PORT)"))
M("c19_proxy_state_drops_location", ["C19"], ("Pyro5/client.py", "        self._pyroUri = core.URI(state[0])", "        self._pyroUri = core.URI(state[0].lower() if state[0].startswith('PYRO:') and '[' in state[0] else state[0])"))
