"""hand-made mutants for C10 (remote iterators / stream table); applied to a scratch export of /repo by tools/mutants.py

No "fix:" commit of /repo touches the stream code, so there is no revert mutant here.

All 22 are CAUGHT by `tools/mutants.py c10:` (quick tier = committed replays + Hypothesis search).  Checked separately with the
replay tier switched off: the search alone finds every one of them too (in brackets: of the 16 quick shards, how many reported the
most frequent signature of that mutant - a lower bound for the number of shards that caught it):
  keep_after_exception [16]  keep_after_stop [16]  linger_ts_never_set [16]  linger_expires_at_once [12]  lifetime_uses_linger_setting [11]
  linger_uses_lifetime_setting [11]  next_uses_latest_stream [13]  disconnect_lingers_all [15]  disconnect_drops_all [16]
  close_stream_noop [16]  reassoc_lost [12]  hk_linger_hits_live [12]  register_when_streaming_off [15]  client_skips_after_reconnect [14]
  reassoc_keeps_linger_ts [6]  reassoc_restarts_lifetime [4]  lifetime_boundary_inclusive [6]  linger_boundary_inclusive [11]
  registered_without_owner [16]  server_skips_on_resume [16]  lifetime_from_last_use [9]  client_close_diverged_noop [9; found through the
  20 s close-delivery ceiling, it is a "nothing arrives" defect]
Repo test-suite on each mutant (449 tests): GREEN for
  keep_after_exception, keep_after_stop, lifetime_uses_linger_setting, next_uses_latest_stream, disconnect_lingers_all,
  disconnect_drops_all, close_stream_noop, register_when_streaming_off, client_skips_after_reconnect, reassoc_keeps_linger_ts,
  reassoc_restarts_lifetime, lifetime_boundary_inclusive, linger_boundary_inclusive, registered_without_owner,
  server_skips_on_resume, lifetime_from_last_use, client_close_diverged_noop
RED (testGeneratorLinger of the thread and/or multiplex server classes; hk_linger_hits_live also test_echoserver testGenerator) for
  linger_ts_never_set, linger_expires_at_once, linger_uses_lifetime_setting, reassoc_lost, hk_linger_hits_live
"""
from tools.mutant_defs import M

S = "Pyro5/server.py"
C = "Pyro5/client.py"

NEXT_EXCEPT = "        except Exception:\n            # in case of error (or StopIteration!) the stream is removed\n            del self.daemon.streaming_responses[streamId]\n            raise\n"
LOOKUP = "        client, timestamp, linger_timestamp, stream = self.daemon.streaming_responses[streamId]\n"
REASSOC = "            self.daemon.streaming_responses[streamId] = (current_context.client, timestamp, 0, stream)\n"
LINGER_SET = "                    self.streaming_responses[streamId] = (None, timestamp, time.time(), stream)\n"
LIFETIME_TEST = "                            if 0 < config.ITER_STREAM_LIFETIME < last_use_period:\n"
LINGER_TEST = "                            if linger_period > config.ITER_STREAM_LINGER:\n"

# ---- the DESIGN / task "must catch" list
# stream not deleted after the generator raised (only StopIteration removes it): a later next resumes a custom iterator
M("c10_keep_after_exception", ["C10"], (S, NEXT_EXCEPT,
  "        except StopIteration:\n            del self.daemon.streaming_responses[streamId]\n            raise\n"))
# stream not deleted on StopIteration
M("c10_keep_after_stop", ["C10"], (S, NEXT_EXCEPT,
  "        except StopIteration:\n            raise\n" + NEXT_EXCEPT))
# linger timestamp never set on disconnect: lingering streams never expire
M("c10_linger_ts_never_set", ["C10"], (S, LINGER_SET, "                    self.streaming_responses[streamId] = (None, timestamp, 0, stream)\n"))
# ... or expire at once (timestamp set one linger period into the past)
M("c10_linger_expires_at_once", ["C10"], (S, LINGER_SET,
  "                    self.streaming_responses[streamId] = (None, timestamp, time.time() - config.ITER_STREAM_LINGER, stream)\n"))
# lifetime compared against the linger setting
M("c10_lifetime_uses_linger_setting", ["C10"], (S, LIFETIME_TEST, "                            if 0 < config.ITER_STREAM_LINGER < last_use_period:\n"))
# ... and the reverse
M("c10_linger_uses_lifetime_setting", ["C10"], (S, LINGER_TEST, "                            if linger_period > config.ITER_STREAM_LIFETIME:\n"))
# get_next_stream_item serves the most recently created stream instead of streamId
M("c10_next_uses_latest_stream", ["C10"], (S, LOOKUP,
  "        client, timestamp, linger_timestamp, stream = self.daemon.streaming_responses[list(self.daemon.streaming_responses)[-1]]\n"))
# _clientDisconnect lingers / drops the streams of ALL connections
M("c10_disconnect_lingers_all", ["C10"], (S, "                if info and info[0] is conn:\n                    _, timestamp, _, stream = info\n",
                                          "                if info:\n                    _, timestamp, _, stream = info\n"))
M("c10_disconnect_drops_all", ["C10"], (S, "                if info and info[0] is conn:\n                    del self.streaming_responses[streamId]\n",
                                        "                if info:\n                    del self.streaming_responses[streamId]\n"))
# close_stream does not remove
M("c10_close_stream_noop", ["C10"], (S, "    def close_stream(self, streamId):\n        if streamId in self.daemon.streaming_responses:\n            del self.daemon.streaming_responses[streamId]\n",
                                     "    def close_stream(self, streamId):\n        if streamId in self.daemon.streaming_responses:\n            pass\n"))
# reconnect does not re-associate the client: the next disconnect does not start lingering again
M("c10_reassoc_lost", ["C10"], (S, REASSOC, "            self.daemon.streaming_responses[streamId] = (None, timestamp, 0, stream)\n"))
# housekeeping deletes live (non-lingering) streams as soon as linger is configured
M("c10_hk_linger_hits_live", ["C10"], (S, "                        if info and info[2]:\n                            linger_period = time.time() - info[2]\n",
                                       "                        if info:\n                            linger_period = time.time() - info[2]\n"))
# _streamResponse registers the stream although ITER_STREAMING is off
M("c10_register_when_streaming_off", ["C10"], (S, "                return True, stream_id\n            return True, None\n",
  "                return True, stream_id\n            self.streaming_responses[str(uuid.uuid4())] = (client, time.time(), 0, data)\n            return True, None\n"))
# client iterator skips an item after a reconnect (first next on a new connection throws one item away)
M("c10_client_skips_after_reconnect", ["C10"], (C,
  "        self.pyroseq += 1\n        try:\n            return self.proxy._pyroInvoke(\"get_next_stream_item\", [self.streamId], {}, objectId=core.DAEMON_NAME)\n",
  "        self.pyroseq += 1\n        try:\n            if getattr(self, \"_conn\", self.proxy._pyroConnection) is not self.proxy._pyroConnection:\n"
  "                self.proxy._pyroInvoke(\"get_next_stream_item\", [self.streamId], {}, objectId=core.DAEMON_NAME)\n"
  "            self._conn = self.proxy._pyroConnection\n"
  "            return self.proxy._pyroInvoke(\"get_next_stream_item\", [self.streamId], {}, objectId=core.DAEMON_NAME)\n"))

# ---- own mutants that need something specific
# re-association keeps the old linger timestamp: a stream that was resumed within linger still expires by linger later, while in use
M("c10_reassoc_keeps_linger_ts", ["C10"], (S, REASSOC, "            self.daemon.streaming_responses[streamId] = (current_context.client, timestamp, linger_timestamp, stream)\n"))
# re-association restarts the lifetime (needs lifetime AND linger, a reconnect, and clock advances on both sides of it)
M("c10_reassoc_restarts_lifetime", ["C10"], (S, REASSOC, "            self.daemon.streaming_responses[streamId] = (current_context.client, time.time(), 0, stream)\n"))
# boundary: lifetime / linger expire AT the limit instead of after it (needs clock advances summing exactly to the setting)
M("c10_lifetime_boundary_inclusive", ["C10"], (S, LIFETIME_TEST, "                            if 0 < config.ITER_STREAM_LIFETIME <= last_use_period:\n"))
M("c10_linger_boundary_inclusive", ["C10"], (S, LINGER_TEST, "                            if linger_period >= config.ITER_STREAM_LINGER:\n"))
# the stream is registered without its owning connection: a disconnect before the first next neither drops nor lingers it
M("c10_registered_without_owner", ["C10"], (S, "                self.streaming_responses[stream_id] = (client, time.time(), 0, data)\n",
                                            "                self.streaming_responses[stream_id] = (None, time.time(), 0, data)\n"))
# server skips one item when a lingering stream is picked up again
M("c10_server_skips_on_resume", ["C10"], (S, REASSOC, REASSOC + "            next(stream, None)\n"))
# client close() does nothing when the proxy's sequence number has diverged (the temporary-proxy path): the stream leaks
M("c10_client_close_diverged_noop", ["C10"], (C,
  "                with contextlib.suppress(errors.CommunicationError):\n                    with self.proxy.__copy__() as closingProxy:\n",
  "                with contextlib.suppress(errors.CommunicationError):\n                  if False:\n                    with self.proxy.__copy__() as closingProxy:\n"))
# lifetime measured from the last item instead of creation (every delivered item refreshes the timestamp)
M("c10_lifetime_from_last_use", ["C10"], (S, "        try:\n            return next(stream)\n        except Exception:\n            # in case of error",
  "        try:\n            item = next(stream)\n            info = self.daemon.streaming_responses.get(streamId)\n            if info:\n"
  "                self.daemon.streaming_responses[streamId] = (info[0], time.time(), info[2], info[3])\n            return item\n"
  "        except Exception:\n            # in case of error"))
