#!/venv/bin/python
"""Generates /verif/MANIFEST.json from the table below; a property whose check module does not exist (yet) is listed
under not_applicable with that reason, so the manifest is valid at every commit."""
import json
import os
import sys

ROOT = os.path.dirname(os.path.dirname(os.path.abspath(__file__)))
sys.path.insert(0, ROOT)
import importlib.util

spec = importlib.util.spec_from_file_location("run_check", os.path.join(ROOT, "run_check.py"))
rc = importlib.util.module_from_spec(spec)
spec.loader.exec_module(rc)

# property -> (category, technique, level text, level note, design ref)
T = {
    "C01": ("exploration", "Hypothesis-generated values; round-trip + argument/result differential + reference type mapping; live echo daemon",
            "Generated values (lossless core and each serializer's extra types) are sent through every serializer on the argument and the result path, at serializer level and through a live daemon (args, kwargs, nested, result, batch, stream; compression on/off) and compared type-strictly with the value sent and with an explicit reference mapping. Bounded random exploration: no absence claim.",
            "trusts vlib.values.same() and the reference mapping table written from the serializer docs", "4/C01"),
    "C02": ("exploration", "Hypothesis-generated class shapes x request names x 5 request kinds against a live daemon; reference exposure predicate; side-effect log; concurrent first metadata requests under a deterministic scheduler (all 1-preemption schedules)",
            "Classes are generated from specs (methods/properties/attributes/helpers, base or sub class, exposed per member/class/not), every member body logs; every name variant is requested through all five request kinds with the client-side filter bypassed; the log and the advertised metadata must equal an independently computed exposure predicate.",
            "trusts the harness's own exposure predicate (written from the documentation) and the member log", "4/C02"),
    "C03": ("fault_enumeration", "generated call histories x scripted per-message transport faults (client-side socket shim), execution counters on the server object",
            "Histories of calls on one proxy with a generated fault per message (lost, late, cut at offset k, reset before/after processing, stale replay, altered sequence number; retries 0..2; sequence wrap-around). Oracle: own reply or CommunicationError, execution counts, recovery.",
            "fault wrapper models a transport faithfully (late replies stay in the stream, dead connections stay dead)", "4/C03"),
    "C04": ("exploration", "Hypothesis-generated hostile payload trees encoded directly with each serializer; closed-world type oracle + audit hook; enumerated tag / nesting / shared-object / escaped-key / hand-written msgpack extension sweeps, a slice of them decoded by an interpreter running with -O",
            "Payload trees with class-tagged dicts at any depth and tags from a hostile grammar are encoded directly with serpent/json/marshal/msgpack and decoded on both paths; the result graph may contain only plain data and the closed class set, tags must be accepted exactly by an independent predicate, and sys.addaudithook must see no import/exec/open/socket/process event.",
            "trusts the independent tag predicate and CPython audit events", "4/C04"),
    "C05": ("fault_enumeration", "structure-aware hostile byte streams (every header field, length mismatch, every truncation, garbage) interleaved with witness clients on live daemons; enumerated hostile CONTENT in well-formed messages against a daemon in its own process",
            "Scripts of hostile connections (mutated handshake/invoke messages, before/inside/after handshake, always ended by disconnect) run against live thread-pool and multiplex daemons with and without COMMTIMEOUT while witness proxies keep calling; witnesses must get their own answers, a fresh client must connect, worker/selector accounting must return to baseline.",
            "real sockets and threads: oracle is schedule independent; 'stranded' is decided by polling with a generous ceiling", "4/C05"),
    "C06": ("exploration", "Hypothesis round-trip over all header fields/annotations/payloads/fragmentations + differential against an independent reference codec; mutated bytes into the decoder; atheris (libFuzzer) campaign with the reference parser as in-target oracle",
            "Encode->decode round trip for generated field values over full ranges with scripted stream fragmentation and a trailing message, checked against an independent reference parser written from the header table; mutated and arbitrary byte strings must be rejected unless the reference parser calls them well-formed.",
            "trusts vlib.wire (reference codec, ~80 lines, shares no code with Pyro5.protocol)", "4/C06"),
    "C07": ("exploration", "enumeration of all exception classes x generated args/attributes x serializers x call kinds on a live daemon (TCP and unix socket); concurrent-clients differential (each client gets what it gets alone)",
            "Every Exception subclass of builtins and Pyro5.errors is raised remotely with generated args and attributes through every serializer and call kind; the client must raise the same class with equal args/attributes and a remote traceback, or a PyroError describing the original when the content is unserialisable; the proxy must stay usable.",
            "class exists on both sides = same interpreter; lossless value domain as in C01", "4/C07"),
    "C08": ("exploration", "generated first messages x validator behaviours x pipelined follow-ups sent by a raw socket peer using the reference codec; execution log",
            "A raw peer sends every kind of first message (valid/malformed, any serializer id, any handshake payload, known/unknown object) with INVOKE messages pipelined behind it, against scripted validators on both server types; nothing may be logged by any registered object unless the handshake was accepted, and the failure reply must be CONNECTFAIL + reason + close.",
            "reads replies with the reference codec; tolerates a TCP reset instead of CONNECTFAIL only when bytes were pipelined", "4/C08"),
    "C09": ("exploration", "generated connection/call/re-registration/daemon-shutdown histories against a reference model (thread, multiplex and existing-connection servers) + deterministic line-level scheduler for racing first calls",
            "Histories of connections opening/calling/closing on single/session/percall classes with truthy, falsy and custom-equality instance shapes and failing creators are compared with a reference model of instance identity; racing first calls on a single-mode class are explored under a harness-owned scheduler (all <=2-preemption schedules, then random).",
            "scheduler preempts at source-line granularity only", "4/C09"),
    "C10": ("exploration", "model-based generated histories (open/next/close/disconnect/reconnect/housekeeping - also while an item is being produced - /clock advance) with a virtual clock on live daemons; daemon-internal stream-table operations of 2-3 server threads under a deterministic line-level scheduler (all schedules with <= 1-2 preemptions), oracle = facts common to all sequential orders",
            "Interleaved operations on up to 4 streams from 2 proxies with generated item sequences and lifetime/linger settings; server time is a harness-controlled clock; each next() must give the model's item/StopIteration/exception, forgotten streams must error, and the daemon's stream table must equal the model at quiescence.",
            "virtual clock replaces Pyro5.server.time in the test process", "4/C10"),
    "C11": ("exploration", "generated call lists (also behind an earlier batch on the same BatchProxy, and 1000-2500 calls long) executed as a batch on a live daemon, one by one over the wire on an identical remote object, and sequentially on a local twin (two differentials)",
            "Generated call sequences over a stateful object run as a (oneway) batch through each serializer and one by one on an identical local object; result prefixes, failure position/class and final object state must agree.",
            "local twin is the sequential reference", "4/C11"),
    "C12": ("exploration", "generated multi-client histories with per-call unique annotation tags; leak oracle on every reply; both server types",
            "Histories of returning/raising/oneway/batch/ping/handshake steps from several clients where each method sets uniquely tagged response annotations and records the context it sees; no reply may carry a tag of another call, and recorded contexts must equal what the harness sent.",
            "real threads; oracle independent of scheduling", "4/C12"),
    "C13": ("fault_enumeration", "every way/offset a connection can end x tracked/untracked resources x other open connections, live daemons, hook and close() counters",
            "Connections are ended orderly, abruptly at every byte offset of a request, by malformed/undecodable requests, security errors, oversize declarations and server-side timeouts, with generated numbers of tracked/untracked resources and bystander connections; disconnect hook count, resource close counts, session instance lifetime and worker/selector accounting are checked.",
            "resource tracking from synchronous calls only", "4/C13"),
    "C14": ("fault_enumeration", "Hypothesis stateful-style operation histories run in lock-step on a dict model, MemoryStorage and SqlStorage; reopen points; every sqlite statement as failure point",
            "Operation histories over a hostile alphabet are applied to a reference map and to both back-ends and compared after every step; the sqlite database is reopened at generated points, and for mutating operations the k-th sqlite statement is made to fail (all k) after which the operation must have had no effect.",
            "sqlite failure injection wraps Pyro5.nameserver.sqlite3 in the test process", "4/C14"),
    "C15": ("exploration", "deterministic line-level scheduler: exhaustive <=2-preemption interleavings of small op sets (memory and sqlite back-end, both SERVERTYPE settings, stores of several hundred names) + generated schedules; brute-force linearizability oracle",
            "Small sets of concurrent name server operations on shared names are run under a harness-owned scheduler that preempts at source lines of nameserver.py; every run is checked for linearizability against the map model, for the safe-register and remove-count corollaries, for escaped internal errors and deadlock.",
            "memory back-end only under the scheduler; intra-line preemption is a blind spot", "4/C15"),
    "C16": ("exploration", "model-based generated register/unregister/call/return-object/gc histories on a live daemon",
            "Generated histories over a pool of objects and classes with explicit/colliding/reserved ids, force and weak flags and gc points are compared with a model id->object: calls reach the model's object, registered() equals the model, duplicate registration is refused, returned objects arrive as proxies to that very object or by value after unregistration.",
            "model resolves cases the statement leaves open as documented in DESIGN", "4/C16"),
    "C17": ("fault_enumeration", "exhaustive enumeration of scripted socket behaviours for small sizes + Hypothesis beyond; step-by-step stream model",
            "A scripted fake socket delivers k bytes / raises each retryable errno / a fatal errno / timeout / EOF per call; receive_data and send_data are compared with a model of the stream for all scripts up to a bound (exhaustive) and generated ones beyond, with and without MSG_WAITALL, blocking and timeout mode.",
            "fake socket is sound: EOF is absorbing, deliveries >= 1 byte", "4/C17"),
    "C18": ("exploration", "deterministic line-level scheduler over Pool/Worker: exhaustive <=2-preemption + generated schedules; multi-phase arrive/end histories (with thread-start faults) against an occupancy model, incl. every 1-preemption schedule of a history catalogue; live refusal-reply layer",
            "The pool is driven under a harness-owned scheduler (submit/finish/close racing) and checked for exactly-once execution or justified refusal, worker bound, idle/busy disjointness, no deadlock and worker exit after close; a live layer checks that a refused connection receives CONNECTFAIL naming the pool.",
            "scheduler granularity = source line; threading primitives of svr_threads are replaced by scheduler-aware ones", "4/C18"),
    "C19": ("exploration", "grammar-based Hypothesis generation of URI strings and near-misses; parse/print round-trip, fixed point, hash/eq laws, reference parse for the clean sub-grammar, serializer/proxy/name-server paths; atheris campaign on the parser (thorough)",
            "Generated URI strings and near-misses: every accepted string must print to a text form that is accepted, parses to an equal URI field by field and is a fixed point; equal URIs hash equal, different locations compare unequal, and the URI survives all four serializers (result and argument path), the Proxy state path and NameServer register/lookup. Clean strings are also compared with an independent reference parse.",
            "Python int() defines valid port spellings; reference parse covers only the clean sub-grammar", "4/C19"),
    "C20": ("exploration", "generated WSGI environs (optionally after an earlier request of the same gateway process) against pyro_app with a real in-process name server and objects; authorisation oracle + record of every message the daemons receive",
            "Generated request methods, paths, query strings, key headers/parameters, expose patterns and key settings are fed to the gateway's WSGI app with a real name server and objects behind it; unauthorised requests must get 403/404/405 with zero Pyro traffic, authorised ones exactly one invocation with exactly the parameters and the JSON result/error.",
            "expose patterns drawn from a family whose meaning is computed without re", "4/C20"),
}

# properties whose check is finished and reviewed (a module file that merely exists is not claimed)
READY = ["C%02d" % i for i in range(1, 21)]

NA_REASON = "check not built yet (implementation in progress, see DESIGN.md section 8); nothing is claimed for it at this commit"


def main():
    checks = []
    na = []
    for prop in sorted(T):
        cat, tech, text, note, ref = T[prop]
        mod = rc.CHECKS[prop]
        if prop in READY and os.path.exists(os.path.join(ROOT, "checks", mod + ".py")):
            checks.append({
                "property_id": prop,
                "quick_cmd": "./run_check.py %s --tier quick" % prop,
                "thorough_cmd": "./run_check.py %s --tier thorough" % prop,
                "evidence_file": "evidence/%s.json" % prop,
                "replay_cmd_template": "./run_check.py %s --replay {path}" % prop,
                "engine": "pbt",
                "level_claimed": {"category": cat, "text": text, "design_ref": "DESIGN.md section " + ref},
                "level_note": note,
                "technique": tech,
            })
        else:
            na.append({"property_id": prop, "reason": NA_REASON})
    fixes = []
    kf = json.load(open(os.path.join(ROOT, "known_findings.json")))
    man = {
        "version": 1,
        "setup_cmd": "./setup.sh",
        "hooks": {
            "guard": "PYRO5_VERIF",
            "enable": "no source hooks exist: all instrumentation is done from outside (subclassing Daemon/Proxy, replacing module-level names inside the test process, sys.settrace / sys.addaudithook); the guard name is reserved and unused",
            "baseline_off_cmd": "cd /repo && /venv/bin/python -m pytest -ra -q -p no:cacheprovider --timeout=900 --continue-on-collection-errors",
            "source_commits": [],
            "add_only": True,
        },
        "engines": [{"name": "pbt", "path": "run_check.py", "serves_properties": [c["property_id"] for c in checks],
                     "kind_free_text": "Hypothesis 6.168 strategies + exhaustive enumeration of small finite spaces + harness-owned deterministic thread scheduler + scripted fault injection; explicit oracles (reference models, round trips, differentials)"}],
        "checks": checks,
        "notes": "Every check: ./run_check.py <id> --tier quick|thorough, honours VERIF_SEED, rewrites evidence/<id>.json, exit 0/1/2 (2 = harness error). "
                 "Known findings (genuine defects recorded, not repaired) and fixed ones are in known_findings.json; repo fixes are the 'fix:' commits in /repo. "
                 "Replay: ./run_check.py <id> --replay <file>.",
        "not_applicable": na,
    }
    with open(os.path.join(ROOT, "MANIFEST.json"), "w") as f:
        json.dump(man, f, indent=1)
    print("checks:", [c["property_id"] for c in checks], "not_applicable:", [n["property_id"] for n in na])
    try:
        import jsonschema
        jsonschema.validate(man, json.load(open("/root/.vp/MANIFEST.schema.json")))
        print("manifest validates")
    except ImportError:
        pass


if __name__ == "__main__":
    main()
