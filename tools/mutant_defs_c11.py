"""hand-made mutants for C11 (batch == sequential); applied to a scratch export of /repo by tools/mutants.py

All 23 are CAUGHT by the quick tier (by the committed replays AND, checked separately with the replays switched off, by the
Hypothesis search alone within 450 examples of at least one shard; marshal shards are blind for the member-exception mutants
because of the open marshal finding).  Repo test-suite on each mutant (449 tests): GREEN for
  no_break, gate_skipped, oneway_skips_execution, every_call_twice, first_call_twice, server_drops_kwargs,
  revert_e3112c7_marshal_kwargs_none, revert_9370374_msgpack_exthook, revert_e6dc367_property_getter_runs, break_only_when_first, oneway_ignores_failure,
  gate_private_only, dotted_name_resolved, wrapper_loses_attributes, long_batch_truncated
RED (1-3 of testBatchProxy / testBatchMethod / testBatchOneway / testPyroTracebackBatch fail) for
  results_reordered, generator_yields_exception, generator_swallows_exception, wrapper_raises_generic, client_drops_kwargs,
  failure_drops_earlier_results, batchproxy_oneway_returns_generator, last_failure_swallowed
"""
from tools.mutant_defs import M

S = "Pyro5/server.py"
C = "Pyro5/client.py"
BATCH_GATE = "                    for method, vargs, kwargs in vargs:\n                        method = _get_attribute(obj, method)\n"
BREAK = "                            break  # stop processing the rest of the batch\n"
CALL = "                            result = method(*vargs, **kwargs)  # this is the actual method call to the Pyro object\n"
APPEND = "                            data.append(result)    # note that we don't support streaming results in batch mode\n"
RAISEIT = "                result.raiseIt()  # re-raise the remote exception locally.\n"

# ---- the DESIGN "must catch" list
# the rest of the batch still executes after a failing member
M("c11_no_break", ["C11"], (S, BREAK, "                            pass\n"))
# results list reordered (exception still last)
M("c11_results_reordered", ["C11"], (S, APPEND, "                            data.insert(0, result)\n"))
# exposure gate skipped in the batch branch
M("c11_gate_skipped", ["C11"], (S, BATCH_GATE, "                    for method, vargs, kwargs in vargs:\n                        method = getattr(obj, method)\n"))
# oneway batch does not execute anything
M("c11_oneway_skips_execution", ["C11"], (S, "                    for method, vargs, kwargs in vargs:\n",
                                          "                    for method, vargs, kwargs in ([] if request_flags & protocol.FLAGS_ONEWAY else vargs):\n"))
# every member / only the first member executed twice
M("c11_every_call_twice", ["C11"], (S, CALL, "                            result = (method(*vargs, **kwargs), method(*vargs, **kwargs))[1]\n"))
M("c11_first_call_twice", ["C11"], (S, CALL, "                            result = method(*vargs, **kwargs) if data else (method(*vargs, **kwargs), method(*vargs, **kwargs))[1]\n"))
# BatchProxy result generator: yields the exception instead of raising it / silently skips it and goes on
M("c11_generator_yields_exception", ["C11"], (C, RAISEIT, "                yield result.exception\n"))
M("c11_generator_swallows_exception", ["C11"], (C, RAISEIT, "                continue\n"))
# the wrapper raises a generic exception instead of the carried one
M("c11_wrapper_raises_generic", ["C11"], ("Pyro5/core.py", "        raise self.exception\n", "        raise Exception(str(self.exception))\n"))
# kwargs of batch members dropped: in the daemon / in the BatchProxy client layer
M("c11_server_drops_kwargs", ["C11"], (S, CALL, "                            result = method(*vargs)\n"))
M("c11_client_drops_kwargs", ["C11"], (C, "        self.__calls.append((self.__name, args, kwargs))\n", "        self.__calls.append((self.__name, args, {}))\n"))

# ---- reverts of fix: commits that the batch path depends on
# e3112c7: marshal dumpsCall with kwargs=None (every marshal batch failed before anything was sent)
M("c11_revert_e3112c7_marshal_kwargs_none", ["C11"],
  ("Pyro5/serializers.py", "        if kwargs:\n            kwargs = {key: self.convert_obj_into_marshallable(value) for key, value in kwargs.items()}\n",
   "        kwargs = {key: self.convert_obj_into_marshallable(value) for key, value in kwargs.items()}\n"))
# 9370374: msgpack loadsCall without ext_hook (ints beyond 64 bit arrive as ExtType in batch member arguments)
M("c11_revert_9370374_msgpack_exthook", ["C11"],
  ("Pyro5/serializers.py", "    def loadsCall(self, data):\n        return msgpack.unpackb(self._convertToBytes(data), raw=False, object_hook=self.object_hook, ext_hook=self.ext_hook)\n",
   "    def loadsCall(self, data):\n        return msgpack.unpackb(self._convertToBytes(data), raw=False, object_hook=self.object_hook)\n"))

# e6dc367: _get_attribute runs a property getter before refusing the name (needs a batch member naming a property + state inspection)
M("c11_revert_e6dc367_property_getter_runs", ["C11"],
  (S, "        if inspect.isdatadescriptor(inspect.getattr_static(obj, attr, None)):\n            # properties are only reachable via the remote attribute access path (which checks their exposure)\n            raise AttributeError(\"attempt to access unexposed attribute '%s'\" % attr)\n", ""))

# ---- own mutants that need something specific to manifest
# stops only when the FIRST member fails; a failure in the middle lets the rest run (needs failure at position >= 1 with calls behind it)
M("c11_break_only_when_first", ["C11"], (S, BREAK, "                            if len(data) == 1:\n                                break\n"))
# a ONEWAY batch does not stop at the failure (needs oneway + failure not last + state inspection afterwards)
M("c11_oneway_ignores_failure", ["C11"], (S, BREAK, "                            if not request_flags & protocol.FLAGS_ONEWAY:\n                                break\n"))
# batch gate checks only "private", not "exposed": `hidden` / `__secret__` run, `_private` is still refused
M("c11_gate_private_only", ["C11"], (S, BATCH_GATE,
                                     "                    for method, vargs, kwargs in vargs:\n                        method = _get_attribute(obj, method) if is_private_attribute(method) else getattr(obj, method)\n"))
# batch resolves the first component of a dotted name (needs a dotted member name)
M("c11_dotted_name_resolved", ["C11"], (S, BATCH_GATE,
                                        "                    for method, vargs, kwargs in vargs:\n                        method = _get_attribute(obj, method.split('.')[0] if '.' in method and method[0] != '.' else method)\n"))
# on failure the results collected so far are dropped (failure surfaces at position 0 instead of its own)
M("c11_failure_drops_earlier_results", ["C11"], (S, "                            data.append(core._ExceptionWrapper(xv))\n",
                                                 "                            data[:] = [core._ExceptionWrapper(xv)]\n"))
# BatchProxy(oneway=True) returns a generator instead of None
M("c11_batchproxy_oneway_returns_generator", ["C11"], (C, "        if not oneway:\n            return self.__resultsgenerator(results)\n",
                                                       "        return self.__resultsgenerator(results or [])\n"))
# custom attributes of the member's exception are lost in the wrapper's wire form only (single calls keep them)
M("c11_wrapper_loses_attributes", ["C11"], ("Pyro5/serializers.py", "                ex = SerializerBase.dict_to_class(ex)\n",
                                            "                ex = SerializerBase.dict_to_class({k: (v if k != 'attributes' else {a: b for a, b in v.items() if a.startswith('_pyro')}) for k, v in ex.items()})\n"))
# the batch executes at most 8 members (needs a long batch and state/result count)
M("c11_long_batch_truncated", ["C11"], (S, "                    for method, vargs, kwargs in vargs:\n", "                    for method, vargs, kwargs in vargs[:8]:\n"))
# a failing member that is the LAST one is reported as success with value None (needs failure in last position)
M("c11_last_failure_swallowed", ["C11"], (S, "                            data.append(core._ExceptionWrapper(xv))\n",
                                          "                            data.append(core._ExceptionWrapper(xv) if len(data) + 1 < len(vargs) or len(vargs) == 1 else None)\n"))
