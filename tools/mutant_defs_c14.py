"""hand-made mutants for C14 (name server = map, both back-ends).  All edits are in Pyro5/nameserver.py."""
from tools.mutant_defs import M

F = "Pyro5/nameserver.py"

# ---- reverts of the repairs already made in /repo
# fd94e56: sqlite prefix listing with LIKE (case-insensitive for ascii, '_' and '%' are wildcards)
M("c14_revert_prefix_like", ["C14"],
  (F, 'db.execute("SELECT id, name, uri FROM pyro_names WHERE substr(name, 1, ?) = ?", (len(prefix), prefix))',
      'db.execute("SELECT id, name, uri FROM pyro_names WHERE name LIKE ?", (prefix + \'%\',))'),
  (F, 'db.execute("SELECT name, uri FROM pyro_names WHERE substr(name, 1, ?) = ?", (len(prefix), prefix))',
      'db.execute("SELECT name, uri FROM pyro_names WHERE name LIKE ?", (prefix + \'%\',))'))
# 746ac06: sqlite yplookup(meta_all=[m, m]) demands COUNT == 2
M("c14_revert_metaall_dups", ["C14"],
  (F, "                    metadata_all = set(metadata_all)   # duplicates in the argument must not raise the required count\n", ""))

# ---- must-catch list of the DESIGN entry
# only a failed metadata INSERT (or COMMIT) shows it: the entry is already committed without its tags
M("c14_commit_before_meta_inserts", ["C14"],
  (F, '                cursor.execute("INSERT INTO pyro_names(name, uri) VALUES(?,?)", (key, uri))\n                if metadata:',
      '                cursor.execute("INSERT INTO pyro_names(name, uri) VALUES(?,?)", (key, uri))\n                db.commit()\n                if metadata:'),
  (F, "                cursor.close()\n                db.commit()\n", "                cursor.close()\n"))
M("c14_remove_count_before_ns_filter", ["C14"],
  (F, "                items = list(self.list(prefix=prefix).keys())\n                if core.NAMESERVER_NAME in items:\n                    items.remove(core.NAMESERVER_NAME)\n"
      "                self.storage.remove_items(items)\n                return len(items)",
      "                items = list(self.list(prefix=prefix).keys())\n                count = len(items)\n                if core.NAMESERVER_NAME in items:\n                    items.remove(core.NAMESERVER_NAME)\n"
      "                self.storage.remove_items(items)\n                return count"))
M("c14_mem_prefix_lowercased", ["C14"],
  (F, "                    if name.startswith(prefix):", "                    if name.lower().startswith(prefix.lower()):"))
# tags of the old registration stay behind; they re-appear as soon as a new row re-uses the row id (needs: re-register of
# the entry that holds the highest row id, or any later insert after a delete of the highest id)
M("c14_stale_metadata_rows_on_reregister", ["C14"],
  (F, '                cursor.execute("PRAGMA foreign_keys=ON")\n', ""),
  (F, '                    cursor.execute("DELETE FROM pyro_metadata WHERE object=?", (dbid,))\n', ""))
# set_metadata = delete, then insert: a failure in the insert loses the entry (sqlite) - invisible without failure injection
M("c14_setmeta_delete_then_insert", ["C14"],
  (F, "                uri, old_meta = self.storage[name]\n", "                uri, old_meta = self.storage[name]\n                del self.storage[name]\n"))

# ---- own mutants that need something specific
# partial removal: needs remove(prefix|regex) with >= 2 victims and a failure in the statements of the second one
M("c14_remove_items_commit_per_item", ["C14"],
  (F, '                        db.execute("DELETE FROM pyro_names WHERE id=?", (dbid,))\n                db.commit()',
      '                        db.execute("DELETE FROM pyro_names WHERE id=?", (dbid,))\n                        db.commit()\n                db.commit()'))
# needs a non-ascii prefix (byte length != character length)
M("c14_prefix_length_in_bytes", ["C14"],
  (F, 'db.execute("SELECT id, name, uri FROM pyro_names WHERE substr(name, 1, ?) = ?", (len(prefix), prefix))',
      'db.execute("SELECT id, name, uri FROM pyro_names WHERE substr(name, 1, ?) = ?", (len(prefix.encode("utf-8")), prefix))'),
  (F, 'db.execute("SELECT name, uri FROM pyro_names WHERE substr(name, 1, ?) = ?", (len(prefix), prefix))',
      'db.execute("SELECT name, uri FROM pyro_names WHERE substr(name, 1, ?) = ?", (len(prefix.encode("utf-8")), prefix))'))
# needs the NS entry registered and a regex that matches it
M("c14_regex_remove_takes_ns_entry", ["C14"],
  (F, "                items = list(self.list(regex=regex).keys())\n                if core.NAMESERVER_NAME in items:\n                    items.remove(core.NAMESERVER_NAME)\n",
      "                items = list(self.list(regex=regex).keys())\n"))
# needs two names that differ only in case + safe register / remove by name of the absent one
M("c14_sql_contains_nocase", ["C14"],
  (F, "SELECT EXISTS(SELECT 1 FROM pyro_names WHERE name=? LIMIT 1)", "SELECT EXISTS(SELECT 1 FROM pyro_names WHERE name=? COLLATE NOCASE LIMIT 1)"))
M("c14_sql_schema_nocase", ["C14"],
  (F, "                name nvarchar NOT NULL UNIQUE,", "                name nvarchar NOT NULL UNIQUE COLLATE NOCASE,"))
# needs a regex that matches in the middle of a name only
M("c14_regex_search_instead_of_match", ["C14"],
  (F, "                        if regex.match(name):", "                        if regex.search(name):"))
# remove by name: tags deleted and committed before the name row goes; needs a failure at exactly that statement
M("c14_delitem_commit_between", ["C14"],
  (F, '                    db.execute("DELETE FROM pyro_metadata WHERE object=?", (dbid,))\n                    db.execute("DELETE FROM pyro_names WHERE id=?", (dbid,))\n                db.commit()',
      '                    db.execute("DELETE FROM pyro_metadata WHERE object=?", (dbid,))\n                    db.commit()\n                    db.execute("DELETE FROM pyro_names WHERE id=?", (dbid,))\n                db.commit()'))
# yplookup(meta_any) on sqlite answers like meta_all when two or more tags are given
M("c14_sql_metaany_needs_all", ["C14"],
  (F, "                if metadata_any:\n                    # any of the given metadata\n                    params = list(metadata_any)\n",
      "                if metadata_any and len(set(metadata_any)) < 2:\n                    # any of the given metadata\n                    params = list(metadata_any)\n"),
  (F, "                    metadata_all = set(metadata_all)   # duplicates", "                    metadata_all = set(metadata_all or metadata_any)   # duplicates"))
# safe register checks existence but an unsafe re-register keeps the OLD uri on the memory back-end when tags are given
M("c14_mem_setitem_keeps_old_uri", ["C14"],
  (F, "        super(MemoryStorage, self).__setitem__(key, (uri, metadata or frozenset()))",
      "        if key in self and metadata and self[key][1]:\n            uri = self[key][0]\n        super(MemoryStorage, self).__setitem__(key, (uri, metadata or frozenset()))"))
