#!/venv/bin/python
"""Sensitivity harness: apply a hand-made mutant to /repo, run the quick check(s) that must catch it, revert.

usage: tools/mutants.py [name ...]      (no names: all)      --tests also runs the repo test-suite on the mutant
A mutant is (file, old, new, [properties]).  Mutants are applied to a scratch export of /repo's HEAD under /var/tmp
(removed afterwards) and the check is pointed at it with VERIF_REPO, so /repo itself is never touched and several
mutant runs can go on in parallel.
"""
import subprocess
import sys
import os
import time

ROOT = os.path.dirname(os.path.dirname(os.path.abspath(__file__)))
sys.path.insert(0, ROOT)
from tools.mutant_defs import MUTANTS   # noqa
import glob, importlib
for _f in sorted(glob.glob(os.path.join(ROOT, 'tools', 'mutant_defs_*.py'))):
    importlib.import_module('tools.' + os.path.basename(_f)[:-3])


def sh(cmd, **kw):
    return subprocess.run(cmd, shell=True, stdout=subprocess.PIPE, stderr=subprocess.STDOUT, text=True, **kw)


def main():
    args = [a for a in sys.argv[1:] if not a.startswith("--")]
    run_tests = "--tests" in sys.argv
    tier = "quick"
    names = args or sorted(MUTANTS)
    import tempfile, shutil
    scratch = tempfile.mkdtemp(prefix="mut_", dir="/var/tmp")
    results = []
    for name in names:
        if name.endswith(":"):
            sel = [n for n in sorted(MUTANTS) if n.startswith(name[:-1])]
        else:
            sel = [name]
        for n in sel:
            edits, props = MUTANTS[n]
            try:
                if os.path.exists(os.path.join(scratch, "repo")):
                    shutil.rmtree(os.path.join(scratch, "repo"))
                sh("mkdir -p %s/repo && cd /repo && git archive HEAD | tar -x -C %s/repo" % (scratch, scratch))
                for path, old, new in edits:
                    p = os.path.join(scratch, "repo", path)
                    s = open(p).read()
                    if s.count(old) != 1:
                        raise RuntimeError("mutant %s: pattern occurs %d times in %s" % (n, s.count(old), path))
                    open(p, "w").write(s.replace(old, new))
                line = [n]
                if run_tests:
                    r = sh("cd %s/repo && PYTHONPATH=%s/repo /venv/bin/python -m pytest -q -x -p no:cacheprovider --timeout=900 2>&1 | tail -1" % (scratch, scratch))
                    line.append("tests: " + r.stdout.strip()[-60:])
                for prop in props:
                    t0 = time.time()
                    r = sh("VERIF_REPO=%s/repo timeout -k 5 900 %s/run_check.py %s --tier %s" % (scratch, ROOT, prop, tier))
                    viol = [l for l in r.stdout.splitlines() if l.startswith("VIOLATION")]
                    line.append("%s rc=%d %s (%.0fs)" % (prop, r.returncode, "CAUGHT" if r.returncode == 1 and viol else "MISSED" if r.returncode == 0 else "ERROR", time.time() - t0))
                    if r.returncode == 2:
                        line.append(r.stdout[-400:])
                    elif r.returncode == 1:
                        sigs = [l.strip() for l in r.stdout.splitlines() if l.startswith("  ")][:2]
                        line.append(" | ".join(s[:150] for s in sigs))
                print(" ; ".join(line), flush=True)
            finally:
                shutil.rmtree(os.path.join(scratch, "repo"), ignore_errors=True)
    shutil.rmtree(scratch, ignore_errors=True)
    return 0


if __name__ == "__main__":
    sys.exit(main())
