#!/venv/bin/python
"""prints the markdown table of seeded changes from seeded/*/meta.json (+ descriptions.json) and fills 'breaks'/'needs' into meta.json"""
import glob, json, os
ROOT = os.path.dirname(os.path.dirname(os.path.abspath(__file__)))
desc = json.load(open(os.path.join(ROOT, "seeded", "descriptions.json")))
rows = []
for d in sorted(glob.glob(os.path.join(ROOT, "seeded", "C*-*"))):
    name = os.path.basename(d)
    mp = os.path.join(d, "meta.json")
    if not os.path.exists(mp):
        continue
    m = json.load(open(mp))
    what, needs = desc.get(name, ["", ""])
    m["breaks_property"] = m.get("property", name.split("-")[0])
    m["change"] = what
    m["needs_to_manifest"] = needs
    json.dump(m, open(mp, "w"), indent=1, sort_keys=True)
    hist = m.get("check_history", [])
    prop = name.split("-")[0]
    first = hist[0]["results"].get(prop, "?") if hist else "?"
    last = hist[-1]["results"].get(prop, "?") if hist else "?"
    others = sorted({p for h in hist for p, r in h["results"].items() if p != prop and r == "CAUGHT"})
    demo = "ok" if m.get("demo_clean", {}).get("rc") == 0 and m.get("demo_patched", {}).get("rc") not in (0, None) else "not confirmed"
    tests = (m.get("repo_tests_with_change") or "").split(" in ")[0]
    rows.append("| %s | %s | %s | %s | %s | %s | %s%s |" % (name, what, needs, tests, demo, first, last, (" (+" + ",".join(others) + ")") if others else ""))
print("| seeded change | what was changed | needs | repo tests | demo | first run | final |")
print("|---|---|---|---|---|---|---|")
print("\n".join(rows))
