"""mutants of Pyro5/utils/httpgateway.py for C20 (run: tools/mutants.py c20_)"""
from tools.mutant_defs import M

G = "Pyro5/utils/httpgateway.py"

_PATTERN_BLOCK = ("    if pyro_app.ns_regex and not re.match(pyro_app.ns_regex, object_name):\n"
                  "        start_response('403 Forbidden', cors_response_header([('Content-Type', 'text/plain')], pyro_app.cors))\n"
                  "        return [b\"403 Forbidden - access to the requested object has been denied\"]\n")
_LOOKUP = ("        nameserver = get_nameserver()\n"
           "        uri = nameserver.lookup(object_name)\n")

# ---- the must-catch list of DESIGN.md / the task
# expose pattern checked only after the name server was asked (traffic before the 403)
M("c20_pattern_after_lookup", ["C20"],
  (G, _PATTERN_BLOCK + "    try:\n" + _LOOKUP,
   "    try:\n" + _LOOKUP +
   "        if pyro_app.ns_regex and not re.match(pyro_app.ns_regex, object_name):\n"
   "            start_response('403 Forbidden', cors_response_header([('Content-Type', 'text/plain')], pyro_app.cors))\n"
   "            return [b\"403 Forbidden - access to the requested object has been denied\"]\n"))
# key compared with `in` (any non-empty substring of the key is accepted)
M("c20_key_in", ["C20"], (G, "        if gateway_key != pyro_app.gateway_key:", "        if not gateway_key or gateway_key not in pyro_app.gateway_key:"))
# key compared with startswith (any superstring of the key is accepted)
M("c20_key_startswith", ["C20"], (G, "        if gateway_key != pyro_app.gateway_key:", "        if not gateway_key.startswith(pyro_app.gateway_key):"))
# $key stays in the parameters and reaches the object as a kwarg
M("c20_key_param_forwarded", ["C20"], (G, "        if \"$key\" in parameters:\n            del parameters[\"$key\"]\n", ""))
# expose pattern may match anywhere in the name
M("c20_pattern_search", ["C20"], (G, "not re.match(pyro_app.ns_regex, object_name)", "not re.search(pyro_app.ns_regex, object_name)"))
# key check skipped for POST
M("c20_key_skipped_for_post", ["C20"], (G, "    if pyro_app.gateway_key:\n", "    if pyro_app.gateway_key and environ.get(\"REQUEST_METHOD\") != \"POST\":\n"))
# the 403 for a wrong key is sent only after the name server was contacted
M("c20_403_after_ns", ["C20"], (G, "        if gateway_key != pyro_app.gateway_key:\n", "        if gateway_key != pyro_app.gateway_key:\n            get_nameserver()\n"))
# PUT is dispatched like GET/POST
M("c20_put_allowed", ["C20"], (G, "        if method in (\"GET\", \"POST\", \"OPTIONS\"):", "        if method in (\"GET\", \"POST\", \"OPTIONS\", \"PUT\"):"))
# oneway option ignored: synchronous call, reply body returned
M("c20_oneway_ignored", ["C20"], (G, "    pyro_options = environ.get(\"HTTP_X_PYRO_OPTIONS\", \"\").split(\",\")", "    pyro_options = []"))
# (removing only `proxy._pyroOneway.add(method)` is an equivalent mutant for this statement: the call then runs synchronously,
#  exactly once, and the client still gets 200 with an empty body)
# oneway call sent twice
M("c20_oneway_twice", ["C20"], (G, "                    msg = getattr(proxy, method)(**parameters)\n",
                                "                    msg = getattr(proxy, method)(**parameters)\n"
                                "                    if \"oneway\" in pyro_options:\n"
                                "                        getattr(proxy, method)(**parameters)\n"))
# repeated query keys collapse to the last value
M("c20_repeated_keys_last", ["C20"], (G, "        if isinstance(value, (list, tuple)) and len(value) == 1:\n            parameters[key] = value[0]",
                                      "        if isinstance(value, (list, tuple)) and len(value) >= 1:\n            parameters[key] = value[-1]"))

# ---- own mutants that need something specific to manifest
# request method compared case-insensitively: 'get' is dispatched
M("c20_method_upper", ["C20"], (G, "    method = environ.get(\"REQUEST_METHOD\")\n", "    method = (environ.get(\"REQUEST_METHOD\") or \"\").upper()\n"))
# path prefix tested with an unanchored-dot regex: /pyrox/<obj>/<member> and /pyro./... are dispatched (object name "/<obj>":
# reaches the name server only when the expose pattern is empty)
M("c20_prefix_regex_dot", ["C20"], (G, "    if path.startswith(\"pyro/\"):", "    if re.match(r\"pyro.\", path):"))
# $key is removed from the parameters even when no gateway key is configured (then it is an ordinary query parameter)
M("c20_key_param_always_dropped", ["C20"], (G, "        if \"$key\" in parameters:\n            del parameters[\"$key\"]\n    if pyro_app.ns_regex",
                                            "    if \"$key\" in parameters:\n        del parameters[\"$key\"]\n    if pyro_app.ns_regex"))
# key compared case-insensitively
M("c20_key_case_insensitive", ["C20"], (G, "        if gateway_key != pyro_app.gateway_key:", "        if gateway_key.lower() != pyro_app.gateway_key.lower():"))
# key stripped before comparing (' secret' accepted)
M("c20_key_stripped", ["C20"], (G, "        gateway_key = gateway_key.encode(\"utf-8\")", "        gateway_key = gateway_key.strip().encode(\"utf-8\")"))
# header key ignored when a $key parameter is present... and the parameter wins even when the header is wrong: covered by 'either'
# index page lists every registered object, not only those matching the pattern
M("c20_index_ignores_pattern", ["C20"], (G, "nameserver.list(regex=pyro_app.ns_regex).keys()", "nameserver.list().keys()"))
# object name lower-cased for the lookup: /pyro/http.Calc/... runs on http.calc
M("c20_lookup_lowercased", ["C20"], (G, "        uri = nameserver.lookup(object_name)\n", "        uri = nameserver.lookup(object_name.lower())\n"))
# blank query values are kept and forwarded
M("c20_blank_values_kept", ["C20"], (G, "urllib.parse.parse_qs(environ[\"QUERY_STRING\"])", "urllib.parse.parse_qs(environ[\"QUERY_STRING\"], keep_blank_values=True)"))
# remote exception answered with 200
M("c20_exception_200", ["C20"], (G, "                    start_response('500 Internal Server Error', cors_response_header([\n                      ('Content-Type', 'application/json; charset=utf-8')\n                      ], pyro_app.cors))\n                    return [msg.data]",
                                 "                    start_response('200 OK', cors_response_header([\n                      ('Content-Type', 'application/json; charset=utf-8')\n                      ], pyro_app.cors))\n                    return [msg.data]"))
# attribute read also sends the query parameters as a method call first (member executed twice for properties is impossible; instead:
# the property value is fetched twice)
M("c20_property_read_twice", ["C20"], (G, "                    msg = getattr(proxy, method)\n", "                    getattr(proxy, method)\n                    msg = getattr(proxy, method)\n"))
# key check only when the object matches the pattern ... order swap is equivalent; instead: key not required for $meta
M("c20_meta_without_key", ["C20"], (G, "    if pyro_app.gateway_key:\n", "    if pyro_app.gateway_key and method != \"$meta\":\n"))
# the cached name server proxy is refreshed (new connection) on every request before any check
M("c20_ns_contacted_first", ["C20"], (G, "    pyro_options = environ.get(\"HTTP_X_PYRO_OPTIONS\", \"\").split(\",\")\n    if not path:",
                                      "    pyro_options = environ.get(\"HTTP_X_PYRO_OPTIONS\", \"\").split(\",\")\n    if path and \"/\" in path:\n        get_nameserver()\n    if not path:"))
