#!/bin/sh
# usage: tools/trypatch.sh <seeded-name> [Cxx ...] [-- extra run_check args]   run checks against a scratch copy of /repo HEAD with the seeded patch applied (meta.json untouched)
name=$1; shift
props=""; while [ $# -gt 0 ] && [ "$1" != "--" ]; do props="$props $1"; shift; done
[ "$1" = "--" ] && shift
[ -z "$props" ] && props=$(echo $name | cut -d- -f1)
d=$(mktemp -d /var/tmp/try_XXXXXX)
(cd /repo && git archive HEAD | tar -x -C $d) || exit 2
(cd $d && git init -q . && git apply --whitespace=nowarn /verif/seeded/$name/patch.diff) || { echo "patch does not apply"; rm -rf $d; exit 2; }
rm -rf $d/.git
for p in $props; do
  echo "== $name vs $p"
  VERIF_REPO=$d VERIF_NO_EVIDENCE=1 timeout -k 5 1500 /verif/run_check.py $p --tier quick "$@" 2>&1 | grep -v "^KNOWN-FINDING" | tail -8
done
rm -rf $d
