#!/venv/bin/python
"""Confirm a seeded change and run our checks against it.

usage: tools/seeded.py import <ID> <src_out_dir>       copy A/B from an agent's out/ dir into seeded/<ID>-a, seeded/<ID>-b
       tools/seeded.py confirm <name> [--no-tests]     seeded/<name>/{patch.diff,demo.py}: apply to a scratch export of /repo HEAD,
                                                       run the repo test-suite, the demo with and without the change, and the
                                                       property's quick check (VERIF_REPO=scratch); writes seeded/<name>/meta.json
       tools/seeded.py check <name> [Cxx ...] [--thorough]   only run checks against the patched scratch copy
Everything happens on scratch copies under /var/tmp which are removed afterwards; /repo is never touched.
"""
import json
import os
import shutil
import subprocess
import sys
import tempfile
import time

ROOT = os.path.dirname(os.path.dirname(os.path.abspath(__file__)))
PY = "/venv/bin/python"


def sh(cmd, timeout=None, **kw):
    try:
        return subprocess.run(cmd, shell=True, stdout=subprocess.PIPE, stderr=subprocess.STDOUT, text=True, timeout=timeout, **kw)
    except subprocess.TimeoutExpired as x:
        class R:
            returncode = 124
            stdout = (x.stdout or b"").decode("utf-8", "replace") if isinstance(x.stdout, bytes) else (x.stdout or "") + "\nTIMEOUT"
        return R()


def export(dst):
    os.makedirs(dst)
    r = sh("cd /repo && git archive HEAD | tar -x -C %s" % dst)
    assert r.returncode == 0, r.stdout


def cmd_import(ident, src):
    for letter in ("A", "B", "C", "D", "E", "F", "G", "H", "I", "J", "K", "L", "M", "N"):
        d = os.path.join(ROOT, "seeded", "%s-%s" % (ident, letter.lower()))
        if not os.path.exists(os.path.join(src, letter + ".diff")):
            continue
        os.makedirs(d, exist_ok=True)
        shutil.copy(os.path.join(src, letter + ".diff"), os.path.join(d, "patch.diff"))
        shutil.copy(os.path.join(src, "demo_%s.py" % letter), os.path.join(d, "demo.py"))
        if os.path.exists(os.path.join(src, "notes.md")):
            shutil.copy(os.path.join(src, "notes.md"), os.path.join(d, "author_notes.md"))
        print("imported", d)


def run_checks(scratch, props, tier):
    out = {}
    for prop in props:
        t0 = time.time()
        r = sh("VERIF_REPO=%s timeout -k 5 1500 %s/run_check.py %s --tier %s" % (scratch, ROOT, prop, tier))
        viol = [l for l in r.stdout.splitlines() if l.startswith("VIOLATION")]
        details = [l.strip()[:400] for l in r.stdout.splitlines() if l.startswith("  ")][:3]
        out[prop] = {"rc": r.returncode, "caught": r.returncode == 1 and bool(viol), "wall_s": round(time.time() - t0, 1), "first_violations": details}
    return out


def cmd_confirm(name, run_tests=True, extra_props=(), tier="quick", only_checks=False):
    d = os.path.join(ROOT, "seeded", name)
    prop = name.split("-")[0]
    base = tempfile.mkdtemp(prefix="seeded_", dir="/var/tmp")
    clean, patched = os.path.join(base, "clean"), os.path.join(base, "patched")
    meta_path = os.path.join(d, "meta.json")
    meta = json.load(open(meta_path)) if os.path.exists(meta_path) else {}
    meta.setdefault("property", prop)
    try:
        export(clean)
        export(patched)
        r = sh("cd %s && git init -q . && git apply --whitespace=nowarn %s" % (patched, os.path.join(d, "patch.diff")))
        if r.returncode != 0:
            r = sh("cd %s && patch -p1 < %s" % (patched, os.path.join(d, "patch.diff")))
        meta["patch_applies"] = r.returncode == 0
        if r.returncode != 0:
            meta["patch_error"] = r.stdout[-500:]
            print(name, "PATCH DOES NOT APPLY", r.stdout[-300:])
            return meta
        shutil.rmtree(os.path.join(patched, ".git"), ignore_errors=True)
        if not only_checks:
            if run_tests:
                r = sh("cd %s && PYTHONPATH=%s %s -m pytest -q -p no:cacheprovider --timeout=900 2>&1 | tail -1" % (patched, patched, PY), timeout=1200)
                meta["repo_tests_with_change"] = r.stdout.strip()[-120:]
            for label, tree in (("clean", clean), ("patched", patched)):
                r = sh("cd %s && PYTHONPATH=%s timeout -k 5 180 %s %s" % (tree, tree, PY, os.path.join(d, "demo.py")), timeout=240)
                meta["demo_" + label] = {"rc": r.returncode, "tail": r.stdout.strip()[-300:]}
        props = [prop] + [p for p in extra_props if p != prop]
        res = run_checks(patched, props, tier)
        meta.setdefault("checks", {}).update({"%s:%s" % (p, tier): v for p, v in res.items()})
        meta.setdefault("check_history", []).append({
            "verif_commit": sh("git -C %s log --format=%%h -1" % ROOT).stdout.strip() + ("+uncommitted" if sh("git -C %s status --porcelain" % ROOT).stdout.strip() else ""),
            "tier": tier, "results": {p: ("CAUGHT" if v["caught"] else "missed" if v["rc"] == 0 else "rc%d" % v["rc"]) for p, v in res.items()}})
        meta["ran"] = "tools/seeded.py confirm %s (scratch export of /repo HEAD %s; checks run with VERIF_REPO on the patched copy)" % (
            name, sh("git -C /repo log --format=%h -1").stdout.strip())
        with open(meta_path, "w") as f:
            json.dump(meta, f, indent=1, sort_keys=True)
        ok_demo = meta.get("demo_clean", {}).get("rc") == 0 and meta.get("demo_patched", {}).get("rc") not in (0, None)
        print("%s: tests[%s] demo clean rc=%s patched rc=%s (%s) ; %s" % (
            name, meta.get("repo_tests_with_change", "-"), meta.get("demo_clean", {}).get("rc"), meta.get("demo_patched", {}).get("rc"),
            "demo OK" if ok_demo else "DEMO NOT CONFIRMED",
            " ".join("%s=%s(%ss)" % (p, "CAUGHT" if v["caught"] else "missed" if v["rc"] == 0 else "rc%d" % v["rc"], v["wall_s"]) for p, v in res.items())), flush=True)
        return meta
    finally:
        shutil.rmtree(base, ignore_errors=True)


if __name__ == "__main__":
    a = sys.argv[1:]
    if a[0] == "import":
        cmd_import(a[1], a[2])
    elif a[0] == "confirm":
        for n in [x for x in a[1:] if not x.startswith("--")]:
            cmd_confirm(n, run_tests="--no-tests" not in a)
    elif a[0] == "check":
        names = [x for x in a[1:] if not x.startswith("--") and not (x.startswith("C") and len(x) == 3)]
        props = [x for x in a[1:] if x.startswith("C") and len(x) == 3]
        for n in names:
            cmd_confirm(n, run_tests=False, extra_props=props, tier="thorough" if "--thorough" in a else "quick", only_checks=True)
