#!/venv/bin/python
"""atheris (libFuzzer) target for C06/C19: coverage-guided bytes -> Pyro5 decoder, oracle = independent reference codec.

usage: fuzz_wire.py <target wire|uri> <corpus_dir> -runs=N -seed=S     (exit code 0; a failing input is written to <corpus_dir>/../crash-*)
The semantic oracle is inside the target: a decoder that accepts what the reference parser calls malformed (or decodes it
differently) raises, which libFuzzer reports as a crash and saves the input.
"""
import os
import sys

ROOT = os.path.dirname(os.path.dirname(os.path.abspath(__file__)))
sys.path[:0] = [ROOT, os.path.join(ROOT, ".deps")]
if os.environ.get("VERIF_REPO"):
    sys.path.insert(0, os.environ["VERIF_REPO"])
import atheris  # noqa

with atheris.instrument_imports(include=["Pyro5"]):
    import Pyro5.protocol  # noqa
    import Pyro5.core  # noqa
    import Pyro5.socketutil  # noqa

from vlib import wire  # noqa
from vlib.fakesock import FakeSocket, install_nosleep  # noqa

install_nosleep()
MAXB = 1 << 20


class OracleFailure(Exception):
    pass


def target_wire(data):
    from Pyro5 import protocol, socketutil, config
    config.MAX_MESSAGE_SIZE = MAXB
    sock = FakeSocket(data, [], tail="rest")
    conn = socketutil.SocketConnection(sock, keep_open=True)
    try:
        dec = protocol.recv_stub(conn)
    except Exception:
        return
    used = data[:sock.pos]
    try:
        r = wire.ref_parse(used, MAXB)
    except wire.Malformed as x:
        raise OracleFailure("decoder accepted %d bytes that are not a well-formed message: %s" % (sock.pos, x))
    if (dec.type, dec.seq, dec.serializer_id) != (r["type"], r["seq"], r["ser"]) or bytes(dec.data) != r["data"] or \
            (dec.flags & ~wire.F_COMPRESSED) != (r["flags"] & ~wire.F_COMPRESSED):
        raise OracleFailure("decoded fields differ from the reference parser")
    want = {}
    for k, v in r["annotations"]:
        want[k] = v
    if {k: bytes(v) for k, v in dec.annotations.items()} != want:
        raise OracleFailure("decoded annotations differ from the reference parser")


def target_uri(data):
    from Pyro5 import core
    try:
        s = data.decode("utf-8")
    except UnicodeDecodeError:
        return
    try:
        u = core.URI(s)
    except Exception:
        return
    from checks import c19_uri
    viols, _ = c19_uri.check_uri_string(s)
    import json
    known = {"C19:pyrometa-emptytags:text", "C19:pyrometa-at-in-tag:text", "C19:host-dotslashu:text"}
    bad = [v for v in viols if v.signature not in known]
    if bad:
        raise OracleFailure("%s: %s" % (bad[0].signature, bad[0].what))


def main():
    which = sys.argv[1]
    argv = [sys.argv[0]] + sys.argv[2:]
    atheris.Setup(argv, target_wire if which == "wire" else target_uri)
    atheris.Fuzz()


if __name__ == "__main__":
    main()
