"""Scripted socket for C17 / C06: every recv/send call consumes one script element.

recv script elements
    ("data", k)     deliver min(k, requested, remaining) bytes (k >= 1); at end of stream behaves as EOF
    ("err", errno)  raise OSError(errno, ...)
    ("timeout",)    raise socket.timeout
    ("eof",)        report end of stream - absorbing, like a real socket: every later recv returns b""
After the script is exhausted: `tail` = "rest" (deliver whatever is asked until the stream ends, then EOF) or "eof".

send script elements (for send(); sendall() consumes one element too)
    ("accept", k)   accept min(k, len(data)) bytes (k >= 1)
    ("err", errno) / ("timeout",)
After the script is exhausted everything is accepted.
"""
import errno as _errno
import os
import socket


class FakeSocket(object):
    family = socket.AF_INET

    def __init__(self, stream=b"", script=(), timeout=None, tail="rest", send_script=()):
        self.stream = bytes(stream)
        self.pos = 0
        self.script = list(script)
        self.tail = tail
        self.eof = False
        self.timeout = timeout
        self.calls = []
        self.sent = bytearray()
        self.send_script = list(send_script)
        self.closed = False

    # -- receiving
    def recv(self, n, flags=0):
        if self.eof:
            self.calls.append(("recv", n, flags, "eof"))
            return b""
        if self.script:
            el = self.script.pop(0)
        elif self.tail == "rest":
            el = ("data", 1 << 30)
        else:
            el = ("eof",)
        kind = el[0]
        if kind == "data":
            k = min(el[1], n, len(self.stream) - self.pos)
            if k <= 0 and n > 0:
                self.eof = True
                self.calls.append(("recv", n, flags, "eof"))
                return b""
            chunk = self.stream[self.pos:self.pos + k]
            self.pos += k
            self.calls.append(("recv", n, flags, k))
            return chunk
        if kind == "eof":
            self.eof = True
            self.calls.append(("recv", n, flags, "eof"))
            return b""
        if kind == "timeout":
            self.calls.append(("recv", n, flags, "timeout"))
            raise socket.timeout("timed out")
        if kind == "err":
            self.calls.append(("recv", n, flags, "err%d" % el[1]))
            raise OSError(el[1], os.strerror(el[1]))
        raise AssertionError("bad script element %r" % (el,))

    # -- sending
    def _send_el(self):
        if self.send_script:
            return self.send_script.pop(0)
        return ("accept", 1 << 30)

    def send(self, data, flags=0):
        data = memoryview(data).cast("B") if not isinstance(data, (bytes, bytearray)) else data      # a socket sees the BYTES of a buffer
        el = self._send_el()
        if el[0] == "accept":
            k = min(el[1], len(data))
            self.sent.extend(bytes(data[:k]))
            self.calls.append(("send", len(data), k))
            return k
        if el[0] == "timeout":
            self.calls.append(("send", len(data), "timeout"))
            raise socket.timeout("timed out")
        self.calls.append(("send", len(data), "err%d" % el[1]))
        raise OSError(el[1], os.strerror(el[1]))

    def sendall(self, data, flags=0):
        data = memoryview(data).cast("B") if not isinstance(data, (bytes, bytearray)) else data
        el = self._send_el()
        if el[0] == "accept":
            self.sent.extend(bytes(data))
            self.calls.append(("sendall", len(data), len(data)))
            return None
        # a failing sendall has transmitted an unknown prefix
        k = min(el[2] if len(el) > 2 else 0, len(data))
        self.sent.extend(bytes(data[:k]))
        if el[0] == "timeout":
            self.calls.append(("sendall", len(data), "timeout"))
            raise socket.timeout("timed out")
        self.calls.append(("sendall", len(data), "err%d" % el[1]))
        raise OSError(el[1], os.strerror(el[1]))

    def gettimeout(self):
        return self.timeout

    def settimeout(self, t):
        self.timeout = t

    def getpeername(self):
        return ("fake", 0)

    def getsockname(self):
        return ("fake", 1)

    def shutdown(self, how):
        pass

    def close(self):
        self.closed = True

    def fileno(self):
        return -1


class FakeSSLSocket(FakeSocket):
    """has getpeercert: forces the code under test onto the path without MSG_WAITALL"""
    def getpeercert(self):
        return None


RETRYABLE = [_errno.EINTR, _errno.EAGAIN, _errno.EWOULDBLOCK, _errno.EINPROGRESS]
FATAL = [_errno.ECONNRESET, _errno.EPIPE, _errno.EBADF, _errno.ECONNABORTED, _errno.ENOTCONN, _errno.ETIMEDOUT]


class NoSleep(object):
    """replacement for the `time` module inside Pyro5.socketutil: retry back-off costs nothing"""
    def __init__(self, real):
        self._real = real
        self.slept = 0

    def sleep(self, s):
        self.slept += 1

    def __getattr__(self, name):
        return getattr(self._real, name)


def install_nosleep():
    import time
    import Pyro5.socketutil as su
    if not isinstance(su.time, NoSleep):
        su.time = NoSleep(time)
    return su.time
