"""Check driver: context object, Hypothesis search loop with known-finding exclusion, sharding, evidence, exit protocol.

A check module (checks/cNN_*.py) exposes
    PROPERTY, LEVEL, RULE, ASSUMPTIONS
    run(ctx)                 # generate / enumerate cases, call ctx.observe(...) for each
    run_case(case) -> [Violation]   # deterministic interpreter of one plain-data case (used for replays)
and optionally SHARDS(tier) -> list of shard parameter dicts (each executed in its own process).
"""
import hashlib
import json
import os
import sys
import time
import traceback
import collections

from . import values as V

ROOT = os.path.dirname(os.path.dirname(os.path.abspath(__file__)))


class Violation(object):
    def __init__(self, signature, what, case=None):
        self.signature = signature      # root-cause key, e.g. "C19:empty-host-location-dropped"
        self.what = what                # human readable
        self.case = case                # plain-data case that reproduces it (filled by driver if None)

    def __repr__(self):
        return "Violation(%s: %s)" % (self.signature, self.what)


class HarnessError(Exception):
    """the machinery itself is broken (never reported as a violation)"""


class _Fail(Exception):
    pass


def fingerprint(case):
    return hashlib.sha1(V.dumps(case).encode("utf-8")).hexdigest()


class KnownFindings(object):
    def __init__(self, path=None):
        path = path or os.path.join(ROOT, "known_findings.json")
        self.entries = []
        if os.path.exists(path):
            with open(path) as f:
                self.entries = json.load(f)["findings"]
        import glob
        for frag in sorted(glob.glob(os.path.join(os.path.dirname(path), "known_findings.d", "*.json"))):
            with open(frag) as f:
                self.entries.extend(json.load(f)["findings"])

    def open_for(self, prop):
        return {e["signature"]: e for e in self.entries if e["property"] == prop and e["status"] == "open"}


class Ctx(object):
    def __init__(self, prop, tier, seed, shard=None, budget_s=None):
        self.prop = prop
        self.tier = tier
        self.seed = seed
        self.shard = shard or {}
        self.t0 = time.time()
        self.budget_s = budget_s
        self.evaluations = 0
        self.nontrivial = set()
        self.samples = []
        self.classes = collections.Counter()
        self.excluded_known = collections.Counter()
        self.known_seen = {}           # signature -> first case
        self.violations = []           # new (unknown) violations: Violation objects with .case
        self.budget_exhausted = False
        self.notes = {}
        self.open_known = KnownFindings().open_for(prop)
        self.max_samples = 6
        self.exhaustive = None

    # ---- budgets / sizes
    def n(self, quick, thorough):
        return thorough if self.tier == "thorough" else quick

    def over_budget(self):
        if self.budget_s is not None and time.time() - self.t0 > self.budget_s:
            self.budget_exhausted = True
            return True
        return False

    # ---- bookkeeping
    def count(self, case, nontrivial, labels=()):
        self.evaluations += 1
        for l in labels:
            self.classes[l] += 1
        if nontrivial:
            fp = fingerprint(case)
            if fp not in self.nontrivial:
                self.nontrivial.add(fp)
                if len(self.samples) < self.max_samples:
                    self.samples.append(V.enc(case))

    def split(self, viols):
        """-> (new violations, known ones); known ones are counted"""
        new = []
        for v in viols:
            if v.signature in self.open_known:
                self.excluded_known[v.signature] += 1
            else:
                new.append(v)
        return new

    def observe(self, case, viols, nontrivial=True, labels=()):
        """for enumeration-style loops (no hypothesis): count, split, record new violations (first per signature)"""
        self.count(case, nontrivial, labels)
        for v in viols:
            if v.case is None:
                v.case = case
            if v.signature in self.open_known:
                self.known_seen.setdefault(v.signature, case)
        new = self.split(viols)
        for v in new:
            if not any(x.signature == v.signature for x in self.violations):
                self.violations.append(v)
        return new

    # ---- hypothesis search with exclusion of already-found signatures
    def search(self, strategy, run_case, max_examples, nontrivial=lambda case: True, labels=lambda case: (),
               name="search", max_rounds=4, stateful_steps=None, shrink=True, shrink_budget_s=None):
        import hypothesis
        import warnings
        from hypothesis import given, settings, HealthCheck, Phase
        warnings.filterwarnings("ignore", category=hypothesis.errors.HypothesisWarning)
        found = set()
        ctx = self
        if shrink_budget_s is None:
            shrink_budget_s = 45 if self.tier == "quick" else 240
        for _round in range(max_rounds):
            last = {}

            def body(case):
                if ctx.over_budget():
                    return
                if last.get("repeats", 0) >= 8 and "t_fail" not in last:
                    return
                if "t_fail" in last and time.time() - last["t_fail"] > shrink_budget_s:
                    last["cut"] = True      # shrinking has had its time: let hypothesis wind down, the smallest failing
                    return                  # case seen so far is kept in `last`
                viols = run_case(case)
                ctx.count(case, nontrivial(case), labels(case))
                for v in viols:
                    if v.signature in ctx.open_known:
                        ctx.known_seen.setdefault(v.signature, case)
                new = [v for v in ctx.split(viols) if v.signature not in found]
                if not new and any(v.signature in found for v in viols):
                    # the same root cause keeps failing; when each failing case is expensive (hang ceilings) there is no
                    # point in paying for it hundreds of times: a handful of repeats ends this round
                    last["repeats"] = last.get("repeats", 0) + 1
                if new:
                    last["case"] = case
                    last["viol"] = new[0]
                    last.setdefault("t_fail", time.time())
                    raise _Fail(new[0].signature)

            phases = [Phase.explicit, Phase.generate] + ([Phase.shrink] if shrink else [])
            test = given(strategy)(body)
            test = settings(max_examples=max_examples, database=None, deadline=None, derandomize=False,
                            report_multiple_bugs=False, phases=phases,
                            suppress_health_check=list(HealthCheck), print_blob=False)(test)
            test = hypothesis.seed(self.seed * 1000003 + _round * 7919 + sum(map(ord, name)))(test)
            try:
                test()
            except _Fail:
                v = last["viol"]
                v.case = last["case"]
                found.add(v.signature)
                self.violations.append(v)
                continue
            except hypothesis.errors.HypothesisException as x:
                if "viol" in last and last.get("cut"):
                    v = last["viol"]
                    v.case = last["case"]
                    found.add(v.signature)
                    self.violations.append(v)
                    self.classes["shrink-cut-short"] += 1
                    continue
                if "viol" in last and isinstance(x, (hypothesis.errors.Flaky, hypothesis.errors.FlakyFailure)):
                    # the violation was observed against the real code, but did not repeat when hypothesis replayed the
                    # case (state left behind by the first run, timing): still a violation, marked as not reproducible
                    v = last["viol"]
                    v.case = last["case"]
                    v.what = "[not reproducible on immediate replay] " + v.what
                    found.add(v.signature)
                    self.violations.append(v)
                    self.classes["flaky-violation"] += 1
                    continue
                raise HarnessError("hypothesis: %r" % (x,))
            break

    # ---- result
    def result(self):
        return {
            "evaluations": self.evaluations,
            "nontrivial": sorted(self.nontrivial),
            "samples": self.samples,
            "classes": dict(self.classes),
            "excluded_known": dict(self.excluded_known),
            "known_seen": {k: V.enc(c) for k, c in self.known_seen.items()},
            "violations": [{"signature": v.signature, "what": v.what, "case": V.enc(v.case)} for v in self.violations],
            "budget_exhausted": self.budget_exhausted,
            "notes": self.notes,
            "exhaustive": self.exhaustive,
        }


# ------------------------------------------------------------------------------------------------
# running a check (in-process or sharded), merging, evidence, exit protocol
# ------------------------------------------------------------------------------------------------

def _run_shard(args):
    modname, tier, seed, shard, budget_s = args
    try:
        import importlib
        mod = importlib.import_module("checks." + modname)
        if os.environ.get("VERIF_DUMP_AFTER"):
            # development aid: where is a slow shard waiting?  (stack dumps to stderr every N seconds)
            import faulthandler
            faulthandler.dump_traceback_later(float(os.environ["VERIF_DUMP_AFTER"]), repeat=True, file=open("/var/tmp/verif_dump_%d.txt" % os.getpid(), "w"))
        ctx = Ctx(mod.PROPERTY, tier, seed, shard, budget_s)
        mod.run(ctx)
        return ("ok", ctx.result())
    except BaseException:
        return ("error", traceback.format_exc())


def merge(results):
    out = {"evaluations": 0, "nontrivial": set(), "samples": [], "classes": collections.Counter(),
           "excluded_known": collections.Counter(), "known_seen": {}, "violations": [], "budget_exhausted": False,
           "notes": {}, "exhaustive": None}
    for r in results:
        out["evaluations"] += r["evaluations"]
        out["nontrivial"].update(r["nontrivial"])
        for s in r["samples"]:
            if len(out["samples"]) < 8 and s not in out["samples"]:
                out["samples"].append(s)
        out["classes"].update(r["classes"])
        out["excluded_known"].update(r["excluded_known"])
        for k, c in r["known_seen"].items():
            out["known_seen"].setdefault(k, c)
        for v in r["violations"]:
            if not any(x["signature"] == v["signature"] for x in out["violations"]):
                out["violations"].append(v)
        out["budget_exhausted"] = out["budget_exhausted"] or r["budget_exhausted"]
        for k, x in r["notes"].items():
            if isinstance(x, (int, float)) and isinstance(out["notes"].get(k), (int, float)):
                out["notes"][k] += x
            else:
                out["notes"].setdefault(k, x)
        if r["exhaustive"] is not None:
            out["exhaustive"] = r["exhaustive"] if out["exhaustive"] is None else (out["exhaustive"] and r["exhaustive"])
    return out


def write_evidence(mod, tier, seed, merged, wall, extra_viol=0):
    cov = {
        "evaluations": merged["evaluations"],
        "distinct_nontrivial": len(merged["nontrivial"]),
        "rule": mod.RULE,
        "samples": merged["samples"],
        "classes": dict(merged["classes"]),
        "excluded_known": dict(merged["excluded_known"]),
        "budget_exhausted": merged["budget_exhausted"],
    }
    if merged["exhaustive"] is not None:
        cov["exhaustive"] = bool(merged["exhaustive"])
    cov.update(merged["notes"])
    ev = {
        "property_id": mod.PROPERTY,
        "tier": tier,
        "seed": seed,
        "level": mod.LEVEL,
        "coverage": cov,
        "assumptions": list(getattr(mod, "ASSUMPTIONS", [])),
        "wall_s": round(wall, 2),
        "violations": len(merged["violations"]) + extra_viol,
    }
    d = os.path.join(ROOT, "evidence")
    if os.environ.get("VERIF_REPO"):
        d = os.path.join(ROOT, "found", "evidence_of_scratch_runs")     # development runs against a scratch copy are no evidence
    os.makedirs(d, exist_ok=True)
    path = os.path.join(d, mod.PROPERTY + ".json")
    tmp = path + ".tmp"
    with open(tmp, "w") as f:
        json.dump(ev, f, indent=1, sort_keys=True)
    os.replace(tmp, path)
    return path


def save_found(prop, signature, what, case_enc):
    d = os.path.join(ROOT, "found", prop)
    os.makedirs(d, exist_ok=True)
    name = "".join(ch if ch.isalnum() or ch in "-_." else "_" for ch in signature)[:80]
    path = os.path.join(d, name + ".json")
    with open(path, "w") as f:
        json.dump({"property": prop, "signature": signature, "what": what, "case": case_enc}, f, indent=1, sort_keys=True)
    return os.path.relpath(path, ROOT)


def load_replay(path):
    with open(path) as f:
        j = json.load(f)
    return j, V.dec(j["case"])


def committed_replays(prop):
    d = os.path.join(ROOT, "replays", prop)
    if not os.path.isdir(d):
        return []
    return [os.path.join(d, f) for f in sorted(os.listdir(d)) if f.endswith(".json")]


def main_check(modname, tier, seed, replay=None):
    import importlib
    t0 = time.time()
    mod = importlib.import_module("checks." + modname)
    prop = mod.PROPERTY
    known = KnownFindings().open_for(prop)

    if replay:
        meta, case = load_replay(replay)
        viols = mod.run_case(case)
        bad = [v for v in viols if v.signature not in known]
        for v in viols:
            if v.signature in known:
                print("KNOWN-FINDING: property=%s %s" % (prop, known[v.signature]["what"]))
        for v in bad:
            print("  %s: %s" % (v.signature, v.what))
        if bad:
            print("VIOLATION property=%s replay=%s" % (prop, replay))
            return 1
        print("replay %s: property held" % replay)
        return 0

    # 1. replay tier: committed regression cases
    replay_viol = []
    nrep = 0
    rep_known = {}
    for path in committed_replays(prop):
        meta, case = load_replay(path)
        nrep += 1
        for v in mod.run_case(case):
            if v.signature in known:
                rep_known.setdefault(v.signature, V.enc(case))
            else:
                replay_viol.append((os.path.relpath(path, ROOT), v))

    # 2. search tier (sharded)
    shards = mod.SHARDS(tier) if hasattr(mod, "SHARDS") else [{}]
    budget = getattr(mod, "BUDGET_S", {}).get(tier)
    jobs = [(modname, tier, seed * 1000 + i if len(shards) > 1 else seed, dict(sh, index=i, count=len(shards)), budget)
            for i, sh in enumerate(shards)]
    results = []
    errors = []
    if len(jobs) == 1:
        outs = [_run_shard(jobs[0])]
    else:
        import multiprocessing
        mpctx = multiprocessing.get_context("spawn")
        nproc = min(len(jobs), int(os.environ.get("VERIF_JOBS", "16")))
        hard = getattr(mod, "HARD_LIMIT_S", {"quick": 900, "thorough": 3 * 3600})[tier]
        pool = mpctx.Pool(nproc, maxtasksperchild=1)
        try:
            outs = pool.map_async(_run_shard, jobs, chunksize=1).get(timeout=hard)
            pool.close()
        except multiprocessing.TimeoutError:
            pool.terminate()
            sys.stderr.write("HARNESS ERROR in %s: shards did not finish within the hard limit of %d s (inconclusive, not a verdict)\n" % (prop, hard))
            return 2
        finally:
            pool.join()
    for status, payload in outs:
        if status == "ok":
            results.append(payload)
        else:
            errors.append(payload)
    if errors:
        sys.stderr.write("HARNESS ERROR in %s:\n%s\n" % (prop, errors[0]))
        return 2
    merged = merge(results)
    merged["notes"]["replays_run"] = nrep
    merged["notes"]["shards"] = len(jobs)
    for sig, c in rep_known.items():
        merged["known_seen"].setdefault(sig, c)
    wall = time.time() - t0
    write_evidence(mod, tier, seed, merged, wall, extra_viol=len(replay_viol))

    for sig in sorted(merged["known_seen"]):
        print("KNOWN-FINDING: property=%s %s [signature=%s, hit %d times this run]" % (
            prop, known[sig]["what"], sig, merged["excluded_known"].get(sig, 0)))
    rc = 0
    for path, v in replay_viol:
        print("  regression replay fails: %s: %s" % (v.signature, v.what))
        print("VIOLATION property=%s replay=%s" % (prop, path))
        rc = 1
    for v in merged["violations"]:
        path = save_found(prop, v["signature"], v["what"], v["case"])
        print("  %s: %s" % (v["signature"], v["what"]))
        print("VIOLATION property=%s replay=%s" % (prop, path))
        rc = 1
    print("%s %s seed=%d: %d evaluations, %d distinct non-trivial, %d known-finding hits, %d new violations, %.1fs%s" % (
        prop, tier, seed, merged["evaluations"], len(merged["nontrivial"]), sum(merged["excluded_known"].values()),
        len(merged["violations"]) + len(replay_viol), wall, " (budget exhausted)" if merged["budget_exhausted"] else ""))
    return rc
