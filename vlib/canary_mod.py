"""Canary 'application module': the harness never imports it. If it shows up in sys.modules, decoding imported it."""
IMPORTED = True


class Canary(object):
    def __init__(self, *a, **k):
        raise AssertionError("canary constructed")
