"""Deterministic line-level thread scheduler (harness-owned interleavings) for C09 / C15 / C18.

Managed threads run strictly one at a time.  Each managed thread has a private semaphore; through sys.settrace it reaches
a yield point at every `line` event inside the files under test and there hands control back to the scheduler, which
picks the next thread to run from the enabled ones.  The schedule is data:

    Sched(files, preempt={step: pick, ...})   run-to-block default, with explicit choices at the given decision numbers
    Sched(files, choices=[c0, c1, ...])       flat choice list (c_i modulo number of enabled threads), then run-to-block

Blocking primitives of the code under test must be replaced by the scheduler-aware ones below (SLock, SRLock, SEvent):
a blocked thread is then simply "not enabled".  "No thread enabled and not all finished" is a deadlock.

Every schedule produced this way is a legal interleaving of real threads (real preemption is finer than a source line,
never coarser), so a violation found here is genuine; a bug that needs a preemption inside a line is a stated blind spot.
"""
import sys
import threading


class _Abort(BaseException):
    pass


class SchedError(Exception):
    pass


_setup_done = False


def setup():
    global _setup_done
    if not _setup_done:
        sys.setswitchinterval(1e-6)     # hand-offs between threads go through semaphores: make the GIL switch promptly
        _setup_done = True


class Sched(object):
    def __init__(self, files, preempt=None, choices=None, max_steps=20000):
        setup()
        self.files = tuple(files)
        self.preempt = dict(preempt) if preempt else {}
        self.choices = list(choices) if choices else []
        self.ci = 0
        self.step = 0                  # decision counter
        self.max_steps = max_steps
        self.threads = {}              # name -> state
        self.order = []
        self.by_ident = {}
        self.decisions = []            # (step, enabled names, chosen, current, where) for every decision
        self.trace = []                # (thread, lineno, filename tail) at each yield point
        self.deadlock = False
        self.aborted = False
        self.overrun = False
        self.main_sem = threading.Semaphore(0)
        self.preemptions_taken = 0
        self.preempted_in_files = 0

    # ---- threads
    def spawn(self, fn, name):
        st = {"name": name, "sem": threading.Semaphore(0), "done": False, "blocked_on": None, "exc": None, "started": False}
        sched = self

        def runner():
            st["sem"].acquire()
            sched.by_ident[threading.get_ident()] = st
            if sched.aborted:
                st["done"] = True
                return
            sys.settrace(sched._tracer)
            try:
                fn()
            except _Abort:
                pass
            except BaseException as x:
                st["exc"] = x
            finally:
                sys.settrace(None)
                st["done"] = True
                if not sched.aborted:
                    sched._handoff(st, finished=True)
        t = threading.Thread(target=runner, name="sched-" + name, daemon=True)
        st["thread"] = t
        self.threads[name] = st
        self.order.append(name)
        t.start()
        return st

    def me(self):
        st = self.by_ident.get(threading.get_ident())
        if st is None:
            raise SchedError("scheduler primitive used by an unmanaged thread")
        return st

    def enabled(self):
        out = []
        for n in self.order:
            st = self.threads[n]
            if st["done"]:
                continue
            b = st["blocked_on"]
            if b is not None and not b():
                continue
            out.append(n)
        return out

    def _pick(self, cur, where=None):
        en = self.enabled()
        if not en:
            return None
        self.step += 1
        if self.step > self.max_steps:
            self.overrun = True
            return None
        default = cur if cur in en else en[0]
        chosen = default
        if self.step in self.preempt:
            chosen = en[self.preempt[self.step] % len(en)]
        elif self.ci < len(self.choices):
            chosen = en[self.choices[self.ci] % len(en)]
            self.ci += 1
        if chosen != default and cur in en:
            self.preemptions_taken += 1
            if where is not None:
                self.preempted_in_files += 1
        self.decisions.append((self.step, tuple(en), chosen, cur))
        return chosen

    def _handoff(self, st, finished=False, where=None):
        nxt = self._pick(None if finished else st["name"], where)
        if nxt is None:
            if not self.overrun and all(s["done"] for s in self.threads.values()):
                self.main_sem.release()
                return
            if not self.overrun:
                self.deadlock = True
            self.stuck = [n for n, x in self.threads.items() if not x["done"]]
            self._abort_all(st)
            return
        if nxt == st["name"] and not finished:
            return
        self.threads[nxt]["sem"].release()
        if not finished:
            st["sem"].acquire()
            if self.aborted:
                raise _Abort()

    def _abort_all(self, current):
        self.aborted = True
        for s in self.threads.values():
            if s is not current and not s["done"]:
                s["sem"].release()
        self.main_sem.release()
        if not current["done"]:
            raise _Abort()

    def yield_point(self, where=None):
        st = self.me()
        if self.aborted:
            raise _Abort()
        self._handoff(st, where=where)

    def block_until(self, pred):
        st = self.me()
        while not pred():
            if self.aborted:
                raise _Abort()
            st["blocked_on"] = pred
            try:
                self._handoff(st)
            finally:
                st["blocked_on"] = None

    # ---- tracing
    def _tracer(self, frame, event, arg):
        if frame.f_code.co_filename.endswith(self.files):
            return self._local
        return None

    def _local(self, frame, event, arg):
        if event == "line":
            st = self.by_ident.get(threading.get_ident())
            if st is not None:
                self.trace.append((st["name"], frame.f_lineno))
                self.yield_point(where=frame.f_lineno)
        return self._local

    # ---- run
    def run(self, timeout=120):
        first = self._pick(None)
        if first is None:
            return True
        self.threads[first]["sem"].release()
        if not self.main_sem.acquire(timeout=timeout):
            self.aborted = True
            for s in self.threads.values():
                s["sem"].release()
            raise SchedError("scheduler stuck: a managed thread blocks outside the scheduler's control")
        return not self.deadlock and not self.overrun

    def errors(self):
        return {n: s["exc"] for n, s in self.threads.items() if s["exc"] is not None}


# ------------------------------------------------------------------------------------------------
# scheduler-aware primitives
# ------------------------------------------------------------------------------------------------

class SLock(object):
    """non re-entrant lock"""
    def __init__(self, sched):
        self.s = sched
        self.owner = None

    def acquire(self, blocking=True, timeout=-1):
        me = self.s.me()["name"]
        if not blocking:
            if self.owner is None:
                self.owner = me
                return True
            return False
        self.s.block_until(lambda: self.owner is None)      # a thread that re-acquires its own lock blocks forever: deadlock
        self.owner = me
        return True

    def release(self):
        self.owner = None

    def locked(self):
        return self.owner is not None

    def __enter__(self):
        self.acquire()
        return self

    def __exit__(self, *a):
        self.release()


class SRLock(object):
    """re-entrant lock"""
    def __init__(self, sched):
        self.s = sched
        self.owner = None
        self.count = 0

    def acquire(self, blocking=True, timeout=-1):
        me = self.s.me()["name"]
        if self.owner == me:
            self.count += 1
            return True
        if not blocking:
            if self.owner is None:
                self.owner, self.count = me, 1
                return True
            return False
        self.s.block_until(lambda: self.owner is None)
        self.owner, self.count = me, 1
        return True

    def release(self):
        self.count -= 1
        if self.count == 0:
            self.owner = None

    def __enter__(self):
        self.acquire()
        return self

    def __exit__(self, *a):
        self.release()


class SEvent(object):
    def __init__(self, sched):
        self.s = sched
        self.flag = False

    def set(self):
        self.flag = True

    def clear(self):
        self.flag = False

    def is_set(self):
        return self.flag

    def wait(self, timeout=None):
        self.s.block_until(lambda: self.flag)
        return True


# ------------------------------------------------------------------------------------------------
# bounded-preemption enumeration (CHESS style)
# ------------------------------------------------------------------------------------------------

def enumerate_schedules(run_with, max_preemptions, limit=None):
    """run_with(preempt_dict) -> Sched (after run).  Yields (preempt_dict, sched) for the baseline and for every schedule
    with at most max_preemptions explicit choices that differ from the run-to-block default."""
    count = 0
    stack = [({}, 0)]
    while stack:
        preempt, last = stack.pop()
        s = run_with(preempt)
        count += 1
        yield preempt, s
        if limit is not None and count >= limit:
            return
        if len(preempt) >= max_preemptions:
            continue
        for step, en, chosen, cur in s.decisions:
            if step <= last:
                continue
            for i, name in enumerate(en):
                if name != chosen:
                    p = dict(preempt)
                    p[step] = i
                    stack.append((p, step))
