"""Value domains, type-strict comparison and a tagged-JSON codec for replay files.

Everything here is independent of Pyro5: it is the harness's own notion of "the same value".
"""
import datetime
import decimal
import json
import math
import uuid

from hypothesis import strategies as st

# ----------------------------------------------------------------------------------------------
# tagged JSON codec (python value <-> JSON-able structure), used for replay files and samples
# ----------------------------------------------------------------------------------------------


def _sortkey(x):
    return (type(x).__name__, repr(x))


def enc(v):
    """python value -> JSON-able structure (lossless for every type the checks generate)"""
    t = type(v)
    if v is None or t is bool or t is str:
        return v
    if t is int:
        return v
    if t is float:
        if math.isnan(v):
            return {"$f": "nan"}
        if math.isinf(v):
            return {"$f": "inf" if v > 0 else "-inf"}
        if v == 0.0 and math.copysign(1.0, v) < 0:
            return {"$f": "-0.0"}
        return v
    if t is list:
        return [enc(x) for x in v]
    if t is tuple:
        return {"$t": [enc(x) for x in v]}
    if t is set:
        return {"$s": [enc(x) for x in sorted(v, key=_sortkey)]}
    if t is frozenset:
        return {"$fs": [enc(x) for x in sorted(v, key=_sortkey)]}
    if t is bytes:
        return {"$b": v.hex()}
    if t is bytearray:
        return {"$ba": bytes(v).hex()}
    if t is complex:
        return {"$c": [enc(v.real), enc(v.imag)]}
    if t is uuid.UUID:
        return {"$u": str(v)}
    if t is decimal.Decimal:
        return {"$d": str(v)}
    if t is datetime.datetime:
        return {"$dt": v.isoformat()}
    if t is datetime.date:
        return {"$date": v.isoformat()}
    if t is dict:
        if all(type(k) is str and not k.startswith("$") for k in v):
            return {k: enc(x) for k, x in v.items()}
        return {"$dict": [[enc(k), enc(x)] for k, x in v.items()]}
    # anything else: keep a readable trace (not decodable - only used for samples / messages)
    return {"$repr": repr(v)[:200]}


def dec(j):
    """inverse of enc"""
    if isinstance(j, list):
        return [dec(x) for x in j]
    if isinstance(j, dict):
        if len(j) == 1:
            (k, x), = j.items()
            if k == "$f":
                return float(x)
            if k == "$t":
                return tuple(dec(y) for y in x)
            if k == "$s":
                return set(dec(y) for y in x)
            if k == "$fs":
                return frozenset(dec(y) for y in x)
            if k == "$b":
                return bytes.fromhex(x)
            if k == "$ba":
                return bytearray(bytes.fromhex(x))
            if k == "$c":
                return complex(dec(x[0]), dec(x[1]))
            if k == "$u":
                return uuid.UUID(x)
            if k == "$d":
                return decimal.Decimal(x)
            if k == "$dt":
                return datetime.datetime.fromisoformat(x)
            if k == "$date":
                return datetime.date.fromisoformat(x)
            if k == "$dict":
                return {dec(a): dec(b) for a, b in x}
            if k == "$repr":
                return j
        return {k: dec(x) for k, x in j.items()}
    return j


def dumps(v, **kw):
    return json.dumps(enc(v), ensure_ascii=True, sort_keys=True, **kw)


def loads(s):
    return dec(json.loads(s))


# ----------------------------------------------------------------------------------------------
# type-strict structural equality
# ----------------------------------------------------------------------------------------------

def same(a, b):
    """structural, type-strict equality: True != 1, 1 != 1.0, list != tuple, nan == nan, 0.0 != -0.0"""
    ta, tb = type(a), type(b)
    if ta is not tb:
        return False
    if ta is float:
        if math.isnan(a) or math.isnan(b):
            return math.isnan(a) and math.isnan(b)
        return a == b and math.copysign(1.0, a) == math.copysign(1.0, b)
    if ta is complex:
        return same(a.real, b.real) and same(a.imag, b.imag)
    if ta in (list, tuple):
        return len(a) == len(b) and all(same(x, y) for x, y in zip(a, b))
    if ta is dict:
        if len(a) != len(b):
            return False
        for k, x in a.items():
            found = False
            for k2, y in b.items():
                if same(k, k2):
                    if not same(x, y):
                        return False
                    found = True
                    break
            if not found:
                return False
        return True
    if ta in (set, frozenset):
        if len(a) != len(b):
            return False
        rest = list(b)
        for x in a:
            for i, y in enumerate(rest):
                if same(x, y):
                    del rest[i]
                    break
            else:
                return False
        return True
    return a == b


def describe_diff(a, b, path="$"):
    """first place where two values differ under same()"""
    if same(a, b):
        return None
    ta, tb = type(a), type(b)
    if ta is not tb:
        return "%s: type %s vs %s (%.60r vs %.60r)" % (path, ta.__name__, tb.__name__, a, b)
    if ta in (list, tuple):
        if len(a) != len(b):
            return "%s: length %d vs %d" % (path, len(a), len(b))
        for i, (x, y) in enumerate(zip(a, b)):
            d = describe_diff(x, y, "%s[%d]" % (path, i))
            if d:
                return d
    if ta is dict:
        for k in a:
            if k not in b:
                return "%s: key %r missing" % (path, k)
            d = describe_diff(a[k], b[k], "%s[%r]" % (path, k))
            if d:
                return d
        for k in b:
            if k not in a:
                return "%s: extra key %r" % (path, k)
    return "%s: %.80r vs %.80r" % (path, a, b)


# ----------------------------------------------------------------------------------------------
# strategies
# ----------------------------------------------------------------------------------------------

BOUNDARY_INTS = [0, 1, -1, 127, 128, 255, 256, 2**31 - 1, 2**31, -2**31, -2**31 - 1, 2**32, 2**53, 2**53 + 1,
                 2**63 - 1, 2**63, -2**63, -2**63 - 1, 2**64 - 1, 2**64, -2**64, 2**70, -2**70, 2**100 + 7,
                 10**40, -10**40, 2**200, -(2**300) + 1]

ints = st.one_of(
    st.integers(-1000, 1000),
    st.sampled_from(BOUNDARY_INTS),
    st.integers(-2**70, 2**70),
    st.integers(-2**300, 2**300),
)

floats = st.one_of(
    st.floats(allow_nan=True, allow_infinity=True),
    st.sampled_from([0.0, -0.0, float("inf"), float("-inf"), float("nan"), 5e-324, -5e-324, 1.7976931348623157e308,
                     0.1, 1e-7, 1e16, 1e22, 123456789.123456789]),
)

# valid unicode text: everything but lone surrogates (category Cs)
text = st.one_of(
    st.text(alphabet=st.characters(exclude_categories=("Cs",)), max_size=12),
    st.sampled_from(["", "\x00", "'", '"', "\\", "\n", "\r\n", "\t", "\x7f", "\x80", "\xff", "\u0100", "\ud7ff", "\ue000",
                     "\ufffd", "\uffff", "\U00010000", "\U0010ffff", "__class__", "a'b\"c\\d", "  ", "\u00e9" * 3,
                     "\u6f22\u5b57", "\x00\ud7ff\U0010ffff", "None", "True", "nan", "1e5"]),
    st.text(alphabet=st.characters(exclude_categories=("Cs",)), min_size=30, max_size=140),
)

# dict keys: str, never the reserved '__class__'
keys = text.filter(lambda k: k != "__class__")


def core_leaves():
    return st.one_of(st.none(), st.booleans(), ints, floats, text)


def core_values(max_leaves=25):
    """the lossless core: None, bools, ints far beyond 64 bit, floats incl inf/nan, unicode, lists, str-keyed dicts"""
    return st.recursive(
        core_leaves(),
        lambda ch: st.one_of(st.lists(ch, max_size=5), st.dictionaries(keys, ch, max_size=4)),
        max_leaves=max_leaves)


def is_core(v):
    t = type(v)
    if v is None or t in (bool, int, float, str):
        return True
    if t is list:
        return all(is_core(x) for x in v)
    if t is dict:
        return all(type(k) is str and is_core(x) for k, x in v.items())
    return False


def depth(v):
    t = type(v)
    if t in (list, tuple, set, frozenset):
        return 1 + max([depth(x) for x in v], default=0)
    if t is dict:
        return 1 + max([max(depth(k), depth(x)) for k, x in v.items()], default=0)
    return 0


def leaves(v):
    t = type(v)
    if t in (list, tuple, set, frozenset):
        for x in v:
            yield from leaves(x)
    elif t is dict:
        for k, x in v.items():
            yield from leaves(k)
            yield from leaves(x)
    else:
        yield v


def interesting(v):
    """rule used by several checks: value has container depth >= 2, or an int beyond 64 bit, or a non-finite float,
    or non-ascii text, or a non-core type"""
    if depth(v) >= 2 or not is_core(v):
        return True
    for x in leaves(v):
        if type(x) is int and not -2**63 <= x < 2**64:
            return True
        if type(x) is float and not math.isfinite(x):
            return True
        if type(x) is str and not x.isascii():
            return True
    return False
