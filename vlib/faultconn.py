"""Client-side transport fault injection for C03.

`install()` replaces the module-level name `Pyro5.client.socketutil` (inside this process only) by a stand-in whose
SocketConnection wraps the real one.  A controller decides per INVOKE exchange what the "network" does:

  deliver            pass through
  drop-request       the request never reaches the server; the connection is reset (send raises ConnectionClosedError)
  reply-lost         request delivered and processed (the complete reply is read off the real socket first, so "processed"
                     is a fact, not a timing guess); the reply never arrives: the read raises TimeoutError
  reply-late         like reply-lost, but the reply stays in the stream: it is delivered in front of whatever is read next
                     on this same connection (what a real transport does when the client keeps using the connection)
  cut-reply k        processed; only the first k bytes of the reply arrive, then the connection is reset
  reset-after        processed; connection reset before any reply byte arrives
  alter-seq d        processed; the reply's sequence field is changed
  replay-stale       processed; an earlier reply recorded on this proxy is delivered instead of the real one
  duplicate          the reply is delivered, and a second copy of it stays in the stream in front of the next reply
  reset-while-decoding  (only when the harness armed it: the request carries an argument whose custom deserialiser reports
                     "the server is decoding this request now" and waits) the request is delivered completely, the
                     connection is reset while the server still decodes it, then the server goes on: the request WAS
                     delivered, its method runs, no reply can arrive

After a reset (drop-request, cut-reply, reset-after) the wrapped connection is dead: every later send/recv on it raises
ConnectionClosedError.  No wall-clock timeout is ever awaited.
"""
import types

from . import wire


class Controller(object):
    def __init__(self):
        self.script = []          # list of actions, consumed one per INVOKE message sent
        self.history = []         # (action, oneway, delivered_to_server)
        self.recorded = []        # complete earlier replies (bytes) seen on this proxy
        self.default = ("deliver",)
        self.connections = 0
        self.gate_armed = False   # the next request carries the "I am being decoded" argument
        self.decode_entered = None
        self.decode_go = None
        self.server_sees_reset = None   # callable: wait until the server side socket knows its peer is gone (stimulus only)

    def next_action(self):
        if self.script:
            return tuple(self.script.pop(0))
        return self.default


class FaultConn(object):
    def __init__(self, controller, real):
        self.c = controller
        self.real = real
        self.inbuf = b""
        self.pending_error = None
        self.dead = False
        controller.connections += 1

    # attributes the client uses
    @property
    def sock(self):
        return self.real.sock

    @property
    def objectId(self):
        return self.real.objectId

    @property
    def keep_open(self):
        return self.real.keep_open

    def family(self):
        return self.real.family()

    def fileno(self):
        return self.real.fileno()

    def gettimeout(self):
        return self.real.gettimeout()

    def settimeout(self, t):
        self.real.settimeout(t)

    timeout = property(gettimeout, settimeout)

    def close(self):
        self.real.close()

    # the transport
    def _closed_error(self, text):
        from Pyro5 import errors
        return errors.ConnectionClosedError("fault injection: " + text)

    def _read_reply(self):
        """read one complete message off the real socket"""
        head = bytes(self.real.recv(wire.HEADER))
        h = wire.ref_header(head)
        body = bytes(self.real.recv(h["dlen"] + h["alen"])) if h["dlen"] + h["alen"] else b""
        return head + body

    def send(self, data):
        from Pyro5 import errors
        if self.dead:
            raise self._closed_error("connection was reset earlier")
        data = bytes(data)
        mtype = data[6] if len(data) > 6 else 0
        if mtype != wire.INVOKE:
            self.real.send(data)       # handshake etc: untouched
            return
        oneway = bool(int.from_bytes(data[8:10], "big") & wire.F_ONEWAY)
        action = tuple(self.c.next_action())
        kind = action[0]
        if kind in ("cut-reply", "alter-seq", "replay-stale") and len(action) < 2:
            action = (kind, {"cut-reply": 13, "alter-seq": 1, "replay-stale": 0}[kind])
        if kind == "replay-stale" and not self.c.recorded:
            action, kind = ("deliver",), "deliver"          # nothing to replay yet: the exchange is untouched
        if kind == "reset-while-decoding" and not self.c.gate_armed:
            action, kind = ("reset-after",), "reset-after"
        if oneway and kind not in ("drop-request", "reset-while-decoding"):
            action, kind = ("deliver",), "deliver"          # a oneway request has no reply that could be faulted
        if kind == "drop-request":
            self.dead = True
            self.c.history.append((action, oneway, False))
            try:
                self.real.close()
            except Exception:
                pass
            raise self._closed_error("connection reset before the request left")
        self.real.send(data)
        if kind == "reset-while-decoding":
            import socket
            import struct
            self.c.gate_armed = False
            entered = self.c.decode_entered.wait(20)
            try:
                self.real.sock.setsockopt(socket.SOL_SOCKET, socket.SO_LINGER, struct.pack("ii", 1, 0))
            except OSError:
                pass
            try:
                self.real.close()
            except Exception:
                pass
            self.dead = True
            if entered and self.c.server_sees_reset is not None:
                self.c.server_sees_reset()
            self.c.decode_go.set()
            self.c.history.append((action, oneway, True))
            if not oneway:
                self.pending_error = self._closed_error("connection reset while the server was decoding the request")
            return
        if oneway or kind == "deliver":
            self.c.history.append((action, oneway, True))
            return
        reply = self._read_reply()
        if kind == "cut-reply" and action[1] % (len(reply) + 1) == len(reply):
            action, kind = ("reset-after-reply",), "reset-after-reply"     # every byte of the reply arrives, then the reset
        self.c.history.append((action, oneway, True))
        if kind == "reply-lost":
            self.pending_error = errors.TimeoutError("fault injection: reply lost")
        elif kind == "reply-late":
            self.late = reply
            self.pending_error = errors.TimeoutError("fault injection: reply delayed past the timeout")
            self._late_pending = True
        elif kind == "cut-reply":
            k = action[1] % (len(reply) + 1)
            self.inbuf += reply[:k]
            self.pending_error = self._closed_error("reply cut after %d bytes" % k)
            self.dead = True
        elif kind == "reset-after":
            self.pending_error = self._closed_error("connection reset after the request was processed")
            self.dead = True
        elif kind == "alter-seq":
            seq = int.from_bytes(reply[10:12], "big")
            new = (seq + action[1]) & 0xffff
            if new == seq:
                new = (seq + 1) & 0xffff
            self.inbuf += reply[:10] + new.to_bytes(2, "big") + reply[12:]
        elif kind == "replay-stale":
            if self.c.recorded:
                self.inbuf += self.c.recorded[action[1] % len(self.c.recorded)]
            else:
                self.inbuf += reply
        elif kind == "reset-after-reply":
            self.inbuf += reply
            self.dead_after_buffer = True
        elif kind == "duplicate":
            self.inbuf += reply + reply
        else:
            self.inbuf += reply
        if kind not in ("replay-stale",):
            self.c.recorded.append(reply)

    def recv(self, size):
        # a reply that was "late" is in the stream in front of everything that comes after it
        if getattr(self, "_late_pending", False) and self.pending_error is None:
            self.inbuf = self.late + self.inbuf
            self._late_pending = False
        if len(self.inbuf) >= size:
            out, self.inbuf = self.inbuf[:size], self.inbuf[size:]
            if not self.inbuf and getattr(self, "dead_after_buffer", False):
                self.dead = True
            return out
        if self.pending_error is not None:
            err, self.pending_error = self.pending_error, None
            partial, self.inbuf = self.inbuf, b""
            try:
                err.partialData = partial
            except Exception:
                pass
            raise err
        if self.dead:
            raise self._closed_error("connection was reset earlier")
        need = size - len(self.inbuf)
        data = self.inbuf + bytes(self.real.recv(need))
        self.inbuf = b""
        return data


def install(controller_for):
    """controller_for(objectId) -> Controller | None.  Returns an uninstall function."""
    import Pyro5.client as client
    import Pyro5.socketutil as real

    def SocketConnection(sock, objectId=None, keep_open=False):
        conn = real.SocketConnection(sock, objectId, keep_open)
        ctl = controller_for(objectId)
        if ctl is None:
            return conn
        return FaultConn(ctl, conn)
    shim = types.SimpleNamespace(**{k: getattr(real, k) for k in dir(real) if not k.startswith("__")})
    shim.SocketConnection = SocketConnection
    old = client.socketutil
    client.socketutil = shim

    def uninstall():
        client.socketutil = old
    return uninstall
