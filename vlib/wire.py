"""Independent reference implementation of the Pyro5 wire format, written from the header table in the protocol
documentation.  Shares no code with Pyro5.protocol.

    offset  size  field
    0x00    4     'PYRO'
    0x04    2     protocol version (502)
    0x06    1     message type
    0x07    1     serializer id
    0x08    2     flags
    0x0a    2     sequence number
    0x0c    4     data length
    0x10    4     annotations length (total of all chunks)
    0x14    16    correlation uuid
    0x24    2     reserved
    0x26    2     magic 0x4dc5
    then annotation chunks (4 byte ascii id, 4 byte length, data), then the payload.  All big endian.
"""
import zlib

VERSION = 502
MAGIC = 0x4DC5
HEADER = 40
F_EXCEPTION, F_COMPRESSED, F_ONEWAY, F_BATCH, F_ITEMSTREAM, F_KEEPSERIALIZED, F_CORR_ID = 1, 2, 4, 8, 16, 32, 64
CONNECT, CONNECTOK, CONNECTFAIL, INVOKE, RESULT, PING = 1, 2, 3, 4, 5, 6


class Malformed(Exception):
    pass


def be(n, size):
    return int(n).to_bytes(size, "big")


def ref_encode(msgtype, flags, seq, ser, payload, annotations=(), corr=None, version=VERSION, magic=MAGIC, tag=b"PYRO",
               reserved=0, dlen=None, alen=None):
    """annotations: sequence of (4-byte id as bytes, value bytes).  dlen/alen override the declared lengths."""
    ann = b"".join(bytes(k) + be(len(v), 4) + bytes(v) for k, v in annotations)
    corr = corr if corr is not None else b"\0" * 16
    head = (tag + be(version, 2) + be(msgtype, 1) + be(ser, 1) + be(flags, 2) + be(seq, 2)
            + be(len(payload) if dlen is None else dlen, 4) + be(len(ann) if alen is None else alen, 4)
            + corr + be(reserved, 2) + be(magic, 2))
    assert len(head) == HEADER
    return head + ann + payload


def ref_header(b):
    if len(b) < HEADER:
        raise Malformed("shorter than a header")
    if b[0:4] != b"PYRO":
        raise Malformed("bad tag")
    if int.from_bytes(b[4:6], "big") != VERSION:
        raise Malformed("bad version")
    if int.from_bytes(b[38:40], "big") != MAGIC:
        raise Malformed("bad magic")
    return {
        "type": b[6], "ser": b[7], "flags": int.from_bytes(b[8:10], "big"), "seq": int.from_bytes(b[10:12], "big"),
        "dlen": int.from_bytes(b[12:16], "big"), "alen": int.from_bytes(b[16:20], "big"), "corr": bytes(b[20:36]),
        "reserved": int.from_bytes(b[36:38], "big"),
    }


def ref_parse(b, max_size=None):
    """parse exactly one message occupying all of b; returns dict (payload decompressed) or raises Malformed"""
    b = bytes(b)
    h = ref_header(b)
    if max_size is not None and h["dlen"] + h["alen"] > max_size:
        raise Malformed("too large")
    if len(b) != HEADER + h["dlen"] + h["alen"]:
        raise Malformed("length fields do not match the bytes")
    pos = HEADER
    end = HEADER + h["alen"]
    anns = []
    while pos < end:
        if pos + 8 > end:
            raise Malformed("annotation chunk header crosses the annotation area")
        ident = b[pos:pos + 4]
        if any(c > 127 for c in ident):
            raise Malformed("annotation id not ascii")
        ln = int.from_bytes(b[pos + 4:pos + 8], "big")
        if pos + 8 + ln > end:
            raise Malformed("annotation chunk crosses the annotation area")
        anns.append((ident.decode("ascii"), b[pos + 8:pos + 8 + ln]))
        pos += 8 + ln
    data = b[end:]
    if h["flags"] & F_COMPRESSED:
        try:
            data = zlib.decompress(data)
        except zlib.error as x:
            raise Malformed("payload flagged compressed but not zlib data: %s" % x)
    h["annotations"] = anns
    h["data"] = data
    return h


def message_length(b):
    """total length of the first message in b according to its header (needs >= 40 bytes)"""
    h = ref_header(b)
    return HEADER + h["dlen"] + h["alen"]
