"""Real daemons observable from outside, raw socket peer using the reference wire codec, small helpers.

Only documented extension points of Daemon are overridden (validateHandshake, clientDisconnect, handleRequest, annotations).
"""
import collections
import json
import marshal
import os
import socket
import struct
import tempfile
import threading
import time

from . import wire


def pyro():
    import Pyro5.api  # noqa
    import Pyro5.server
    return Pyro5


_daemon_cls = None


def daemon_class():
    global _daemon_cls
    if _daemon_cls is not None:
        return _daemon_cls
    import Pyro5.server

    class VerifDaemon(Pyro5.server.Daemon):
        def __init__(self, *a, **k):
            self.v_lock = threading.Lock()
            self.v_validated = []                       # (conn, handshake data) that reached the validator
            self.v_disconnects = []                     # conn objects passed to the hook, in order
            self.v_disconnect_event = threading.Condition(self.v_lock)
            self.v_requests = 0                         # handleRequest invocations ("any Pyro traffic")
            self.v_validator = None                     # callable(conn, data) -> response | raises
            self.v_annotations = None                   # callable() -> dict
            self.v_housekeeping = 0
            super().__init__(*a, **k)

        def validateHandshake(self, conn, data):
            with self.v_lock:
                self.v_validated.append((conn, data))
            if self.v_validator is not None:
                return self.v_validator(conn, data)
            return "hello"

        def clientDisconnect(self, conn):
            with self.v_lock:
                self.v_disconnects.append(conn)
                self.v_disconnect_event.notify_all()
            if getattr(self, "v_hook_raises", False):
                raise RuntimeError("the application's disconnect hook fails")

        def handleRequest(self, conn):
            with self.v_lock:
                self.v_requests += 1
            return super().handleRequest(conn)

        def annotations(self):
            if self.v_annotations is not None:
                return self.v_annotations()
            return {}

        def housekeeping(self):
            self.v_housekeeping += 1

        # helpers for the checks
        def v_disconnect_count(self, conn=None):
            with self.v_lock:
                if conn is None:
                    return len(self.v_disconnects)
                return sum(1 for c in self.v_disconnects if c is conn)

    _daemon_cls = VerifDaemon
    return VerifDaemon


class Served(object):
    """a running daemon + its request loop thread"""
    def __init__(self, servertype="thread", unixsocket=None, host="127.0.0.1", daemon_kwargs=None):
        from Pyro5 import config
        config.SOCK_NODELAY = True      # avoid Nagle/delayed-ack stalls of ~40 ms on small messages (speed only)
        self.servertype = servertype
        old = config.SERVERTYPE
        config.SERVERTYPE = servertype
        try:
            if unixsocket:
                self.daemon = daemon_class()(unixsocket=unixsocket, **(daemon_kwargs or {}))
            else:
                self.daemon = daemon_class()(host=host, port=0, **(daemon_kwargs or {}))
        finally:
            config.SERVERTYPE = old
        self.thread = threading.Thread(target=self._loop, name="verif-requestloop", daemon=True)
        self.loop_error = None
        self.thread.start()
        self.location = self.daemon.locationStr
        # wait until the loop really runs
        t0 = time.time()
        while self.daemon._shutting_down and time.time() - t0 < 5:
            time.sleep(0.001)

    def _loop(self):
        try:
            self.daemon.requestLoop()
        except BaseException as x:      # the request loop must never die
            self.loop_error = x

    def address(self):
        loc = self.location
        if loc.startswith("./u:"):
            return loc[4:]
        host, _, port = loc.rpartition(":")
        return (host.strip("[]"), int(port))

    def uri(self, objid):
        return "PYRO:%s@%s" % (objid, self.location)

    def loop_alive(self):
        return self.thread.is_alive() and self.loop_error is None

    def busy_workers(self):
        ts = self.daemon.transportServer
        if self.servertype == "thread":
            return len(ts.pool.busy)
        return len(ts.selector.get_map()) - 1

    def stop(self):
        try:
            self.daemon.shutdown()
        except Exception:
            pass
        self.thread.join(5)


def wait_for(pred, ceiling=30.0, step=0.002):
    """poll until pred() is true; the ceiling is orders of magnitude above normal latency and only guards against a hang"""
    t0 = time.time()
    while True:
        if pred():
            return True
        if time.time() - t0 > ceiling:
            return False
        time.sleep(step)
        if step < 0.05:
            step *= 1.5


def proxy(uri, serializer=None, timeout=None, retries=None):
    from Pyro5 import client
    p = client.Proxy(uri)
    if serializer:
        p._pyroSerializer = serializer
    if timeout is not None:
        p._pyroTimeout = timeout
    if retries is not None:
        p._pyroMaxRetries = retries
    return p


# ------------------------------------------------------------------------------------------------
# raw peer
# ------------------------------------------------------------------------------------------------
SER_IDS = {"serpent": 1, "marshal": 2, "json": 3, "msgpack": 4}


def raw_dumps(ser, value):
    """encode with the underlying library directly (not through Pyro5.serializers)"""
    if ser == "marshal":
        return marshal.dumps(value)
    if ser == "json":
        return json.dumps(value).encode("utf-8")
    if ser == "serpent":
        import serpent
        return serpent.dumps(value)
    if ser == "msgpack":
        import msgpack
        return msgpack.packb(value, use_bin_type=True)
    raise ValueError(ser)


def raw_loads(ser_id, data):
    """decode a reply payload with the underlying library; class-tagged dicts stay inert dicts"""
    data = bytes(data)
    if ser_id == 2:
        return marshal.loads(data)
    if ser_id == 3:
        return json.loads(data.decode("utf-8"))
    if ser_id == 1:
        import serpent
        return serpent.loads(data)
    if ser_id == 4:
        import msgpack
        return msgpack.unpackb(data, raw=False, strict_map_key=False)
    raise ValueError("unknown serializer id %r" % ser_id)


def call_payload(ser, objid, method, vargs, kwargs):
    if ser == "json":
        return raw_dumps(ser, {"object": objid, "method": method, "params": list(vargs), "kwargs": kwargs})
    return raw_dumps(ser, (objid, method, tuple(vargs), kwargs))


class RawPeer(object):
    def __init__(self, address, timeout=20.0):
        if isinstance(address, str):
            self.sock = socket.socket(socket.AF_UNIX, socket.SOCK_STREAM)
        else:
            self.sock = socket.socket(socket.AF_INET, socket.SOCK_STREAM)
            self.sock.setsockopt(socket.IPPROTO_TCP, socket.TCP_NODELAY, 1)
        self.sock.settimeout(timeout)
        self.sock.connect(address)
        self.local = self.sock.getsockname()
        self.reset_seen = False
        self.closed = False

    def send(self, data):
        """returns False when the peer already closed/reset the connection"""
        try:
            self.sock.sendall(data)
            return True
        except (BrokenPipeError, ConnectionResetError, ConnectionAbortedError):
            self.reset_seen = True
            return False

    def _read(self, n):
        buf = b""
        while len(buf) < n:
            try:
                c = self.sock.recv(n - len(buf))
            except (ConnectionResetError, ConnectionAbortedError, BrokenPipeError):
                self.reset_seen = True
                return buf, "reset"
            except socket.timeout:
                return buf, "timeout"
            if not c:
                return buf, "eof"
            buf += c
        return buf, None

    def read_message(self):
        """-> dict(type, ser, flags, seq, data, annotations, corr) | ('eof',) | ('reset',) | ('timeout',) | ('garbage', bytes)"""
        head, why = self._read(wire.HEADER)
        if why:
            if not head:
                return (why,)
            return ("garbage", head, why)
        try:
            h = wire.ref_header(head)
        except wire.Malformed:
            return ("garbage", head, "malformed")
        body, why = self._read(h["dlen"] + h["alen"])
        if why:
            return ("garbage", head + body, why)
        try:
            return wire.ref_parse(head + body)
        except wire.Malformed:
            return ("garbage", head + body, "malformed")

    def read_until_closed(self, limit=20):
        """read messages until EOF/reset; returns (messages, how_it_ended)"""
        msgs = []
        for _ in range(limit):
            m = self.read_message()
            if isinstance(m, tuple):
                return msgs, m
            msgs.append(m)
        return msgs, ("limit",)

    def connect_msg(self, objid, ser="marshal", handshake="hello", seq=0, flags=0):
        return wire.ref_encode(wire.CONNECT, flags, seq, SER_IDS[ser], raw_dumps(ser, {"handshake": handshake, "object": objid}))

    def invoke_msg(self, objid, method, vargs=(), kwargs=None, seq=1, flags=0, ser="marshal", annotations=()):
        return wire.ref_encode(wire.INVOKE, flags, seq, SER_IDS[ser], call_payload(ser, objid, method, vargs, kwargs or {}), annotations)

    def handshake(self, objid, ser="marshal", handshake="hello"):
        self.send(self.connect_msg(objid, ser, handshake))
        return self.read_message()

    def call(self, objid, method, vargs=(), kwargs=None, seq=1, flags=0, ser="marshal"):
        self.send(self.invoke_msg(objid, method, vargs, kwargs, seq, flags, ser))
        return self.read_message()

    def half_close(self):
        try:
            self.sock.shutdown(socket.SHUT_WR)
        except OSError:
            pass

    def close(self):
        if not self.closed:
            self.closed = True
            try:
                self.sock.shutdown(socket.SHUT_RDWR)
            except OSError:
                pass
            self.sock.close()

    def abort(self):
        """abrupt close: RST instead of FIN"""
        if not self.closed:
            self.closed = True
            try:
                self.sock.setsockopt(socket.SOL_SOCKET, socket.SO_LINGER, struct.pack("ii", 1, 0))
            except OSError:
                pass
            self.sock.close()


def reply_value(msg):
    """decode the payload of a reply read by the raw peer (inert)"""
    return raw_loads(msg["ser"], msg["data"])


class ConfigScope(object):
    """set Pyro5.config items for a block and restore them"""
    def __init__(self, **items):
        self.items = items

    def __enter__(self):
        from Pyro5 import config
        self.old = {k: getattr(config, k) for k in self.items}
        for k, v in self.items.items():
            setattr(config, k, v)
        return self

    def __exit__(self, *a):
        from Pyro5 import config
        for k, v in self.old.items():
            setattr(config, k, v)


def quiet_logs():
    """Pyro logs warnings for hostile clients; keep the check output readable"""
    import logging
    import warnings
    logging.getLogger("Pyro5").setLevel(logging.CRITICAL)
    warnings.filterwarnings("ignore")


def unix_socket_path():
    d = tempfile.mkdtemp(prefix="vsock_", dir="/var/tmp")
    return os.path.join(d, "s")


def join_oneway_threads(ceiling=30.0):
    """wait until every oneway-call thread that exists right now has finished (threads in start-up limbo are retried)"""
    t0 = time.time()
    for t in threading.enumerate():
        if t.name == "oneway-call":
            while True:
                try:
                    t.join(max(0.0, ceiling - (time.time() - t0)))
                    break
                except RuntimeError:        # "cannot join thread before it is started": it is being started right now
                    time.sleep(0.001)
                    if time.time() - t0 > ceiling:
                        break
