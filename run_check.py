#!/venv/bin/python
"""Single entry point:  run_check.py <Cnn> [--tier quick|thorough] [--seed N] [--replay file]

exit 0  property held on everything explored (known findings are printed as KNOWN-FINDING lines)
exit 1  a line "VIOLATION property=<id> replay=<path>" was printed
exit 2  harness error (never a verdict)
"""
import os
import sys

ROOT = os.path.dirname(os.path.abspath(__file__))
PY = "/venv/bin/python"

CHECKS = {
    "C01": "c01_values", "C02": "c02_exposure", "C03": "c03_replies", "C04": "c04_deser", "C05": "c05_hostile",
    "C06": "c06_wire", "C07": "c07_exceptions", "C08": "c08_handshake", "C09": "c09_instances", "C10": "c10_streams",
    "C11": "c11_batch", "C12": "c12_context", "C13": "c13_cleanup", "C14": "c14_nsmap", "C15": "c15_nsatomic",
    "C16": "c16_registry", "C17": "c17_sockio", "C18": "c18_pool", "C19": "c19_uri", "C20": "c20_gateway",
}


def reexec():
    env = dict(os.environ)
    want = {"PYTHONHASHSEED": "0", "PYTHONDONTWRITEBYTECODE": "1", "VERIF_REEXEC": "1"}
    if env.get("VERIF_REEXEC") == "1" and os.path.realpath(sys.executable) == os.path.realpath(PY):
        return
    env.update(want)
    # keep PYRO_* settings of the caller out of the code under test
    for k in list(env):
        if k.startswith("PYRO_"):
            del env[k]
    deps = os.path.join(ROOT, ".deps")
    if not os.path.isdir(deps):
        # a checkout without the (untracked) offline-installed extras: install them from the local wheelhouse first
        import subprocess
        try:
            subprocess.run([os.path.join(ROOT, "setup.sh")], stdout=subprocess.DEVNULL, stderr=subprocess.DEVNULL, timeout=300)
        except Exception:
            pass
    pp = [ROOT] + ([deps] if os.path.isdir(deps) else [])
    if env.get("VERIF_REPO"):
        # development aid (mutant runs on a scratch copy): registered commands never set this, they use /repo
        pp.insert(0, env["VERIF_REPO"])
    if env.get("PYTHONPATH"):
        pp.append(env["PYTHONPATH"])
    env["PYTHONPATH"] = os.pathsep.join(pp)
    try:
        # code under test must never be able to wait for terminal input
        fd = os.open(os.devnull, os.O_RDONLY)
        os.dup2(fd, 0)
    except OSError:
        pass
    os.execve(PY, [PY, os.path.join(ROOT, "run_check.py")] + sys.argv[1:], env)


def main():
    reexec()
    import argparse
    ap = argparse.ArgumentParser()
    ap.add_argument("prop")
    ap.add_argument("--tier", default=os.environ.get("VERIF_TIER") or "quick", choices=["quick", "thorough"])
    ap.add_argument("--seed", type=int, default=None)
    ap.add_argument("--replay", default=None)
    a = ap.parse_args()
    seed = a.seed
    if seed is None:
        try:
            seed = int(os.environ.get("VERIF_SEED", "1"))
        except ValueError:
            seed = 1
    os.chdir(ROOT)
    sys.path.insert(0, ROOT)
    try:
        import Pyro5
        want = os.path.realpath(os.environ.get("VERIF_REPO") or "/repo") + "/"
        if not os.path.realpath(Pyro5.__file__).startswith(want):
            sys.stderr.write("HARNESS ERROR: Pyro5 imported from %s, not %s\n" % (Pyro5.__file__, want))
            return 2
        import hypothesis  # noqa
        from vlib import driver
        if a.prop not in CHECKS:
            sys.stderr.write("unknown property %s\n" % a.prop)
            return 2
        return driver.main_check(CHECKS[a.prop], a.tier, seed, a.replay)
    except SystemExit:
        raise
    except BaseException:
        import traceback
        sys.stderr.write("HARNESS ERROR:\n" + traceback.format_exc())
        return 2


if __name__ == "__main__":
    sys.exit(main())
